#!/bin/bash
# usage: tools/seedcopy.sh <seed-id>  -> prints a scratch directory holding a copy of /repo/src with the seeded patch applied (caller removes it)
S=$1; D=/tmp/sc_$S; rm -rf $D; mkdir -p $D; cp -r /repo/src $D/src; rm -rf $D/src/*.egg-info
patch -p1 -s -d $D -i /verif/seeded/$S/patch.diff || { echo "patch failed" >&2; exit 1; }
echo $D
