#!/bin/bash
# usage: tools/seedrun.sh <worktree-or-copy-with-change-applied> [props...]  -> runs checks against it, prints exit codes
D=$1; shift
cd /verif
IDS=${@:-$(python3-vt -c "import json;print(' '.join(c['property_id'] for c in json.load(open('MANIFEST.json'))['checks']))")}
for p in $IDS; do ( PDXSA_EVIDENCE_DIR=/tmp/seedrun_ev_$$ PDXSA_JOBS=4 timeout 1500 python3-vt -m pdxsa check $p --repo $D > /tmp/seedrun_$p.log 2>&1; echo "$p exit=$?" ) & done; wait
for p in $IDS; do grep -E "rule=" /tmp/seedrun_$p.log | sort | uniq -c | head -4 | sed "s/^/   $p /" | cut -c1-220; grep -E "^ANALYSIS-ERROR" /tmp/seedrun_$p.log | head -2 | cut -c1-250; done
rm -rf /tmp/seedrun_ev_$$
