#!/bin/bash
# Run every registered check (quick by default) in parallel; print the summary lines.
TIER=${1:-quick}
cd /verif
IDS=$(python3-vt -c "import json;print(' '.join(c['property_id'] for c in json.load(open('MANIFEST.json'))['checks']))")
rc=0
for p in $IDS; do ( PDXSA_JOBS=${PDXSA_JOBS:-4} python3-vt -m pdxsa check $p --tier $TIER > /tmp/runall_$p.log 2>&1; echo "$p exit=$? $(grep -E '^property=' /tmp/runall_$p.log | tail -1)" ) & done
wait
for p in $IDS; do grep -E "^VIOLATION|^ANALYSIS-ERROR" /tmp/runall_$p.log | head -3; done
