#!/usr/bin/env python3
"""Regenerate /verif/MANIFEST.json from the table in pdxsa/registry.py (keeps it valid at all times)."""
import json, os, sys
sys.path.insert(0, os.path.dirname(os.path.dirname(os.path.abspath(__file__))))
from pdxsa.registry import CLAIMS, NOT_APPLICABLE

ids = [json.loads(l)["id"] for l in open(os.path.join(os.path.dirname(__file__), "..", "properties.jsonl"))]
checks = []
for pid in ids:
    c = CLAIMS.get(pid)
    if not c:
        continue
    checks.append({
        "property_id": pid,
        "quick_cmd": f"python3-vt -m pdxsa check {pid} --tier quick",
        "thorough_cmd": f"python3-vt -m pdxsa check {pid} --tier thorough",
        "evidence_file": f"/verif/evidence/{pid}.json",
        "replay_cmd_template": f"python3-vt -m pdxsa check {pid} --replay {{path}}",
        "engine": "pdxsa",
        "level_claimed": {"category": c["level"], "text": c["text"], "design_ref": c.get("design_ref", f"DESIGN.md section 3, {pid}")},
        "level_note": c["note"],
        "technique": c["technique"],
    })
na = [{"property_id": p, "reason": NOT_APPLICABLE.get(p, "checker not yet implemented (work in progress, see DESIGN.md section 7)")}
      for p in ids if p not in CLAIMS]
m = {
    "version": 1,
    "setup_cmd": "python3-vt -c \"import numpy, networkx, pdxsa\"",
    "hooks": {"guard": "PYDREX_VERIF", "enable": "none: static analysis needs no instrumentation of /repo (no hook commits)",
              "baseline_off_cmd": "cd /repo && /venv/bin/python -m pytest -ra -q -p no:cacheprovider --timeout=900 --continue-on-collection-errors",
              "source_commits": [], "add_only": True},
    "engines": [{"name": "pdxsa", "path": "/verif/pdxsa", "serves_properties": sorted(CLAIMS),
                 "kind_free_text": "repository-specific static analyser: AST abstract interpreter over exact rational-function normal forms "
                                   "(ALG), statement CFG with dominance/effect/def-use rules (FLOW), table/exhaustiveness/sibling checks (TAB); "
                                   "never imports or runs pydrex"}],
    "checks": checks,
    "notes": "All verdicts are computed from the source text of /repo by python3-vt -m pdxsa; see DESIGN.md. exit 0 pass/known findings, 1 VIOLATION, 2 ANALYSIS-ERROR.",
    "not_applicable": na,
}
out = os.path.join(os.path.dirname(__file__), "..", "MANIFEST.json")
json.dump(m, open(out, "w"), indent=1)
try:
    import jsonschema
    jsonschema.validate(m, json.load(open("/root/.vp/MANIFEST.schema.json")))
    print("MANIFEST valid;", len(checks), "checks,", len(na), "not applicable")
except ImportError:
    print("written (jsonschema unavailable)")
