#!/bin/bash
# usage: tools/mut.sh <PROP> <file-relative-to-src/pydrex> <sed-expr> ; runs the check on a scratch copy
set -e
D=$(mktemp -d /tmp/mutXXXXXX); mkdir -p $D/src; cp -r /repo/src/pydrex $D/src/
sed -i "$3" $D/src/pydrex/$2
if cmp -s $D/src/pydrex/$2 /repo/src/pydrex/$2; then echo "MUTATION DID NOT APPLY"; rm -rf $D; exit 3; fi
cd /verif; PDXSA_EVIDENCE_DIR=$D/evidence python3-vt -m pdxsa check $1 --repo $D 2>&1 | grep -E "^VIOLATION|^property=|ANALYSIS-ERROR|rule=" | head -${4:-6} | cut -c1-220
rm -rf $D
