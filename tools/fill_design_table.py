#!/usr/bin/env python3
"""Rewrite the end of DESIGN.md section 10 (seed table + benign corpus summary) from /verif/seeded/*/meta.json and /verif/benign/*/result.json."""
import json, os, subprocess, sys
VERIF = os.path.dirname(os.path.dirname(os.path.abspath(__file__)))
p = os.path.join(VERIF, "DESIGN.md")
s = open(p).read()
marker = "| Seed | What it changes | Needs to manifest | Caught by"
i = s.index(marker)
table = subprocess.run([sys.executable, os.path.join(VERIF, "tools", "seedtable.py")], capture_output=True, text=True).stdout.strip()
seeds = [d for d in sorted(os.listdir(os.path.join(VERIF, "seeded"))) if os.path.isfile(os.path.join(VERIF, "seeded", d, "meta.json"))]
metas = {d: json.load(open(os.path.join(VERIF, "seeded", d, "meta.json"))) for d in seeds}
hit = [d for d in seeds if metas[d].get("target_check_reports_it")]
other = [d for d in seeds if not metas[d].get("target_check_reports_it") and metas[d].get("detected_by")]
none = [d for d in seeds if not metas[d].get("detected_by")]
errs = {d: metas[d].get("analysis_errors") for d in seeds if metas[d].get("analysis_errors")}
ben = sorted(os.listdir(os.path.join(VERIF, "benign")))
res = {b: json.load(open(os.path.join(VERIF, "benign", b, "result.json"))) for b in ben if os.path.exists(os.path.join(VERIF, "benign", b, "result.json"))}
loud = {b: r["not_silent"] for b, r in res.items() if r.get("not_silent")}
tail = table + "\n\n"
tail += (f"Summary of the last matrix run (`tools/seedmatrix.py`, results in each `meta.json`): {len(seeds)} confirmed seeds, {len(hit)} reported by the check "
         f"of their own property, {len(other)} only by the check of another property ({', '.join(other) or 'none'}), {len(none)} by none "
         f"({', '.join(none) or 'none'})."
         + (f" Checks that ended with exit 2 on a seeded tree (never counted as a report): " + "; ".join(f"{d}: {', '.join(e)}" for d, e in sorted(errs.items())) + "." if errs else "")
         + "\n\n")
tail += (f"**Benign corpus** (`/verif/benign/<id>/patch.diff`, written by sub-agents asked for behaviour-preserving refactorings with an equivalence "
         f"digest on the pristine and the patched tree; `tools/benignmatrix.py`): {len(res)} patches with a recorded result, "
         f"{len(res) - len(loud)} silent" + (f"; not silent: " + "; ".join(f"{b}: {json.dumps(v)[:160]}" for b, v in sorted(loud.items())) if loud else "") + ".\n")
if "C12j" in none:
    tail += """
**The one seed no check reports (C12j).** `out["hexagonal_axis"] = axis * np.sign(axis[2])`: for a symmetry axis lying exactly in the
x-y plane the zero vector is returned. The C12 rules read the reported axis back as a three-way selection over candidate frames
(`selection`) and prove unit length of the frame columns (`unit-axis`), not of the reported vector; on the seeded tree the read-back fails
(inconclusive) and the interpretation of the sign-normalised expressions does not finish within the watchdog (exit 2, never a report). What
would decide it is a rule on the output itself - sum_r axis_r^2 == 1 - evaluated also where a denominator of the extracted form vanishes
(`np.sign(z)` is modelled as z/|z|, undefined at z = 0 where the reference is defined). That "undefined where the reference is defined"
world is not built; it is the natural next step for the engine and would also serve C03's division rules.
"""
open(p, "w").write(s[:i] + tail)
print(f"seeds {len(seeds)} (target {len(hit)}, other {len(other)}, none {len(none)}); benign {len(res)} ({len(loud)} loud)")
