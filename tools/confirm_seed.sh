#!/bin/bash
# usage: tools/confirm_seed.sh C03 [name-suffix]  : confirm a sub-agent's seeded change in its worktree and store it under /verif/seeded/
ID=$1; SUF=${2:-}; WT=${WT:-/tmp/wt_$ID}; OUT=/verif/seeded/$ID$SUF
set -u
cd $WT || exit 9
git diff -- src > /tmp/confirm_$ID.diff
[ -s /tmp/confirm_$ID.diff ] || { echo "no change applied in $WT"; exit 9; }
PYTHONPATH=$WT/src timeout 1800 /venv/bin/python _seed/demo.py > /tmp/confirm_${ID}_with.log 2>&1; WITH=$?
git apply -R /tmp/confirm_$ID.diff || { echo 'cannot reverse'; exit 9; }
PYTHONPATH=$WT/src timeout 1800 /venv/bin/python _seed/demo.py > /tmp/confirm_${ID}_without.log 2>&1; WITHOUT=$?
git apply /tmp/confirm_$ID.diff || { echo 'cannot re-apply'; exit 9; }
PYTHONPATH=$WT/src timeout 3000 /venv/bin/python -m pytest -q -p no:cacheprovider --timeout=900 --continue-on-collection-errors > /tmp/confirm_${ID}_tests.log 2>&1; TESTS=$?
SUMMARY=$(tail -1 /tmp/confirm_${ID}_tests.log)
echo "$ID demo_with=$WITH demo_without=$WITHOUT tests_exit=$TESTS :: $SUMMARY"
if [ $WITH -ne 0 ] && [ $WITHOUT -eq 0 ] && [ $TESTS -eq 0 ]; then
  mkdir -p $OUT; cp /tmp/confirm_$ID.diff $OUT/patch.diff; cp _seed/demo.py $OUT/demo.py; cp _seed/notes.md $OUT/notes.md 2>/dev/null
  python3 - <<PY
import json
json.dump({"property":"$ID","confirmed":{"demo_exit_with_change":$WITH,"demo_exit_without_change":$WITHOUT,"existing_suite_with_change":"$SUMMARY"},
 "how_confirmed":"tools/confirm_seed.sh: demo run with the change and with the change stashed in a scratch worktree of /repo; full pinned test command run with PYTHONPATH=<worktree>/src",
 "needs_to_manifest":"see notes.md","detected_by":[]}, open("$OUT/meta.json","w"), indent=1)
PY
  echo "stored in $OUT"
else
  echo "NOT CONFIRMED: $ID"
fi
