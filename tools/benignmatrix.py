#!/usr/bin/env python3
"""Apply every behaviour-preserving refactoring kept under /verif/benign/<id>/patch.diff to a scratch copy of /repo/src and run the
checks against it: every check must stay at exit 0 (exit 1 = false alarm, exit 2 = outside the interpreted subset).  Prints one line per
patch and a summary; writes benign/<id>/result.json."""
import json, os, re, shutil, subprocess, sys, tempfile
from concurrent.futures import ThreadPoolExecutor
VERIF = os.path.dirname(os.path.dirname(os.path.abspath(__file__)))
PY = sys.executable
ids = [c["property_id"] for c in json.load(open(os.path.join(VERIF, "MANIFEST.json")))["checks"]]
FILES = {"core.py": "C01 C02 C03 C04 C05 C06 C07 C08 C09 C19", "minerals.py": "C01 C04 C05 C06 C07 C08 C09 C10 C17",
         "utils.py": "C01 C06 C09 C13 C14 C18", "tensors.py": "C10 C11 C12", "diagnostics.py": "C12 C13 C14", "stats.py": "C13 C14 C15 C20",
         "io.py": "C16 C19", "mock.py": "C19", "geometry.py": "C14 C18 C20", "velocity.py": "C18", "pathlines.py": "C18"}
only = [a for a in sys.argv[1:] if not a.startswith("--")]
ALL = "--all" in sys.argv


def one(bid):
    bd = os.path.join(VERIF, "benign", bid)
    if only and bid not in only:
        return None
    d = tempfile.mkdtemp(prefix="pdxsa_benign_")
    try:
        shutil.copytree("/repo/src", os.path.join(d, "src"), ignore=shutil.ignore_patterns("*.egg-info", "__pycache__"))
        r = subprocess.run(["patch", "-p1", "-s", "-d", d, "-i", os.path.join(bd, "patch.diff")], capture_output=True, text=True)
        if r.returncode != 0:
            print(f"{bid}: patch does not apply: {r.stdout} {r.stderr}")
            return None
        touched = set(re.findall(r"^\+\+\+ b/src/pydrex/(\S+)", open(os.path.join(bd, "patch.diff")).read(), re.M))
        props = sorted({p for f in touched for p in FILES.get(f, "").split()}) if not ALL else ids

        def run(p):
            env = dict(os.environ, PDXSA_EVIDENCE_DIR=os.path.join(d, "ev"), PDXSA_JOBS="4")
            rr = subprocess.run([PY, "-m", "pdxsa", "check", p, "--repo", d], cwd=VERIF, env=env, capture_output=True, text=True, timeout=3000)
            rules = sorted(set(re.findall(r"rule=(\S+)", rr.stdout)))
            err = re.findall(r"^ANALYSIS-ERROR.*", rr.stdout, re.M)[:1]
            return p, rr.returncode, rules, err
        with ThreadPoolExecutor(6) as ex:
            res = list(ex.map(run, props))
        bad = {p: (rc, rules[:4], err) for p, rc, rules, err in res if rc != 0}
        json.dump({"touched": sorted(touched), "checks_run": props, "not_silent": bad}, open(os.path.join(bd, "result.json"), "w"), indent=1)
        print(f"{bid}: {'SILENT' if not bad else 'NOT SILENT ' + json.dumps(bad)[:400]} ({','.join(sorted(touched))}; {len(props)} checks)", flush=True)
        return bid, bad
    finally:
        shutil.rmtree(d, ignore_errors=True)


with ThreadPoolExecutor(int(os.environ.get("SEED_JOBS", "3"))) as outer:
    rows = [r for r in outer.map(one, sorted(os.listdir(os.path.join(VERIF, "benign")))) if r]
print(f"\nBENIGN {len(rows)} patches, {sum(1 for _, b in rows if not b)} silent, not silent: {[b for b, bad in rows if bad]}")
