#!/usr/bin/env python3
"""Apply every kept seeded change (/verif/seeded/<id>/patch.diff) to a scratch copy of /repo/src, run the checks
against it and record which checks/rules report it (meta.json 'detected_by').  Prints a markdown table."""
import json, os, re, shutil, subprocess, sys, tempfile
from concurrent.futures import ThreadPoolExecutor
VERIF = os.path.dirname(os.path.dirname(os.path.abspath(__file__)))
PY = sys.executable
ids = [c["property_id"] for c in json.load(open(os.path.join(VERIF, "MANIFEST.json")))["checks"]]
only = [a for a in sys.argv[1:] if not a.startswith("--")]
ALL = "--all" in sys.argv        # every check against every seed (hours); default: the target check and the checks anchored in the touched files
FILES = {"core.py": "C01 C02 C03 C04 C05 C06 C07 C08 C09 C19", "minerals.py": "C01 C04 C05 C06 C07 C08 C09 C10 C17",
         "utils.py": "C01 C06 C09 C13 C14 C18", "tensors.py": "C10 C11 C12 C13", "diagnostics.py": "C12 C13 C14", "stats.py": "C13 C14 C15 C20",
         "io.py": "C16 C19", "mock.py": "C19", "geometry.py": "C14 C18 C20", "velocity.py": "C18", "pathlines.py": "C18"}
rows = []


def one(seed):
    sd = os.path.join(VERIF, "seeded", seed)
    if not os.path.isfile(os.path.join(sd, "patch.diff")) or (only and seed not in only):
        return
    d = tempfile.mkdtemp(prefix="pdxsa_seed_")
    try:
        shutil.copytree("/repo/src", os.path.join(d, "src"), ignore=shutil.ignore_patterns("*.egg-info", "__pycache__"))
        r = subprocess.run(["patch", "-p1", "-s", "-d", d, "-i", os.path.join(sd, "patch.diff")], capture_output=True, text=True)
        if r.returncode != 0:
            print(f"{seed}: patch does not apply: {r.stdout} {r.stderr}")
            return
        target = re.match(r"(C\d+)", seed).group(1)
        touched = set(re.findall(r"^\+\+\+ b/src/pydrex/(\S+)", open(os.path.join(sd, "patch.diff")).read(), re.M))
        props = ids if ALL else sorted({target} | {p for f in touched for p in FILES.get(f, "").split()})
        def run(p):
            env = dict(os.environ, PDXSA_EVIDENCE_DIR=os.path.join(d, "ev"), PDXSA_JOBS="4")
            rr = subprocess.run([PY, "-m", "pdxsa", "check", p, "--repo", d], cwd=VERIF, env=env, capture_output=True, text=True, timeout=3000)
            rules = sorted(set(re.findall(r"rule=(\S+)", rr.stdout)))
            return p, rr.returncode, rules
        with ThreadPoolExecutor(6) as ex:
            res = list(ex.map(run, props))
        det = {p: rules for p, rc, rules in res if rc == 1}
        err = [p for p, rc, rules in res if rc == 2]
        meta_path = os.path.join(sd, "meta.json")
        meta = json.load(open(meta_path)) if os.path.exists(meta_path) else {}
        meta["detected_by"] = det
        meta["analysis_errors"] = err
        meta["checks_run"] = props
        meta["target_check_reports_it"] = target in det
        json.dump(meta, open(meta_path, "w"), indent=1)
        rows.append((seed, target in det, det, err))
        print(f"{seed}: target={'REPORTED' if target in det else 'MISSED'} detected_by={ {k: v[:3] for k, v in det.items()} } errors={err}", flush=True)
    finally:
        shutil.rmtree(d, ignore_errors=True)


with ThreadPoolExecutor(int(os.environ.get("SEED_JOBS", "3"))) as outer:
    list(outer.map(one, sorted(os.listdir(os.path.join(VERIF, "seeded")))))
rows.sort()
print()
for seed, ok, det, err in rows:
    print(f"| {seed} | {'yes' if ok else 'NO'} | " + "; ".join(f"{k}: {', '.join(v[:3])}" for k, v in det.items()) + " |")
