#!/usr/bin/env python3
"""Print the markdown table of DESIGN.md section 10 from seeded/*/meta.json (detected_by is written by tools/seedmatrix.py).
The two descriptive columns are kept here, next to the tool, because they are documentation and not machine output."""
import json, os, re
VERIF = os.path.dirname(os.path.dirname(os.path.abspath(__file__)))
DESC = {
    "C01": ("negative-volume clip dropped in `extract_vars` + `apply_gbs` fast path for chi <= 0 (each harmless alone)", "chi = 0 and a grain driven below zero volume"),
    "C01b": ("`if self.seed` instead of `is not None` when seeding the initial orientations", "seed = 0"),
    "C01c": ("start state passed through `apply_gbs` in place before integration: rewrites the latest stored snapshot", "second update, non-uniform initial volumes, or a loaded mineral"),
    "C02": ("`np.allclose`-style no-slip guard swallows weakly resolved grains", "slip activities below 1e-8 but above the 1e-9 level C02 covers"),
    "C02b": ("ranks only the first three slip systems, hard-wires system 3 as the inactive one", "olivine C (infinite CRSS on system 2)"),
    "C02c": ("unweighted mean strain energy in the frictional-yielding arm", "yielding regime, unequal grain volumes, M* > 0"),
    "C03": ("no-slip early returns give the spin without composing it with the orientation", "a grain with no resolved slip (axis-aligned)"),
    "C03b": ("yielding arm smooths against `np.mean` of the energies", "yielding regime with unequal volumes"),
    "C03c": ("olivine no-slip guard tests only the first three invariants", "olivine C grain whose only resolved system has infinite CRSS (division by zero)"),
    "C04": ("strain-rate scale = largest absolute component instead of largest absolute eigenvalue", "a rotated frame"),
    "C04b": ("signed power x|x|^(n-1) simplified to |x|^n for the secondary slip systems", "two-fold crystal symmetry operation / reversed sense of slip"),
    "C04c": ("(100)[001] slip invariant resolved on the columns of the orientation matrix", "olivine C with a generic orientation and a rotation about a general axis"),
    "C05": ("zero-strain-rate guard compares the dimensional scale with machine epsilon", "SI-unit strain rates (< 2e-16 1/s never deform)"),
    "C05b": ("dimensional strain rate (but scaled velocity gradient) passed to the kernel", "any |L| != 1"),
    "C05c": ("strain-rate scale memoised behind `np.allclose(L, L_prev)` (absolute tolerance 1e-8)", "time-dependent flow in SI units"),
    "C06": ("solver run over elapsed time: L and x sampled at t - t0", "time-dependent flow with t0 != 0"),
    "C06b": ("viscosity-bound regimes return zeros for the whole state, F included", "min/max viscosity regime with L != 0"),
    "C06c": ("position looked up at `clip(t, time_start, time_end)`", "backward-in-time interval with a moving, position-dependent flow"),
    "C07": ("short-circuit in `eval_rhs` freezes F in the viscosity-bound regimes", "null regime through field or callback"),
    "C07b": ("out-of-range regime ordinal from the callback clamped onto a valid member", "callback returning 8, -1, ..."),
    "C07c": ("regime callback sampled once at the start of the update", "regime change strictly inside an update interval"),
    "C08": ("module-level memo of the phase position, keyed by phase only", "two assemblages with different order in one process"),
    "C08b": ("`update_all` builds per-mineral params taking the fraction by list position", "mineral list in a different order than the assemblage"),
    "C08c": ("`update_all` threads the returned F into the next mineral", "two or more minerals in one call"),
    "C09": ("no-rotation reference = orientations before each solver step", "a grain crossing the threshold mid-update"),
    "C09b": ("mask relative to each grain's initial volume, floor still chi/n", "non-uniform initial volumes"),
    "C09c": ("sliding step skipped when M* == 0", "M* = 0 with a grain already below chi/n"),
    "C10": ("phase fractions paired with minerals by list position", "mineral list order != assemblage order"),
    "C10b": ("`StiffnessTensors.__iter__` yields the field defaults, not the instance values", "user-supplied stiffness tensors"),
    "C10c": ("zero-volume grains skipped, weights read with the compacted index", "a zero-volume grain that is not last"),
    "C11": ("two shear-shear terms swapped in the deviatoric contraction", "non-orthorhombic tensor"),
    "C11b": ("`0.5 * 1 / sqrt(2)` precedence slip in three weights of `voigt_vector_to_matrix`", "non-zero C45, C46, C56"),
    "C11c": ("`tetr_project` no longer applies `ortho_project` first", "monoclinic/triclinic vector passed directly"),
    "C12": ("hexagonal axis read from a row of the transposed frame", "general orientation (any rotated tensor)"),
    "C12c": ("SCCS averaging uses v-eigenvector i instead of the nearest one", "contractions that order the principal axes differently"),
    "C13": ("YZ entry of the scatter matrix written to the unread triangle", "texture with non-zero YZ scatter"),
    "C13b": ("right instead of left Cauchy-Green tensor in `finite_strain`", "F with a rotational part"),
    "C13c": ("principal strain of largest magnitude instead of largest stretch", "oblate strain ellipsoid (axial shortening)"),
    "C14": ("theory prefactor N/180 rewritten as M/90 in two angle branches", "lattice systems with N != 2M"),
    "C14b": ("theoretical density memoised by (theta_max, nbins) only", "second call with another lattice system of equal theta_max"),
    "C14c": ("single-variant fast path without the clip before arccos", "triclinic, numerically identical float32 grains"),
    "C15": ("uniform variates drawn as float32", "probabilities below 2^-24 / exact-zero draws"),
    "C15c": ("volumes returned with the sorted-position index applied to the unsorted array", "unequal volumes not already ascending"),
    "C16": ("save-time cell check skipped when `isinstance(d, t)`", "Python bool in an integer column"),
    "C16b": ("fill comparison through `np.isclose`", "datum within 1e-5 relative of the fill"),
    "C16c": ("reader skips lines that are blank after `strip()`", "whitespace delimiter, empty missing marker, all-missing row"),
    "C17": ("`from_file` drops the stored regime", "regime other than the default"),
    "C17b": ("loaders match archive members by suffix", "nested postfixes ('1' and 'run_1')"),
    "C17c": ("postfix passed through `stringify` on both sides", "postfixes differing only in non-identifier characters"),
    "C18": ("corner-flow prefactor from the norm of the full 3D position", "non-zero out-of-plane coordinate"),
    "C18b": ("`_is_inside` rewritten so that the upper faces are not tested", "pathline leaving through an upper face"),
    "C18c": ("polar rewrite loses the sign of the horizontal coordinate", "h < 0 flank of the ridge"),
    "C19": ("early return drops the `strain_final` default", "pathline input without `timestep`"),
    "C19b": ("integer phase ordinals returned as bare `int`", "phases given as ordinals"),
    "C19c": ("`as_dict` returns the class defaults", "a record with a non-default field"),
    "C20": ("`poles` sorts the reference-axes string", "ref_axes 'zx', 'yx', 'zy'"),
    "C20b": ("axial data folded once into the upper hemisphere instead of |d.c| per counter", "counter in the lower hemisphere"),
    "C20c": ("projection gains `axial=` and `point_density` forwards it", "axial=False"),
    "C01d": ("zero-strain-rate branch of `eval_rhs` returns the spin tensor W itself as orientation rate ('passive rotation')", "purely rotational velocity gradient (D = 0, W != 0) at a solver evaluation"),
    "C02d": ("integer fast path `ratio**int(n)` replaces the signed power for integral exponents", "olivine, n exactly 2.0 or 4.0, secondary system sheared against the primary"),
    "C03d": ("no-slip early returns give W^T not composed with the orientation", "C-type olivine grain with only the infinite-CRSS system resolved, flow with vorticity"),
    "C04d": ("strain-rate scale: fast path |L_ij|/2 when L has a single non-zero entry", "uniaxial L (single diagonal entry) in the unrotated frame, M* > 0"),
    "C05d": ("zero-strain-rate guard compares the dimensional scale with machine epsilon (`<= eps`)", "k below ~4e-16"),
    "C06d": ("velocity gradient sampled at start/mid/end; if equal, the start sample is used for the whole interval", "L(t, x(t)) that coincides at the three sample points but varies in between"),
    "C07d": ("`get_crss` as a table lookup with only an upper range check for olivine", "negative fabric ordinal with the olivine phase (index wraps around)"),
    "C08d": ("phase-fraction table memoised per `id(params)` and rebuilt only when the assemblage changes", "same params dict reused with changed `phase_fractions`"),
    "C09d": ("floor first with `np.maximum`, then `mask = fractions == threshold`", "grain exactly at chi/n; exactly-zero volumes with chi = 0"),
    "C10d": ("expanded stiffness tensors cached per `id(elastic_tensors)`", "same StiffnessTensors object mutated between calls / recycled id"),
    "C11d": ("`rotate` returns the tensor unchanged when the rotation has no off-diagonal entries", "half-turn about a coordinate axis, non-orthorhombic tensor"),
    "C12d": ("SCCS pairing of the two eigenvector sets by index instead of nearest axis", "orthorhombic tensor whose two contractions rank the axes differently"),
    "C13d": ("closed-form 3x3 eigenvalues with an unsorted early exit for diagonal matrices", "exactly diagonal scatter matrix not already descending"),
    "C14d": ("theoretical misorientation density memoised by (theta range, bins) without the lattice system", "two lattice systems with equal theta_max in one process / pool"),
    "C15d": ("seeded generator kept in an `lru_cache`", "second call with the same seed in one process"),
    "C16d": ("save-time trial parse skipped when `isinstance(d, t)`", "Python bool in an integer column"),
    "C17d": ("postfix helper tests truthiness instead of `is not None`", "falsy postfix (0, '') saved after another mineral"),
    "C18d": ("terminal event hoisted to module level with its state in a module dict, rewound only on success", "pathline request after one that raised"),
    "C19d": ("fabric letter resolved with `'ABCDE'.index(...)`", "multi-letter or empty fabric string ('AB', '', 'BC')"),
    "C20d": ("axial exponential kernel as 2 exp(-f) cosh(f c)", "n/sigma^2 above ~354 (overflow)"),
    "C01e": ("start state passed through `apply_gbs` in place when a grain is below the threshold: rewrites the stored snapshot", "chi > 0 and a grain below chi/n at the start of an update"),
    "C02e": ("whole-number exponent fast path `ratio * ratio**(n-1)` (drops the modulus)", "olivine, n exactly 2.0 or 4.0"),
    "C03e": ("no-slip early returns give the bare vorticity matrix", "no-slip grain with non-identity orientation in a flow with vorticity"),
    "C04e": ("(100)[001] slip invariant symmetrised with a wrong index pair (not a full contraction)", "olivine C in a rotated frame"),
    "C05e": ("dimensional strain rate passed to the kernel (only the velocity gradient is scaled)", "enstatite at geological strain rates (absolute 1e-15 threshold)"),
    "C06e": ("`np.isclose(time_start, time_end)` early return without integrating", "interval short relative to its absolute time (t ~ 2e5, dt = 1)"),
    "C07e": ("`get_regime(t, x) or self.regime`", "callback announcing min_viscosity (ordinal 0 is falsy)"),
    "C08e": ("fractions indexed by phase ordinal when their number equals the number of phases", "(enstatite, olivine) order with unequal fractions"),
    "C09e": ("`apply_gbs` receives `params['number_of_grains']` instead of the mineral's own grain count", "mineral built with another n_grains than the parameter set"),
    "C10e": ("new `rotate_voigt` kernel that only uses the orthorhombic entries of the stiffness", "custom non-orthorhombic stiffness (monoclinic pyroxene, tilted olivine)"),
    "C11e": ("`voigt_vector_to_matrix` as a loop that writes C46 into the lower triangle", "C46 != 0 (monoclinic with x2 unique, triclinic)"),
    "C12e": ("vectorised nearest-axis pairing with `argmax` over the wrong axis", "contractions that rank the axes in cyclically shifted orders"),
    "C13e": ("`finite_strain` fast path `eigh(F)` for symmetric F", "symmetric indefinite F (stretch composed with a half-turn); shear below 1e-8"),
    "C14e": ("theoretical density cached by the bytes of the bin edges", "two lattice systems with equal theta_max in one process"),
    "C15e": ("zero-volume grains sliced off the sorted volumes but not off the sorted orientations", "a grain with volume exactly 0"),
    "C16e": ("`_yaml_scalar` skips the dumper for identifier-like words", "YAML 1.1 keywords (no, null, on, ...) as fill or missing marker"),
    "C17e": ("cache of open NPZ archives, invalidated only by whole-file saves", "load, then save under a postfix, then load again"),
    "C18e": ("corner-flow gradient written in the reference frame and gathered with the permutation instead of its inverse", "axis pairs (Y,X) and (Z,Y)"),
    "C19e": ("timestep check `isinstance(...) and timestep > 0` rejects the NaN default", "pathline mode without `timestep`"),
    "C20e": ("|cos| moved from `point_density` into the kernels, except `schmidt_count`", "schmidt kernel, axial data with sign flips"),
}
rows = []
for seed in sorted(os.listdir(os.path.join(VERIF, "seeded"))):
    mp = os.path.join(VERIF, "seeded", seed, "meta.json")
    if not os.path.exists(mp):
        continue
    meta = json.load(open(mp))
    det = meta.get("detected_by") or {}
    target = re.match(r"(C\d+)", seed).group(1)
    what, needs = DESC.get(seed, ("see notes.md", "see notes.md"))

    def rules(p):
        return ", ".join(r.split(".", 1)[1] for r in det[p][:3]) + (", ..." if len(det[p]) > 3 else "")
    caught = []
    if target in det:
        caught.append(f"**{target}**: {rules(target)}")
    caught += [f"{p}: {rules(p)}" for p in sorted(det) if p != target]
    rows.append(f"| {seed} | {what} | {needs} | {'; '.join(caught) if caught else 'NOT CAUGHT'} |")
print("| Seed | What it changes | Needs to manifest | Caught by (target check in bold) |")
print("|---|---|---|---|")
print("\n".join(rows))
