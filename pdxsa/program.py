"""Loader/resolver for the PyDRex source tree: parses every module, records top-level
definitions and import aliases; global names are resolved lazily by the interpreter."""

from __future__ import annotations

import ast
import hashlib
import os


class AnchorMissing(Exception):
    """An anchored public symbol is no longer present (reported as ANALYSIS-ERROR)."""


class Module:
    def __init__(self, name, path, src):
        self.name = name          # e.g. pydrex.core
        self.path = path
        self.src = src
        self.tree = ast.parse(src, filename=path)
        self.defs = {}            # name -> list of defining top-level stmts (last wins)
        self.imports = {}         # alias -> ("module", dotted) | ("from", dotted, name)
        self.globals_cache = {}
        self._index()

    def _index(self):
        self._index_body(self.tree.body)

    def _index_body(self, body):
        for st in body:
            if isinstance(st, (ast.FunctionDef, ast.ClassDef, ast.AsyncFunctionDef)):
                self.defs[st.name] = st
            elif isinstance(st, ast.Assign):
                for t in st.targets:
                    for n in _target_names(t):
                        self.defs[n] = st
            elif isinstance(st, ast.AnnAssign) and isinstance(st.target, ast.Name) and st.value is not None:
                self.defs[st.target.id] = st
            elif isinstance(st, ast.Import):
                for a in st.names:
                    alias = a.asname or a.name.split(".")[0]
                    target = a.name if a.asname else a.name.split(".")[0]
                    self.imports[alias] = ("module", target)
            elif isinstance(st, ast.ImportFrom):
                mod = st.module or ""
                if st.level:
                    base = self.name.rsplit(".", st.level)[0]
                    mod = base + ("." + mod if mod else "")
                for a in st.names:
                    self.imports[a.asname or a.name] = ("from", mod, a.name)
            elif isinstance(st, ast.If):
                # `if sys.version_info >= ...: import tomllib` / `if HAS_RAY:` — index both arms,
                # first arm wins for duplicates (the then-branch is the modern interpreter path).
                self._index_body(st.orelse)
                self._index_body(st.body)
            elif isinstance(st, ast.Try):
                self._index_body(st.body)


def _target_names(t):
    if isinstance(t, ast.Name):
        yield t.id
    elif isinstance(t, (ast.Tuple, ast.List)):
        for e in t.elts:
            yield from _target_names(e)


class Program:
    """All modules of src/pydrex under a repository root."""

    def __init__(self, repo="/repo", package="pydrex"):
        self.repo = os.path.abspath(repo)
        self.package = package
        self.pkgdir = os.path.join(self.repo, "src", package)
        if not os.path.isdir(self.pkgdir):
            raise AnchorMissing(f"package directory {self.pkgdir} not found")
        self.modules = {}
        h = hashlib.sha256()
        for fn in sorted(os.listdir(self.pkgdir)):
            if not fn.endswith(".py"):
                continue
            path = os.path.join(self.pkgdir, fn)
            with open(path, encoding="utf-8") as f:
                src = f.read()
            h.update(fn.encode())
            h.update(src.encode())
            name = package if fn == "__init__.py" else f"{package}.{fn[:-3]}"
            self.modules[name] = Module(name, path, src)
        self.digest = h.hexdigest()

    def module(self, name):
        m = self.modules.get(name)
        if m is None:
            raise AnchorMissing(f"module {name} not found under {self.pkgdir}")
        return m

    def has(self, dotted):
        mod, _, name = dotted.rpartition(".")
        return mod in self.modules and name in self.modules[mod].defs

    def require(self, dotted):
        """Return the defining AST node of a public anchor, following re-exports; exit-2 error if gone."""
        mod, _, name = dotted.rpartition(".")
        m = self.module(mod)
        if "." in name:
            raise ValueError(dotted)
        node = m.defs.get(name)
        if node is None:
            imp = m.imports.get(name)
            if imp and imp[0] == "from" and imp[1] in self.modules:
                return self.require(imp[1] + "." + imp[2])
            raise AnchorMissing(f"anchored symbol {dotted} not found in {m.path}")
        return node

    def require_method(self, dotted_class, method):
        node = self.require(dotted_class)
        if not isinstance(node, ast.ClassDef):
            raise AnchorMissing(f"{dotted_class} is not a class")
        for st in node.body:
            if isinstance(st, ast.FunctionDef) and st.name == method:
                return st
        raise AnchorMissing(f"method {dotted_class}.{method} not found")

    def relpath(self, path):
        return os.path.relpath(path, self.repo)

    def loc(self, module, node):
        return f"{self.relpath(module.path)}:{getattr(node, 'lineno', 0)}"
