"""C05 — strain-path dependence: homogeneity (dimension) analysis of the extracted right-hand side and solver knobs."""

from __future__ import annotations

from fractions import Fraction as Fr

import numpy as np

from .. import alg
from ..alg import E, lift, ZERO, ONE
from ..values import symarr
from .common import short
from . import driver

LEVEL = "other"


def run(ctx):
    ctx.explanation = (
        "Homogeneity analysis of the abstractly interpreted eval_rhs (core.derivatives kept as an uninterpreted call whose arguments are "
        "recorded): with degree 1 assigned to every velocity-gradient cell and 0 to the state, parameters and texture, (i) every numeric "
        "argument handed to derivatives for a dislocation-type regime has degree 0 (strain rate and velocity gradient divided by the same "
        "degree-1 scalar), (ii) the three blocks of the returned rate vector have degree exactly 1, so dy/dt scales with k and dy/d(kt) does "
        "not; (iii) the solver's first_step is homogeneous of degree 1 in the time span, rtol is a constant and atol depends on y_start only "
        "(degree 0 in time and rate) — no absolute time or rate constant enters.  Not decided: the numerical agreement itself "
        "(LSODA step selection up to rounding); regimes outside the dislocation-type ones.")
    ctx.trusted += ["library facts: eigvalsh, max, abs, norm are positively homogeneous of degree 1; SVD factors U, Vh have degree 0, S degree 1",
                    "stub model of scipy.integrate.LSODA"]
    ctx.rule("C05.args", "every numeric argument of core.derivatives has homogeneity degree 0 in the velocity gradient (dislocation-type regimes)")
    ctx.rule("C05.rhs", "rhs blocks [dF | dA | df] each have degree exactly 1 in the velocity gradient")
    ctx.rule("C05.guards", "every data-dependent branch condition evaluated in eval_rhs compares quantities of equal homogeneity degree in the velocity "
                           "gradient (or tests against exactly zero): no absolute rate/time threshold")
    ctx.rule("C05.knobs", "first_step has degree 1 in the time span and 0 in rate; rtol constant; atol free of time and rate symbols")
    mloc = ctx.program.loc(ctx.program.module("pydrex.minerals"), ctx.program.require_method("pydrex.minerals.Mineral", "update_orientations")) + " (update_orientations)"
    for regime in ("matrix_dislocation", "frictional_yielding"):
        fabs = (("olivine", "olivine_A"), ("enstatite", "enstatite_AB")) if ctx.tier == "quick" else tuple(
            (("enstatite" if f.startswith("enstatite") else "olivine"), f) for f in ("olivine_A", "olivine_B", "olivine_C", "olivine_D", "olivine_E", "enstatite_AB"))
        for phase, fabric in fabs:
            R = driver.run_update(ctx, phase=phase, fabric=fabric, regime=regime, N=2, assemblage=("olivine", "enstatite"))
            tag = f"{fabric}:{regime}"
            if R.exc is not None:
                ctx.ob("C05.rhs", tag, False, f"update raises {R.exc!r}", mloc)
                continue
            analyse(ctx, R, tag, mloc)
            w = driver.callback_array_writes(R)
            ctx.ob("C05.rhs-pure", f"{tag}:arrays returned by the user's callables are left as they are", not w,
                   f"in-place writes into them: {w[:4]} (a callable that hands out one stored array then sees its history rescaled by the strain-rate scale of "
                   "the first evaluation, so the result depends on the rate)", mloc)
    rhs_pure(ctx)
    ctx.floor("C05.rhs", 12)
    ctx.floor("C05.guards", 4)
    ctx.floor("C05.args", 4)


def analyse(ctx, R, tag, loc):
    t, y, res = R.rhs_calls[0]
    base = {}
    for _t, _y, res_k in R.rhs_calls:
        for c in list(res_k.flat) if isinstance(res_k, np.ndarray) else []:
            for a in alg.atoms_of(alg.unfold_all(lift(c)), deep=True):
                if a.kind == "fn:L":
                    base[a] = 1
    for kw in [R.deriv_calls[0][1]]:
        bad = []
        for k, v in kw.items():
            vals = list(v.flat) if isinstance(v, np.ndarray) else ([v] if isinstance(v, E) else [])
            for c in vals:
                for a in alg.atoms_of(alg.unfold_all(lift(c)), deep=True):
                    if a.kind == "fn:L":
                        base[a] = 1
            if k == "deformation_gradient_spin":
                continue  # only used by the diffusion regime (outside C05's quantifier); reported as observation
            for c in vals:
                d = driver.degree(alg.unfold_all(lift(c)), base)
                if d != 0:
                    bad.append((k, d, short(c, 80)))
        ctx.ob("C05.args", tag, not bad, f"arguments with non-zero/undefined degree in L: {bad[:3]}", loc)
        spin = kw.get("deformation_gradient_spin")
        if isinstance(spin, np.ndarray):
            ds = {driver.degree(alg.unfold_all(lift(c)), base) for c in spin.flat}
            if ds != {Fr(0)}:
                ctx.observe(f"deformation_gradient_spin passed to derivatives has degree {sorted(map(str, ds))} in L (used only by matrix_diffusion)")
    N = R.N
    blocks = {"dF": res[:9], "dA": res[9:9 + 9 * N], "df": res[9 + 9 * N:]}
    # outputs of the uninterpreted derivatives call are degree-0 symbols
    for name, blk in blocks.items():
        degs = {driver.degree(alg.unfold_all(lift(c)), base) for c in blk}
        ctx.ob("C05.rhs", f"{tag}:{name}", degs == {Fr(1)}, f"degrees of the {name} block in L: {sorted(map(str, degs))}", loc)
    # guards met while interpreting eval_rhs
    from ..values import Guard
    seen = set()

    def cmp_leaves(g, acc):
        if isinstance(g, Guard):
            if g.kind == "cmp":
                acc.append(g)
            else:
                for a in g.args:
                    cmp_leaves(a, acc)
        elif isinstance(g, (tuple, list)):
            for a in g:
                cmp_leaves(a, acc)
    n_g = 0
    for g, outcome, gloc, fn in list(R.I.guards) + list(R.I.branches):
        if not fn.endswith("eval_rhs"):
            continue
        leaves = []
        cmp_leaves(g, leaves)
        for lf in leaves:
            op, a, b = lf.args[0], lf.args[1], lf.args[2]
            if op == "between":
                lo, hi = b
                sides = [(a, lo), (a, hi)]
            else:
                sides = [(a, b)]
            for x, y in sides:
                if not isinstance(x, E) or not isinstance(y, E):
                    continue
                k = (gloc, x.key(), y.key())
                if k in seen:
                    continue
                seen.add(k)
                n_g += 1
                dx, dy = driver.degree(alg.unfold_all(x), base), driver.degree(alg.unfold_all(y), base)
                ok = (y.is_zero() or x.is_zero()) or (dx is not None and dx == dy)
                ctx.ob("C05.guards", f"{tag}:eval_rhs:{op}@{gloc.split(':')[-1]}", ok,
                       f"branch condition compares a quantity of degree {dx} in the velocity gradient with one of degree {dy} "
                       f"({short(x, 60)} {op} {short(y, 40)}): an absolute threshold makes the texture depend on the strain rate", gloc,
                       key=("C05.guards", tag, gloc, op))
    s = R.solver
    kw = s.attrs["kwargs"]
    (ta,) = alg.atoms_of(R.t0)
    (tb,) = alg.atoms_of(R.t1)
    tbase = {ta: 1, tb: 1}
    fs = kw.get("first_step")
    d_t = driver.degree(lift(fs), tbase) if fs is not None else None
    d_l = driver.degree(lift(fs), base) if fs is not None else None
    ctx.ob("C05.knobs", f"{tag}:first_step", fs is not None and d_t == 1 and d_l == 0 and not (lift(fs).is_const()),
           f"first_step = {short(fs)} (degree {d_t} in time, {d_l} in rate)", loc)
    rt = kw.get("rtol")
    ctx.ob("C05.knobs", f"{tag}:rtol", rt is None or lift(rt).is_const(), f"rtol = {short(rt)}", loc)
    at = kw.get("atol")
    cells = list(at.flat) if isinstance(at, np.ndarray) else ([at] if at is not None else [])
    dep = set()
    for c in cells:
        dep |= alg.atoms_of(lift(c), deep=True)
    ctx.ob("C05.knobs", f"{tag}:atol", not (dep & ({ta, tb} | set(base))), f"atol depends on {sorted(map(repr, dep & ({ta, tb} | set(base))))[:4]}", loc)
    for extra in ("max_step", "min_step"):
        if extra in kw and kw[extra] is not None:
            d = driver.degree(lift(kw[extra]), tbase)
            ctx.ob("C05.knobs", f"{tag}:{extra}", d == 1 or str(kw[extra]) == "inf", f"{extra} = {short(kw[extra])}", loc)


def rhs_pure(ctx):
    """The right-hand side handed to the solver is a function of (t, y): the only state it may write outside its own frame is the regime
    reported by the optional callback.  A value cached between evaluations is reused at another time or strain rate."""
    import ast
    from .. import flow
    ctx.rule("C05.rhs-pure", "eval_rhs writes no state that survives the call (closure cells, containers of the enclosing scope, attributes), except self.regime")
    mod = ctx.program.module("pydrex.minerals")
    upd = ctx.program.require_method("pydrex.minerals.Mineral", "update_orientations")
    fns = [n for n in ast.walk(upd) if isinstance(n, ast.FunctionDef) and n.name == "eval_rhs"]
    if len(fns) != 1:
        ctx.ob("C05.rhs-pure", "eval_rhs", "inconclusive", f"{len(fns)} nested functions named eval_rhs in update_orientations", ctx.program.loc(mod, upd))
        return
    fn = fns[0]
    eff = flow.effects_of_function(ctx.program, mod, fn)
    muts = ("append", "extend", "insert", "pop", "remove", "clear", "update", "setdefault", "add", "discard", "popitem", "sort", "reverse")
    locs, _ = flow.local_names(fn)
    for n in flow.walk_shallow(fn):
        if isinstance(n, ast.Call) and isinstance(n.func, ast.Attribute) and n.func.attr in muts:
            r = flow._root_name(n.func.value)
            if r is not None and r not in locs and r not in ("np", "_log", "kwargs"):
                eff.append(("mutating-call-free", ast.unparse(n.func), n.lineno))
    bad = [e for e in eff if not (e[0] == "attr-store-free" and e[1] == "self.regime")]
    ctx.ob("C05.rhs-pure", "eval_rhs", not bad, "; ".join(f"{k} {nm} (line {ln})" for k, nm, ln in bad[:4]) +
           ": state carried from one evaluation of the right-hand side to the next", f"{ctx.program.relpath(mod.path)}:{bad[0][2] if bad else fn.lineno}")
