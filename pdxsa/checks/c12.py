"""C12 — elastic symmetry decomposition: moduli, isotropic vector, percent anisotropy, class vectors and frame selection."""

from __future__ import annotations

import numpy as np

from .. import alg
from ..alg import E, lift, ZERO, ONE, Sqrt
from ..interp import Interp, RaiseSig
from ..values import symarr, mkarr, Guard, UNINIT
from .common import public, defloc, short, ident, ident_arr, sym_matrix, call_public, Abort

LEVEL = "other"


def norm(v):
    return Sqrt(sum((lift(c) * lift(c) for c in v.flat), ZERO))


def sel(c, a, b):
    a, b = lift(a), lift(b)
    return a if a == b else alg.Fn("select", c.astuple(), a, b)


def run(ctx):
    ctx.explanation = (
        "diagnostics.elasticity_components is interpreted on a generic symmetric 6x6 matrix.  The eigenvector pairing that builds the "
        "symmetry Cartesian coordinate system is data-dependent numerics: it is havoc'ed into nine unconstrained symbols (any frame), and "
        "everything downstream is decided for EVERY such frame: K and G equal the Voigt isotropic invariants as linear forms; the isotropic "
        "vector has the documented pattern and is fixed by all four projectors; percent anisotropy = 100·|v - iso|/|v|; the candidate frames "
        "are the three cyclic column permutations; the tensor is rotated by the transpose of the candidate; class vectors are the telescoping "
        "differences v - P_mono v, P_mono v - P_ortho v, ..., P_hex v - iso of the ROTATED vector; the candidate minimising the distance to "
        "its hexagonal projection is selected (first wins ties), percentages and axis are written for the selected candidate only and the axis "
        "is its last column.  Components (rotate, Voigt maps, projectors) are those verified by C11.  Not decided: frame-independence of "
        "the percentages and co-rotation of the axis (depends on eigenvector pairing), the [0,100] bound.")
    ctx.trusted += ["C11 (tensor maps and projectors) for the components reused in the reference", "havoc of the eigenvector-pairing block (sound over-approximation)"]
    ctx.rule("C12.moduli", "bulk and shear modulus equal the Voigt isotropic invariants of the matrix")
    ctx.rule("C12.iso", "isotropic vector pattern; fixed by mono/ortho/tetr/hex projectors")
    ctx.rule("C12.anisotropy", "percent_anisotropy == 100·norm(v - iso)/norm(v)")
    ctx.rule("C12.selection", "per output: nested selection over the three cyclic frame permutations by strictly decreasing distance to the hexagonal projection, with telescoping class vectors of the rotated vector; axis = last column of the selected frame")
    dotted = "pydrex.diagnostics.elasticity_components"
    loc = defloc(ctx, dotted)
    eigen_pairing(ctx)
    I = Interp(ctx.program)
    M = sym_matrix("M", 6)
    try:
        out = call_public(ctx, I, dotted, M.copy().reshape(1, 6, 6))
    except Abort:
        return
    except Exception as ex:
        from ..values import Unsupported
        from ..interp import RaiseSig
        if isinstance(ex, RaiseSig):
            raise
        ctx.ob("C12.moduli", "elasticity_components", "inconclusive",
               f"elasticity_components is outside the interpreted subset ({type(ex).__name__}: {str(ex)[:100]}); only the index-space rule was decided", loc)
        return
    if not isinstance(out, dict):
        ctx.ob("C12.moduli", "result", "inconclusive", f"result is {out!r}", loc)
        return
    T = "pydrex.tensors."
    K = sum((M[i, j] for i in range(3) for j in range(3)), ZERO) / 9
    trdev = M[0, 0] + M[1, 1] + M[2, 2] + 2 * (M[3, 3] + M[4, 4] + M[5, 5])
    G = (trdev - 3 * K) / 10
    ident(ctx, "C12.moduli", "bulk_modulus", out["bulk_modulus"][0], K, loc)
    ident(ctx, "C12.moduli", "shear_modulus", out["shear_modulus"][0], G, loc)
    s2 = Sqrt(alg.const(2))
    iso = mkarr([K + 4 * G / 3] * 3 + [s2 * (K - 2 * G / 3)] * 3 + [2 * G] * 3 + [ZERO] * 12)
    for nm in ("mono_project", "ortho_project", "tetr_project", "hex_project"):
        ident_arr(ctx, "C12.iso", f"{nm}(iso) == iso", call_public(ctx, I, T + nm, iso.copy()), iso, defloc(ctx, T + nm))
    def comp(name, *a):
        # components are cut into let atoms exactly as they are when called from inside the analysed function
        return I.cut(call_public(ctx, I, T + name, *a))
    v = comp("voigt_matrix_to_vector", M.copy())
    nv = norm(v)
    ident(ctx, "C12.anisotropy", "percent_anisotropy", out["percent_anisotropy"][0], norm(v - iso) / nv * 100, loc)
    # frame: the havoc'ed SCCS columns
    # from here on use the (just verified) moduli in the form the code computed them, so that let atoms coincide
    Kc, Gc = lift(out["bulk_modulus"][0]), lift(out["shear_modulus"][0])
    iso = mkarr([Kc + 4 * Gc / 3] * 3 + [s2 * (Kc - 2 * Gc / 3)] * 3 + [2 * Gc] * 3 + [ZERO] * 12)
    # the symmetry frame: read back from the selection arms of the reported axis (candidate i reports column (i+2)%3)
    def peel(v):
        arms = []
        v = lift(v)
        while v.is_monomial():
            ((m_, c_),) = v.t.items()
            if c_ != 1 or len(m_) != 1 or m_[0][1] != 1 or m_[0][0].kind != "fn:select":
                break
            cond, a_, b_ = m_[0][0].args
            arms.append(a_)
            v = lift(b_)
        return arms, v
    cols = {}
    okframe = True
    for r in range(3):
        arms, rest = peel(out["hexagonal_axis"][0, r])
        if len(arms) != 3:
            okframe = False
            break
        for i_, a_ in enumerate(reversed(arms)):   # innermost arm belongs to candidate 0
            cols.setdefault((i_ + 2) % 3, {})[r] = a_
    if not okframe or sorted(cols) != [0, 1, 2]:
        ctx.ob("C12.selection", "frame", "inconclusive", "the reported axis is not a three-way selection over candidate frames (the search changed shape)", loc)
        return
    H = np.empty((3, 3), dtype=object)
    for j_ in range(3):
        for r in range(3):
            H[r, j_] = cols[j_][r]
    ctx.rule("C12.unit-axis", "every candidate symmetry axis (column of the symmetry frame) is normalised: sum_r H[r,j]^2 == 1 by construction")
    for j_ in range(3):
        ident(ctx, "C12.unit-axis", f"frame column {j_}", sum((lift(H[r, j_]) * lift(H[r, j_]) for r in range(3)), ZERO), ONE, loc)
    ctx.count("havoc_symbols", sum(int(np.size(h[1])) for h in I.havocs))
    frame_construction(ctx, I, M, H, comp, loc)
    Tn = comp("voigt_to_elastic_tensor", M.copy())
    un = alg.sym("<uninit>")
    keys = ["percent_triclinic", "percent_monoclinic", "percent_orthorhombic", "percent_tetragonal", "percent_hexagonal"]
    cur = {k: un for k in keys}
    axis = [un, un, un]
    dist = nv
    percent = 100 / nv
    for i in range(3):
        cols = [(i + j) % 3 for j in range(3)]
        P = H[:, cols]
        rot = comp("rotate", Tn.copy(), P.T.copy())
        rv = comp("voigt_matrix_to_vector", comp("elastic_tensor_to_voigt", rot))
        mono = comp("mono_project", rv.copy())
        ortho = comp("ortho_project", mono.copy())
        tetr = comp("tetr_project", ortho.copy())
        hexv = comp("hex_project", tetr.copy())
        vals = {"percent_triclinic": norm(rv - mono) * percent, "percent_monoclinic": norm(mono - ortho) * percent,
                "percent_orthorhombic": norm(ortho - tetr) * percent, "percent_tetragonal": norm(tetr - hexv) * percent,
                "percent_hexagonal": norm(hexv - iso) * percent}
        delta = norm(rv - hexv)
        c = Guard("cmp", "Lt", delta, dist)
        dist = sel(c, delta, dist)
        for k in keys:
            cur[k] = sel(c, vals[k], cur[k])
        axis = [sel(c, P[r, 2], axis[r]) for r in range(3)]
    for k in keys:
        ident(ctx, "C12.selection", k, out[k][0], cur[k], loc)
    for r in range(3):
        ident(ctx, "C12.selection", f"hexagonal_axis[{r}]", out["hexagonal_axis"][0, r], axis[r], loc)
    ctx.floor("C12.selection", 8)
    ctx.floor("C12.moduli", 2)
    ctx.sample({"bulk_modulus": short(alg.unfold_all(lift(out["bulk_modulus"][0])), 200)})


def eigen_pairing(ctx):
    """Index-space inference over elasticity_components (pdxsa/indexspace.py): the eigenvectors of the two contractions live in two different
    index spaces (rank of the eigenvalue within its own decomposition); an integer ranging over one of them that indexes the other pairs the
    eigenvectors by rank.  The two contractions of an orthorhombic tensor share their eigenvectors but not the order of their eigenvalues, so
    such a pairing breaks the decomposition for every tensor whose contractions rank the symmetry axes differently."""
    from .. import indexspace, flow
    dotted = "pydrex.diagnostics.elasticity_components"
    fn = ctx.program.require(dotted)
    mod = ctx.program.module("pydrex.diagnostics")
    loc = defloc(ctx, dotted)
    ctx.rule("C12.pairing", "index-space inference: no integer that ranges over (or was selected within) the eigen-decomposition of one contraction indexes the "
                            "eigenvectors of the other one; the pairing of the two eigenvector sets goes through a data-dependent search along the right axis")

    def resolve(e):
        d = flow.dotted(e)
        if not d:
            return None
        parts = d.split(".")
        imp = mod.imports.get(parts[0])
        if imp and imp[0] == "module":
            return ".".join([imp[1]] + parts[1:])
        if imp and imp[0] == "from":
            return ".".join([imp[1], imp[2]] + parts[1:])
        return d
    inf = indexspace.Inference(fn, resolve)
    conflicts = inf.run()
    sites = sorted(set(inf.eig_sites))
    if len(sites) < 2:
        ctx.observe(f"elasticity_components contains {len(sites)} eigen-decomposition call(s) that the index-space inference recognises; C12.pairing has nothing to decide")
        ctx.ob("C12.pairing", "eigen-decompositions of the two contractions", True, f"{len(sites)} recognised", loc)
        return
    ctx.ob("C12.pairing", "eigen-decompositions of the two contractions", True, f"index spaces: {['line %d: eigh(%s)' % s_ for s_ in sites]}", loc)
    if not conflicts:
        ctx.ob("C12.pairing", "no index crosses from one decomposition to the other", True, "", loc)
    for line, why, a, b in conflicts:
        names = {f"eig@{ln}": f"eigh({org}) (line {ln})" for ln, org in sites}
        ctx.ob("C12.pairing", f"line {line}: {why}", False,
               f"{why}: an index of {names.get(a, a)} meets an index of {names.get(b, b)} — eigenvectors of the two contractions are paired by eigenvalue rank, "
               "not by nearest axis", f"{ctx.program.relpath(mod.path)}:{line}")


def frame_construction(ctx, I, M, H, comp, loc):
    """The symmetry frame before permutation: column i is the normalised mean of the i-th eigenvector of the dilatational contraction
    d_ij = C_ijkk and the (sign-matched) eigenvector of the deviatoric contraction v_ij = C_ikjk that is nearest to it."""
    from ..values import Opaque
    ctx.rule("C12.frame", "frame column i == normalise((e_i(d) + s·e_j*(v))/2), with d = C_ijkk and v = C_ikjk the two contractions, j* the v-eigenvector at the smallest "
                          "bidirectional angle to e_i(d) (first wins ties), s the sign of their dot product; the column looked up is the one the search selected")
    hv = [h for h in I.havocs if len(h) > 4 and h[2].startswith("src/pydrex/diagnostics.py")]
    if len(hv) != 3:
        ctx.ob("C12.frame", "three data-dependent eigenvector look-ups", False if len(hv) == 0 else "inconclusive",
               "no eigenvector of the deviatoric contraction is looked up depending on the data: the two eigenvector sets are paired by a fixed index, but the two "
               "contractions order the symmetry axes differently in general (the pairing must be by nearest axis)" if len(hv) == 0 else
               f"{len(hv)} data-dependent look-up(s) into the eigenvector matrices: the construction of the symmetry frame is not in the form this rule can follow "
               "(one look-up per frame column, selected by a search over the three candidate axes)", loc)
        return
    # published contractions (Browaeys & Chevrot 2004, eq. 3.4/3.5) in Voigt components
    C = M
    dref = [[C[0, 0] + C[0, 1] + C[0, 2], C[0, 5] + C[1, 5] + C[2, 5], C[0, 4] + C[1, 4] + C[2, 4]],
            [None, C[0, 1] + C[1, 1] + C[1, 2], C[0, 3] + C[1, 3] + C[2, 3]],
            [None, None, C[0, 2] + C[1, 2] + C[2, 2]]]
    vref = [[C[0, 0] + C[5, 5] + C[4, 4], C[0, 5] + C[1, 5] + C[3, 4], C[0, 4] + C[2, 4] + C[3, 5]],
            [None, C[5, 5] + C[1, 1] + C[3, 3], C[1, 3] + C[2, 3] + C[4, 5]],
            [None, None, C[4, 4] + C[3, 3] + C[2, 2]]]

    def tri_of(mat):
        a = lift(mat[0, 0])
        if not a.is_monomial():
            return None
        ((m_, c_),) = a.t.items()
        if c_ != 1 or len(m_) != 1 or m_[0][0].kind != "fn:eigh.vec":
            return None
        return m_[0][0].args[0]

    def check_tri(name, tri, ref):
        if tri is None or len(tri) != 6:
            ctx.ob("C12.frame", f"{name} is an eigenvector matrix of a symmetric 3x3 contraction", False, f"{tri!r}"[:120], loc)
            return
        want = [ref[j][i] for i in range(3) for j in range(i + 1)]   # lower triangle, row-major: (i, j<=i) == upper (j, i)
        for k_, (g, w) in enumerate(zip(tri, want)):
            ident(ctx, "C12.frame", f"{name}: contraction entry {k_}", alg.unfold_all(lift(g)), lift(w), loc)
    V = hv[0][3]
    check_tri("v_ij (deviatoric) eigenvectors looked up", tri_of(V), vref)
    dil, dev = comp("voigt_decompose", comp("upper_tri_to_symmetric", M.copy()))
    D = I.np.np_eigh(dil)[1]
    check_tri("d_ij (dilatational) eigenvectors", tri_of(D), dref)
    for i in range(3):
        k_, hsyms, hloc, base, idx = hv[i]
        src = idx[1].src if isinstance(idx, tuple) and len(idx) == 2 and isinstance(idx[1], Opaque) and idx[0] == slice(None) else None
        if src is None or not all(a is b or lift(a) == lift(b) for a, b in zip(base.flat, V.flat)):
            ctx.ob("C12.frame", f"column {i}: look-up shape", "inconclusive", "the data-dependent look-up is not recognisably a column of the v_ij eigenvector matrix", hloc)
            continue
        di = D[:, i]

        def nearest(op):
            angle = lift(10)
            index = ZERO
            for j in range(3):
                vj = V[:, j]
                dot = sum((lift(a) * lift(b) for a, b in zip(di, vj)), ZERO)
                ang = lift(I.cut(call_public(ctx, I, "pydrex.diagnostics.smallest_angle", di.copy(), vj.copy())))
                g = Guard("cmp", op, ang, angle)
                signed = sel(Guard("cmp", "NotEq", dot, ZERO), dot * alg.Abs(dot).inv() * j, lift(j))
                index = sel(g, signed, index)
                angle = sel(g, ang, angle)
            return index
        index = nearest("Lt")
        if lift(src) != alg.Abs(index):
            # exact ties between two angles lie outside the property's quantifier (separated eigenvalues): either tie-break is accepted
            alt = nearest("LtE")
            if lift(src) == alg.Abs(alt):
                index = alt
        ident(ctx, "C12.frame", f"column {i}: index of the eigenvector looked up", lift(src), alg.Abs(index), hloc)
        raw = [(lift(di[r]) + index * lift(hsyms[r])) / 2 for r in range(3)]
        nrm = Sqrt(sum((x * x for x in raw), ZERO))
        for r in range(3):
            ident(ctx, "C12.frame", f"column {i}, row {r}", H[r, i], raw[r] / nrm, loc)
    ctx.floor("C12.frame", 20)
