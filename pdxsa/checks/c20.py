"""C20 — coordinate conversions, poles, Lambert projection, point-density pipeline."""

from __future__ import annotations

import ast
import itertools

import numpy as np

from .. import alg
from ..alg import E, lift, ZERO, ONE, Sin, Cos, Sqrt, Arccos, Arctan2, Abs
from ..interp import Interp, RaiseSig
from ..values import symarr, mkarr, Opaque, FuncVal, Guard
from .common import ident, ident_arr, public, defloc, call_public, short, Abort
from .. import flow

LEVEL = "other"


def run(ctx):
    ctx.explanation = (
        "ALG: to_cartesian/to_spherical formulas and the exact round-trip identity; poles = normalised "
        "sum_k A[k,i]·hkl[k] with components permuted per reference-axes string (6 strings); Lambert projection: "
        "masked cells map to 0, elsewhere X^2+Y^2 == 1-|z| and (X,Y) is a non-negative multiple of (x,y). FLOW/TAB on "
        "point_density: kernel name validated before use, every table kernel accepts (cos_dist, axial=), axial data only "
        "through |data·counter|, normalisation to the grid mean precedes clipping, counters come from to_cartesian and are "
        "projected with lambert_equal_area. Not decided: numerical range of densities, kernel mathematics, pole behaviour beyond the mask.")
    ctx.trusted += ["Python/NumPy semantics incl. numpy.ma mask propagation as modelled in pdxsa/npmodel.py",
                    "trigonometric rewrites sin(arccos u)=sqrt(1-u^2), cos(arctan2(y,x))=x/sqrt(x^2+y^2)"]
    I = Interp(ctx.program)
    G = "pydrex.geometry."
    conversions(ctx, I, G)
    poles(ctx, I, G)
    lambert(ctx, I, G)
    array_calls(ctx, I, G)
    density(ctx, I)


def conversions(ctx, I, G):
    ctx.rule("C20.to_cartesian", "to_cartesian(phi, theta, r) == (r sin(theta) cos(phi), r sin(theta) sin(phi), r cos(theta))")
    ctx.rule("C20.to_spherical", "to_spherical(x,y,z) == (sqrt(x^2+y^2+z^2), arctan2(y,x), arccos(z/r)); colatitude depends on z")
    ctx.rule("C20.roundtrip", "to_cartesian(to_spherical(x,y,z)) == (x,y,z) as an identity")
    ph, th, r = alg.sym("phi"), alg.sym("theta"), alg.psym("r")
    loc = defloc(ctx, G + "to_cartesian")
    out = call_public(ctx, I, G + "to_cartesian", ph, th, r)
    ref = (r * Sin(th) * Cos(ph), r * Sin(th) * Sin(ph), r * Cos(th))
    for k, nm in enumerate("xyz"):
        ident(ctx, "C20.to_cartesian", f"to_cartesian:{nm}", out[k][0], ref[k], loc)
    x, y, z = alg.sym("x"), alg.sym("y"), alg.sym("z")
    loc2 = defloc(ctx, G + "to_spherical")
    sp = call_public(ctx, I, G + "to_spherical", x, y, z)
    rr = Sqrt(x * x + y * y + z * z)
    refs = (rr, Arctan2(y, x), Arccos(z / rr))
    for k, nm in enumerate(("r", "azimuth", "colatitude")):
        ident(ctx, "C20.to_spherical", f"to_spherical:{nm}", sp[k][0], refs[k], loc2)
    za = list(alg.atoms_of(z))[0]
    ctx.ob("C20.to_spherical", "to_spherical:colatitude depends on z", za in alg.atoms_of(lift(sp[2][0]), deep=True),
           f"colatitude = {short(sp[2][0])}", loc2)
    back = call_public(ctx, I, G + "to_cartesian", sp[1], sp[2], sp[0])
    for k, (nm, v) in enumerate(zip("xyz", (x, y, z))):
        ident(ctx, "C20.roundtrip", f"roundtrip:{nm}", back[k][0], v, loc2)
    ctx.floor("C20.roundtrip", 3)


def poles(ctx, I, G):
    ctx.rule("C20.poles", "poles(A, ref, hkl): direction_g = normalise(sum_k A[g,k,:]·hkl[k]); returned (x,y,z) are its components at "
                          "(ref[0], ref[1], remaining axis) for each of the six reference-axes strings")
    loc = defloc(ctx, G + "poles")
    N = 2
    A = symarr("A", (N, 3, 3))
    hkl = symarr("h", (3,))
    amap = {"x": 0, "y": 1, "z": 2}
    d = np.empty((N, 3), dtype=object)
    for g in range(N):
        for i in range(3):
            d[g, i] = sum((A[g, k, i] * hkl[k] for k in range(3)), ZERO)
        nrm = Sqrt(sum((d[g, i] * d[g, i] for i in range(3)), ZERO))
        for i in range(3):
            d[g, i] = d[g, i] / nrm
    for a, b in itertools.permutations("xyz", 2):
        ref = a + b
        up = ({"x", "y", "z"} - {a, b}).pop()
        for variant in (ref, ref.upper()):
            try:
                out = call_public(ctx, I, G + "poles", A.copy(), variant, mkarr(list(hkl)))
            except Abort:
                return
            exp = (d[:, amap[a]], d[:, amap[b]], d[:, amap[up]])
            for k, nm in enumerate(("x", "y", "z")):
                ident_arr(ctx, "C20.poles", f"poles[{variant}]:{nm}vals", out[k], exp[k], loc)
    ctx.floor("C20.poles", 36)
    # default hkl is the a-axis
    out = call_public(ctx, I, G + "poles", A.copy())
    e = A[:, 0, :]
    nr = [Sqrt(sum((e[g, i] * e[g, i] for i in range(3)), ZERO)) for g in range(N)]
    ident_arr(ctx, "C20.poles", "poles[default]:xvals == A[:,0,0]/|A[:,0,:]|", out[0], mkarr([e[g, 0] / nr[g] for g in range(N)]), loc)


def array_calls(ctx, I, G):
    """The conversion and projection functions called on ARRAYS (as poles / point_density call them): this is where the rules that every
    interpreted public function gets apply -- arguments left untouched, no element type inherited from an argument, early-exit paths, call history."""
    for name, nargs in (("to_cartesian", 3), ("to_spherical", 3), ("lambert_equal_area", 3)):
        args = [symarr(f"{name[:4]}{k}", (2,)) for k in range(nargs)]
        try:
            call_public(ctx, I, G + name, *args)
        except Abort:
            pass


def lambert(ctx, I, G, extra_args=(), extra_kwargs=None, tag="", loc=None):
    ctx.rule("C20.lambert", "lambert_equal_area: masked (|x|,|y| tiny) cells map to 0; elsewhere X = s·x, Y = s·y with the same "
                            "factor s >= 0 and s^2·(x^2+y^2) == 1 - |z|; also as it is called from point_density for axial and non-axial data")
    loc = loc or defloc(ctx, G + "lambert_equal_area")
    x, y, z = alg.sym("x"), alg.sym("y"), alg.sym("z")
    from ..interp import RaiseSig
    try:
        X, Y = I.call(public(ctx, I, G + "lambert_equal_area"), (x, y, z) + tuple(extra_args), dict(extra_kwargs or {}))
    except RaiseSig as r:
        ctx.ob("C20.lambert", tag + "call", False, f"raises {r.exc.typename}", loc)
        return
    X, Y = lift(X[0]), lift(Y[0])
    ident(ctx, "C20.lambert", tag + "azimuth preserved: X·y == Y·x", X * y, Y * x, loc)

    def factor(v, base):
        # v == s * base with s a single select atom
        sel = [a for a in alg.atoms_of(v) if a.kind == "fn:select"]
        if len(sel) != 1:
            return None
        s = E.atom(sel[0])
        if not alg.equal(v, s * base):
            return None
        return sel[0]
    sx, sy = factor(X, x), factor(Y, y)
    ok = sx is not None and sx is sy
    ctx.ob("C20.lambert", tag + "same mask-selected factor on both coordinates", ok, f"X={short(X)} Y={short(Y)}", loc)
    if ok:
        cond, masked_val, open_val = sx.args
        ident(ctx, "C20.lambert", tag + "masked cells project to the disk centre (factor 0)", masked_val, ZERO, loc)
        ident(ctx, "C20.lambert", tag + "squared radius: s^2·(x^2+y^2) == 1-|z|", open_val * open_val * (x * x + y * y), ONE - Abs(z), loc)
        pos = all(c > 0 for c in open_val.t.values()) and all(a.pos or (isinstance(e_, int) and e_ % 2 == 0)
                                                              for m in open_val.t for a, e_ in m)
        ctx.ob("C20.lambert", tag + "factor is non-negative (a square root)", pos, f"s={short(open_val)}", loc)
        ck = repr(cond)
        leaves = []

        def walk(t):
            if isinstance(t, tuple):
                if len(t) >= 5 and t[0] == "G" and t[1] == "cmp":
                    leaves.append(t[2:])
                for u in t:
                    walk(u)
        walk(cond)
        tiny = [lv for lv in leaves if lv[0] in ("Lt", "LtE") and isinstance(lv[2], E) and lv[2].is_const() and 0 < lv[2].cval() <= alg.Fr(1, 10**9)]
        ctx.ob("C20.lambert", tag + "mask tests both |x| and |y| against a tiny constant",
               any(lv[1] == Abs(x) for lv in tiny) and any(lv[1] == Abs(y) for lv in tiny), ck[:200], loc)
    ctx.floor("C20.lambert", 5)


def density(ctx, I):
    ctx.rule("C20.density", "point_density pipeline order and kernel-table agreement (see explanation)")
    dotted = "pydrex.stats.point_density"
    loc = defloc(ctx, dotted)
    mod = ctx.program.module("pydrex.stats")
    fn = ctx.program.require(dotted)
    cfg = flow.CFG(fn)
    idom = cfg.dominators()
    # kernel table: every entry is a repo function accepting cos_dist and axial
    table = I.resolve("pydrex.stats.SPHERICAL_COUNTING_KERNELS")
    ctx.ob("C20.density", "kernel table has the five documented kernels", isinstance(table, dict) and len(table) >= 5
           and {"kamb_count", "schmidt_count", "exponential_kamb", "linear_inverse_kamb", "square_inverse_kamb"} <= set(table), f"keys {sorted(table) if isinstance(table, dict) else table}", loc)
    for name, f in (table.items() if isinstance(table, dict) else []):
        okf = isinstance(f, FuncVal)
        params = [a.arg for a in f.node.args.args] if okf else []
        ctx.ob("C20.density", f"kernel {name} accepts (cos_dist, axial=)", okf and len(params) >= 1 and "axial" in params
               and all(p.arg in params or f.node.args.kwarg for p in []), f"params {params}", f"{ctx.program.relpath(mod.path)}:{f.node.lineno if okf else 0}")
        if okf:
            # returns a pair (count, scale)
            rets = [r for r in ast.walk(f.node) if isinstance(r, ast.Return)]
            ctx.ob("C20.density", f"kernel {name} returns (distribution, scale)", bool(rets) and all(isinstance(r.value, ast.Tuple) and len(r.value.elts) == 2 for r in rets), "", f"{ctx.program.relpath(mod.path)}:{f.node.lineno}")
    density_laws(ctx)
    ctx.floor("C20.density", 40)
    kernel_overflow(ctx, I)


def exp_like_arguments(e, acc, depth=0):
    """(kind, argument) of every exponential-like application inside e (deeply): e^x monomial factors, cosh, sinh."""
    e = lift(e)
    for m in e.t:
        for a, x in m:
            if a.kind == "euler":
                acc.append(("exp", lift(x)))
                if isinstance(x, E):
                    exp_like_arguments(x, acc, depth + 1)
                continue
            if not isinstance(x, int):
                exp_like_arguments(x, acc, depth + 1)
            if a.kind in ("fn:cosh", "fn:sinh"):
                acc.append((a.kind[3:], lift(a.args[0])))
            if a.kind == "let":
                exp_like_arguments(a.defn, acc, depth + 1)
            else:
                for g in a.args:
                    if isinstance(g, E):
                        exp_like_arguments(g, acc, depth + 1)
                    elif isinstance(g, tuple):
                        for gg in g:
                            if isinstance(gg, E):
                                exp_like_arguments(gg, acc, depth + 1)
    return acc


def kernel_overflow(ctx, I):
    """Finiteness of the density estimates: an exponential in a counting kernel must not be applied to an argument that grows with the size of
    the data set.  Each kernel of the table is interpreted on cosines c_i of angular distances written as c_i = 1 - u_i, u_i >= 0 (all the
    domain says about them from above) and, separately, as c_i = lo + w_i, w_i >= 0 (lo = 0 for axial data, -1 otherwise): an argument of
    exp that is a sum of non-positive terms under one of the two is <= 0, so exp of it cannot overflow.  An argument that is not, and that
    exceeds the overflow threshold of float64 (709.78) at a witness point with n/sigma^2 <= 1e4, is reported."""
    from ..interp import RaiseSig
    from ..values import Unsupported
    from .c01 import nonneg
    ctx.rule("C20.finite", "no counting kernel applies exp/cosh/sinh to an argument that can exceed the float64 overflow threshold on the domain "
                           "(cosines of angular distances in [-1, 1] or [0, 1]; any data-set size n, any smoothing sigma with n/sigma^2 <= 1e4)")
    table = I.resolve("pydrex.stats.SPHERICAL_COUNTING_KERNELS")
    M = 3
    sg = alg.psym("sigma")
    for name, f in sorted(table.items() if isinstance(table, dict) else []):
        loc = f"{ctx.program.relpath(ctx.program.module('pydrex.stats').path)}:{getattr(getattr(f, 'node', None), 'lineno', 0)}"
        for axial in (True, False):
            lo = 0 if axial else -1
            results = {}
            for par in ("from above", "from below"):
                u = [alg.psym(f"u{i}") for i in range(M)]
                c = np.array([(1 - u[i]) if par == "from above" else (lo + u[i]) for i in range(M)], dtype=object)
                kw = {"axial": axial}
                if any(a.arg in ("σ", "sigma") for a in f.node.args.args + f.node.args.kwonlyargs):
                    kw["σ"] = sg
                try:
                    out = Interp(ctx.program).call(f, (c,), kw)
                except (RaiseSig, Unsupported) as ex:
                    results[par] = ("error", str(ex)[:120])
                    continue
                acc = []
                for part in (out if isinstance(out, tuple) else (out,)):
                    for cell_ in (part.flat if isinstance(part, np.ndarray) else [part]):
                        if isinstance(cell_, (E, int, float)):
                            exp_like_arguments(alg.unfold_all(lift(cell_)), acc)
                results[par] = ("ok", acc, u)
            tag = f"{name}:axial={axial}"
            if any(r[0] == "error" for r in results.values()):
                ctx.ob("C20.finite", tag, "inconclusive", f"kernel could not be interpreted on its own: {results}", loc)
                continue
            nA, nB = len(results["from above"][1]), len(results["from below"][1])
            bad = None
            proven = 0
            for idx in range(max(nA, nB)):
                ok = False
                witness = None
                for par in ("from above", "from below"):
                    acc, u = results[par][1], results[par][2]
                    if idx >= len(acc):
                        continue
                    kind, arg = acc[idx]
                    if kind == "exp" and nonneg(-arg)[0]:
                        ok = True
                        break
                    if kind in ("cosh", "sinh") and arg.is_const():
                        ok = True
                        break
                    # witness search on the domain
                    for sv in (10.0, 1.0, 0.1, 0.02):
                        for uv in (0.0, 0.5, 1.0, 2.0):
                            if par == "from above" and uv > 1 - lo:
                                continue
                            if par == "from below" and lo + uv > 1:
                                continue
                            env = {next(iter(alg.atoms_of(sg))): sv}
                            for ui in u:
                                env[next(iter(alg.atoms_of(ui)))] = uv
                            try:
                                v = alg.evalf(arg, env, seed=1)
                            except alg.AlgError:
                                continue
                            if v == v and (v > 709.78 if kind == "exp" else abs(v) > 710.47):
                                witness = (kind, short(arg, 80), {"sigma": sv, "n/sigma^2": M / sv ** 2, "cos": (1 - uv) if par == "from above" else lo + uv}, v)
                                break
                        if witness:
                            break
                if ok:
                    proven += 1
                elif witness:
                    bad = witness
                    break
            ctx.ob("C20.finite", tag, bad is None,
                   (f"{bad[0]}({bad[1]}) reaches {bad[3]:.4g} > overflow threshold at {bad[2]}" if bad else f"{proven} of {max(nA, nB)} exponential arguments shown <= 0 on the domain; none found to overflow"), loc)
    ctx.floor("C20.finite", 10)


def density_laws(ctx):
    """point_density interpreted end to end, with the real kernels, on symbolic data: the clauses of C20 are decided on the extracted expressions."""
    from ..interp import RaiseSig
    from ..values import symarr, Unsupported
    dotted = "pydrex.stats.point_density"
    loc = defloc(ctx, dotted)
    kernels = ("kamb_count", "schmidt_count", "exponential_kamb", "linear_inverse_kamb", "square_inverse_kamb")
    M = 2
    g = 4 if ctx.tier == "quick" else 5
    G = g * g
    x, y, z = symarr("dx", (M,)), symarr("dy", (M,)), symarr("dz", (M,))
    w, sg = alg.psym("w"), alg.psym("sigma")

    def run(I, kernel, axial, xs, ys, zs, weights=w):
        kw = {"gridsteps": g, "weights": weights, "axial": axial, "kernel": kernel}
        if kernel != "schmidt_count":
            kw["σ"] = sg
        return I.call(I.resolve(dotted), (xs, ys, zs), kw)

    def peel(cell_):
        """cell == max(n, 0) written as select(n < 0, 0, n), select(n <= 0, 0, n), maximum(n, 0) or clip(n, 0, None): returns n, or None"""
        v = lift(cell_)
        if v.is_monomial():
            ((m_, c_),) = v.t.items()
            if not (c_ == 1 and len(m_) == 1 and m_[0][1] == 1):
                return None
            at = m_[0][0]
            if at.kind == "fn:select":
                cond, a_, b_ = at.args
                a_, b_ = lift(a_), lift(b_)
                if a_ == ZERO and isinstance(cond, tuple) and len(cond) >= 5 and cond[1] == "cmp" and cond[2] in ("Lt", "LtE") and lift(cond[3]) == b_ and lift(cond[4]) == ZERO:
                    return b_
                if b_ == ZERO and isinstance(cond, tuple) and len(cond) >= 5 and cond[1] == "cmp" and cond[2] in ("Gt", "GtE") and lift(cond[3]) == a_ and lift(cond[4]) == ZERO:
                    return a_
            if at.kind == "fn:max" and isinstance(at.args[0], tuple) and len(at.args[0]) == 2:
                p_, q_ = (lift(t_) for t_ in at.args[0])
                if q_ == ZERO:
                    return p_
                if p_ == ZERO:
                    return q_
            if at.kind == "fn:clip" and len(at.args) == 3 and lift(at.args[1]) == ZERO and at.args[2] == "none":
                return lift(at.args[0])
        return None
    I0 = Interp(ctx.program)
    try:
        run(I0, "no_such_kernel", True, x.copy(), y.copy(), z.copy())
        ctx.ob("C20.density", "unknown kernel name raises ValueError", False, "accepted", loc)
    except RaiseSig as r:
        ctx.ob("C20.density", "unknown kernel name raises ValueError", r.exc.typename == "ValueError", f"raises {r.exc.typename}", loc)
    for kernel in kernels:
        for axial in (True, False):
            tag = f"{kernel}:axial={axial}"
            I = Interp(ctx.program)
            try:
                out = run(I, kernel, axial, x.copy(), y.copy(), z.copy())
            except RaiseSig as r:
                ctx.ob("C20.density", tag, False, f"raises {r.exc.typename} on generic data", loc)
                continue
            except Unsupported as ex:
                ctx.ob("C20.density", tag, "inconclusive", f"outside the interpreted subset: {ex}", loc)
                continue
            ok_shape = isinstance(out, tuple) and len(out) == 3 and all(isinstance(o, np.ndarray) and o.shape == (g, g) for o in out)
            ctx.ob("C20.density", f"{tag}: three ({g},{g}) grids", ok_shape, f"{[getattr(o, 'shape', None) for o in out] if isinstance(out, tuple) else out!r}", loc)
            if not ok_shape:
                continue
            X, Y, D = out
            # grid points lie in the closed unit disk (the grid is a constant of gridsteps: evaluate it)
            try:
                r2 = [alg.evalnum(lift(a) * lift(a) + lift(b) * lift(b)) for a, b in zip(X.flat, Y.flat)]
                ctx.ob("C20.density", f"{tag}: grid points inside the closed unit disk", all(v == v and v <= 1 + 1e-12 for v in r2),
                       f"squared radii of the {G} grid points: {['%.3g' % v for v in r2]}", loc)
            except alg.AlgError as ex:
                ctx.ob("C20.density", f"{tag}: grid points inside the closed unit disk", "inconclusive", f"the grid is not a closed expression of gridsteps: {ex}", loc)
            # non-negative by construction: every cell is max(n, 0) with n the normalised estimate
            ns = [peel(c_) for c_ in D.flat]
            ctx.ob("C20.density", f"{tag}: every estimate is max(n, 0) of the normalised value n", all(n is not None for n in ns),
                   f"cell 0: {short(D.flat[0], 120)}", loc)
            if all(n is not None for n in ns):
                ident(ctx, "C20.density", f"{tag}: grid mean of the normalised values is 1 before clipping", sum(ns, ZERO), lift(G), loc)
            # order independence
            def variant(name, xs, ys, zs):
                try:
                    o = run(Interp(ctx.program), kernel, axial, xs, ys, zs)
                    ident_arr(ctx, "C20.density", f"{tag}: {name}", o[2], D, loc)
                except RaiseSig as r:
                    ctx.ob("C20.density", f"{tag}: {name}", False, f"raises {r.exc.typename}", loc)
                except Unsupported as ex:
                    ctx.ob("C20.density", f"{tag}: {name}", "inconclusive", f"outside the interpreted subset: {ex}", loc)
            variant("independent of the order of the data", x[::-1].copy(), y[::-1].copy(), z[::-1].copy())
            if axial:
                xn, yn, zn = x.copy(), y.copy(), z.copy()
                xn[0], yn[0], zn[0] = -xn[0], -yn[0], -zn[0]
                variant("independent of the sign of a datum", xn, yn, zn)
    # default weights (the scalar 1) behave as any scalar weight
    try:
        out1 = run(Interp(ctx.program), "linear_inverse_kamb", True, x.copy(), y.copy(), z.copy(), weights=1)
        ns = [peel(c_) for c_ in out1[2].flat]
        ctx.ob("C20.density", "default weight: estimates are max(n, 0)", all(n is not None for n in ns), "", loc)
    except RaiseSig as r:
        ctx.ob("C20.density", "default weight", False, f"raises {r.exc.typename}", loc)
    except Unsupported as ex:
        ctx.ob("C20.density", "default weight", "inconclusive", f"outside the interpreted subset: {ex}", loc)


def flow_raises(body, name):
    for s in body:
        for n in ast.walk(s):
            if isinstance(n, ast.Raise) and n.exc is not None:
                d = flow.dotted(n.exc.func if isinstance(n.exc, ast.Call) else n.exc) or ""
                if d.split(".")[-1] == name:
                    return True
    return False
