"""C20 — coordinate conversions, poles, Lambert projection, point-density pipeline."""

from __future__ import annotations

import ast
import itertools

import numpy as np

from .. import alg
from ..alg import E, lift, ZERO, ONE, Sin, Cos, Sqrt, Arccos, Arctan2, Abs
from ..interp import Interp, RaiseSig
from ..values import symarr, mkarr, Opaque, FuncVal, Guard
from .common import ident, ident_arr, public, defloc, call_public, short, Abort
from .. import flow

LEVEL = "other"


def run(ctx):
    ctx.explanation = (
        "ALG: to_cartesian/to_spherical formulas and the exact round-trip identity; poles = normalised "
        "sum_k A[k,i]·hkl[k] with components permuted per reference-axes string (6 strings); Lambert projection: "
        "masked cells map to 0, elsewhere X^2+Y^2 == 1-|z| and (X,Y) is a non-negative multiple of (x,y). FLOW/TAB on "
        "point_density: kernel name validated before use, every table kernel accepts (cos_dist, axial=), axial data only "
        "through |data·counter|, normalisation to the grid mean precedes clipping, counters come from to_cartesian and are "
        "projected with lambert_equal_area. Not decided: numerical range of densities, kernel mathematics, pole behaviour beyond the mask.")
    ctx.trusted += ["Python/NumPy semantics incl. numpy.ma mask propagation as modelled in pdxsa/npmodel.py",
                    "trigonometric rewrites sin(arccos u)=sqrt(1-u^2), cos(arctan2(y,x))=x/sqrt(x^2+y^2)"]
    I = Interp(ctx.program)
    G = "pydrex.geometry."
    conversions(ctx, I, G)
    poles(ctx, I, G)
    lambert(ctx, I, G)
    density(ctx, I)


def conversions(ctx, I, G):
    ctx.rule("C20.to_cartesian", "to_cartesian(phi, theta, r) == (r sin(theta) cos(phi), r sin(theta) sin(phi), r cos(theta))")
    ctx.rule("C20.to_spherical", "to_spherical(x,y,z) == (sqrt(x^2+y^2+z^2), arctan2(y,x), arccos(z/r)); colatitude depends on z")
    ctx.rule("C20.roundtrip", "to_cartesian(to_spherical(x,y,z)) == (x,y,z) as an identity")
    ph, th, r = alg.sym("phi"), alg.sym("theta"), alg.psym("r")
    loc = defloc(ctx, G + "to_cartesian")
    out = call_public(ctx, I, G + "to_cartesian", ph, th, r)
    ref = (r * Sin(th) * Cos(ph), r * Sin(th) * Sin(ph), r * Cos(th))
    for k, nm in enumerate("xyz"):
        ident(ctx, "C20.to_cartesian", f"to_cartesian:{nm}", out[k][0], ref[k], loc)
    x, y, z = alg.sym("x"), alg.sym("y"), alg.sym("z")
    loc2 = defloc(ctx, G + "to_spherical")
    sp = call_public(ctx, I, G + "to_spherical", x, y, z)
    rr = Sqrt(x * x + y * y + z * z)
    refs = (rr, Arctan2(y, x), Arccos(z / rr))
    for k, nm in enumerate(("r", "azimuth", "colatitude")):
        ident(ctx, "C20.to_spherical", f"to_spherical:{nm}", sp[k][0], refs[k], loc2)
    za = list(alg.atoms_of(z))[0]
    ctx.ob("C20.to_spherical", "to_spherical:colatitude depends on z", za in alg.atoms_of(lift(sp[2][0]), deep=True),
           f"colatitude = {short(sp[2][0])}", loc2)
    back = call_public(ctx, I, G + "to_cartesian", sp[1], sp[2], sp[0])
    for k, (nm, v) in enumerate(zip("xyz", (x, y, z))):
        ident(ctx, "C20.roundtrip", f"roundtrip:{nm}", back[k][0], v, loc2)
    ctx.floor("C20.roundtrip", 3)


def poles(ctx, I, G):
    ctx.rule("C20.poles", "poles(A, ref, hkl): direction_g = normalise(sum_k A[g,k,:]·hkl[k]); returned (x,y,z) are its components at "
                          "(ref[0], ref[1], remaining axis) for each of the six reference-axes strings")
    loc = defloc(ctx, G + "poles")
    N = 2
    A = symarr("A", (N, 3, 3))
    hkl = symarr("h", (3,))
    amap = {"x": 0, "y": 1, "z": 2}
    d = np.empty((N, 3), dtype=object)
    for g in range(N):
        for i in range(3):
            d[g, i] = sum((A[g, k, i] * hkl[k] for k in range(3)), ZERO)
        nrm = Sqrt(sum((d[g, i] * d[g, i] for i in range(3)), ZERO))
        for i in range(3):
            d[g, i] = d[g, i] / nrm
    for a, b in itertools.permutations("xyz", 2):
        ref = a + b
        up = ({"x", "y", "z"} - {a, b}).pop()
        for variant in (ref, ref.upper()):
            try:
                out = call_public(ctx, I, G + "poles", A.copy(), variant, mkarr(list(hkl)))
            except Abort:
                return
            exp = (d[:, amap[a]], d[:, amap[b]], d[:, amap[up]])
            for k, nm in enumerate(("x", "y", "z")):
                ident_arr(ctx, "C20.poles", f"poles[{variant}]:{nm}vals", out[k], exp[k], loc)
    ctx.floor("C20.poles", 36)
    # default hkl is the a-axis
    out = call_public(ctx, I, G + "poles", A.copy())
    e = A[:, 0, :]
    nr = [Sqrt(sum((e[g, i] * e[g, i] for i in range(3)), ZERO)) for g in range(N)]
    ident_arr(ctx, "C20.poles", "poles[default]:xvals == A[:,0,0]/|A[:,0,:]|", out[0], mkarr([e[g, 0] / nr[g] for g in range(N)]), loc)


def lambert(ctx, I, G, extra_args=(), extra_kwargs=None, tag="", loc=None):
    ctx.rule("C20.lambert", "lambert_equal_area: masked (|x|,|y| tiny) cells map to 0; elsewhere X = s·x, Y = s·y with the same "
                            "factor s >= 0 and s^2·(x^2+y^2) == 1 - |z|; also as it is called from point_density for axial and non-axial data")
    loc = loc or defloc(ctx, G + "lambert_equal_area")
    x, y, z = alg.sym("x"), alg.sym("y"), alg.sym("z")
    from ..interp import RaiseSig
    try:
        X, Y = I.call(public(ctx, I, G + "lambert_equal_area"), (x, y, z) + tuple(extra_args), dict(extra_kwargs or {}))
    except RaiseSig as r:
        ctx.ob("C20.lambert", tag + "call", False, f"raises {r.exc.typename}", loc)
        return
    X, Y = lift(X[0]), lift(Y[0])
    ident(ctx, "C20.lambert", tag + "azimuth preserved: X·y == Y·x", X * y, Y * x, loc)

    def factor(v, base):
        # v == s * base with s a single select atom
        sel = [a for a in alg.atoms_of(v) if a.kind == "fn:select"]
        if len(sel) != 1:
            return None
        s = E.atom(sel[0])
        if not alg.equal(v, s * base):
            return None
        return sel[0]
    sx, sy = factor(X, x), factor(Y, y)
    ok = sx is not None and sx is sy
    ctx.ob("C20.lambert", tag + "same mask-selected factor on both coordinates", ok, f"X={short(X)} Y={short(Y)}", loc)
    if ok:
        cond, masked_val, open_val = sx.args
        ident(ctx, "C20.lambert", tag + "masked cells project to the disk centre (factor 0)", masked_val, ZERO, loc)
        ident(ctx, "C20.lambert", tag + "squared radius: s^2·(x^2+y^2) == 1-|z|", open_val * open_val * (x * x + y * y), ONE - Abs(z), loc)
        pos = all(c > 0 for c in open_val.t.values()) and all(a.pos or (isinstance(e_, int) and e_ % 2 == 0)
                                                              for m in open_val.t for a, e_ in m)
        ctx.ob("C20.lambert", tag + "factor is non-negative (a square root)", pos, f"s={short(open_val)}", loc)
        ck = repr(cond)
        leaves = []

        def walk(t):
            if isinstance(t, tuple):
                if len(t) >= 5 and t[0] == "G" and t[1] == "cmp":
                    leaves.append(t[2:])
                for u in t:
                    walk(u)
        walk(cond)
        tiny = [lv for lv in leaves if lv[0] in ("Lt", "LtE") and isinstance(lv[2], E) and lv[2].is_const() and 0 < lv[2].cval() <= alg.Fr(1, 10**9)]
        ctx.ob("C20.lambert", tag + "mask tests both |x| and |y| against a tiny constant",
               any(lv[1] == Abs(x) for lv in tiny) and any(lv[1] == Abs(y) for lv in tiny), ck[:200], loc)
    ctx.floor("C20.lambert", 5)


def density(ctx, I):
    ctx.rule("C20.density", "point_density pipeline order and kernel-table agreement (see explanation)")
    dotted = "pydrex.stats.point_density"
    loc = defloc(ctx, dotted)
    mod = ctx.program.module("pydrex.stats")
    fn = ctx.program.require(dotted)
    cfg = flow.CFG(fn)
    idom = cfg.dominators()
    # kernel table: every entry is a repo function accepting cos_dist and axial
    table = I.resolve("pydrex.stats.SPHERICAL_COUNTING_KERNELS")
    ctx.ob("C20.density", "kernel table has the five documented kernels", isinstance(table, dict) and len(table) >= 5
           and {"kamb_count", "schmidt_count", "exponential_kamb", "linear_inverse_kamb", "square_inverse_kamb"} <= set(table), f"keys {sorted(table) if isinstance(table, dict) else table}", loc)
    for name, f in (table.items() if isinstance(table, dict) else []):
        okf = isinstance(f, FuncVal)
        params = [a.arg for a in f.node.args.args] if okf else []
        ctx.ob("C20.density", f"kernel {name} accepts (cos_dist, axial=)", okf and len(params) >= 1 and "axial" in params
               and all(p.arg in params or f.node.args.kwarg for p in []), f"params {params}", f"{ctx.program.relpath(mod.path)}:{f.node.lineno if okf else 0}")
        if okf:
            # returns a pair (count, scale)
            rets = [r for r in ast.walk(f.node) if isinstance(r, ast.Return)]
            ctx.ob("C20.density", f"kernel {name} returns (distribution, scale)", bool(rets) and all(isinstance(r.value, ast.Tuple) and len(r.value.elts) == 2 for r in rets), "", f"{ctx.program.relpath(mod.path)}:{f.node.lineno}")
    # validation of the kernel name dominates the first table lookup
    lookups = [n for n, s in cfg.stmt.items() if s is not None and any(
        isinstance(x, ast.Subscript) and flow.dotted(x.value) == "SPHERICAL_COUNTING_KERNELS" for x in ast.walk(s) if not isinstance(s, (ast.If, ast.For)) or True)
        and not isinstance(s, ast.If)]
    checks = [n for n, s in cfg.stmt.items() if isinstance(s, ast.If) and any(
        isinstance(c, ast.Compare) and any(isinstance(o, ast.NotIn) for o in c.ops) and any(flow.dotted(k) == "SPHERICAL_COUNTING_KERNELS" for k in c.comparators)
        for c in ast.walk(s.test)) and flow_raises(s.body, "ValueError")]
    lookups = [n for n in lookups if not isinstance(cfg.stmt[n], ast.For) or True]
    okv = bool(checks) and bool(lookups) and all(any(cfg.dominates(c, l, idom) for c in checks) for l in lookups)
    ctx.ob("C20.density", "unknown kernel name raises ValueError before any table lookup", okv, f"{len(checks)} validation(s), {len(lookups)} lookup statement(s)", loc)
    # axial: abs of the dot products under `if axial`
    absn = [n for n, s in cfg.stmt.items() if isinstance(s, ast.Assign) and isinstance(s.value, ast.Call)
            and (flow.dotted(s.value.func) or "").endswith("abs")]
    ax_if = [n for n, s in cfg.stmt.items() if isinstance(s, ast.If) and isinstance(s.test, ast.Name) and s.test.id == "axial"]
    ctx.ob("C20.density", "axial data enter through |data·counter| (abs applied under `if axial`)", bool(absn) and bool(ax_if)
           and any(cfg.stmt[a] in cfg.stmt[i].body for a in absn for i in ax_if), "", loc)
    # normalisation precedes clipping
    norm = [n for n, s in cfg.stmt.items() if isinstance(s, (ast.AugAssign, ast.Assign)) and "mean" in ast.unparse(s) and
            isinstance(getattr(s, "target", None) or s.targets[0], ast.Name) and isinstance(getattr(s, "op", ast.Div()), ast.Div)]
    clip = [n for n, s in cfg.stmt.items() if isinstance(s, ast.Assign) and isinstance(s.targets[0], ast.Subscript)
            and isinstance(s.targets[0].slice, ast.Compare) and isinstance(s.targets[0].slice.ops[0], (ast.Lt, ast.LtE))]
    clip += [n for n, s in cfg.stmt.items() if isinstance(s, ast.Assign) and isinstance(s.value, ast.Call)
             and (flow.dotted(s.value.func) or "").split(".")[-1] in ("clip", "maximum")]
    okn = bool(norm) and bool(clip) and all(any(cfg.dominates(a, c, idom) for a in norm) for c in clip)
    ctx.ob("C20.density", "normalisation to the grid mean dominates the clipping of negative estimates", okn,
           f"normalise at lines {[cfg.stmt[n].lineno for n in norm]}, clip at lines {[cfg.stmt[n].lineno for n in clip]}", loc)
    # counters come from to_cartesian; projected with lambert_equal_area
    src = ast.unparse(fn)
    calls = [flow.dotted(c.func) or "" for c in flow.calls_in(fn)]
    ctx.ob("C20.density", "counters are generated by geometry.to_cartesian", any(c.endswith("to_cartesian") for c in calls), "", loc)
    lam = [c for c in flow.calls_in(fn) if (flow.dotted(c.func) or "").endswith("lambert_equal_area")]
    tc = [s for s in ast.walk(fn) if isinstance(s, ast.Assign) and isinstance(s.value, ast.Call) and (flow.dotted(s.value.func) or "").endswith("to_cartesian")]
    names = []
    if tc:
        t = tc[0].targets[0]
        names = [e.id for e in t.elts] if isinstance(t, ast.Tuple) else []
    lam_def = ctx.program.require("pydrex.geometry.lambert_equal_area")
    pnames = [a.arg for a in lam_def.args.posonlyargs + lam_def.args.args]
    bound = {}
    if lam:
        for p, a in zip(pnames, lam[0].args):
            bound[p] = a
        for k in lam[0].keywords:
            if k.arg is not None:
                bound[k.arg] = k.value
    first3 = [bound.get(p) for p in pnames[:3]]
    ctx.ob("C20.density", "grid points are the Lambert projection of the same counters", bool(lam) and bool(names)
           and [a.id if isinstance(a, ast.Name) else None for a in first3] == names, f"to_cartesian -> {names}", loc)
    # the projection as it is called here, for axial and for directed data: grid points stay in the closed unit disk (r^2 = 1-|z|)
    extra = {p: v for p, v in bound.items() if p not in pnames[:3]}
    if lam and extra:
        from ..interp import Env
        for axial in (True, False):
            env = Env(mod)
            env.vars["axial"] = axial
            try:
                ek = {p: I.ev(v, env) for p, v in extra.items()}
            except Exception as ex:
                ctx.ob("C20.density", f"projection call arguments (axial={axial})", "inconclusive", f"cannot evaluate the extra arguments of the projection call: {ex}", loc)
                continue
            lambert(ctx, I, "pydrex.geometry.", (), ek, tag=f"as called from point_density(axial={axial}): ",
                    loc=f"{ctx.program.relpath(mod.path)}:{lam[0].lineno}")
    # weights multiply the kernel values before they are summed
    wmul = [n for n, s in cfg.stmt.items() if isinstance(s, (ast.AugAssign, ast.Assign)) and "weights" in ast.unparse(getattr(s, "value", s)) and
            (isinstance(s, ast.AugAssign) and isinstance(s.op, ast.Mult) or isinstance(getattr(s, "value", None), ast.BinOp))]
    tot = [n for n, s in cfg.stmt.items() if isinstance(s, ast.Assign) and isinstance(s.targets[0], ast.Subscript) and "sum" in ast.unparse(s.value)]
    ctx.ob("C20.density", "weights scale the kernel values before the per-counter sum", bool(wmul) and bool(tot) and
           all(any(cfg.dominates(w, t, idom) for w in wmul) for t in tot), f"{len(wmul)} weighting statement(s), {len(tot)} summation(s)", loc)
    # the axial flag reaches the kernel and, inside the kernels, the radius helper
    kcalls = [c for c in flow.calls_in(fn) if isinstance(c.func, ast.Subscript) and flow.dotted(c.func.value) == "SPHERICAL_COUNTING_KERNELS"]
    ctx.ob("C20.density", "the kernel is called with axial=axial", bool(kcalls) and all(any(k.arg == "axial" and ast.unparse(k.value) == "axial" for k in c.keywords) for c in kcalls), "", loc)
    for name, f in (table.items() if isinstance(table, dict) else []):
        if not isinstance(f, FuncVal):
            continue
        rc = [c for c in ast.walk(f.node) if isinstance(c, ast.Call) and (flow.dotted(c.func) or "") == "_kamb_radius"]
        for c in rc:
            fw = any(k.arg == "axial" and ast.unparse(k.value) == "axial" for k in c.keywords) or (len(c.args) >= 3 and ast.unparse(c.args[2]) == "axial")
            ctx.ob("C20.density", f"kernel {name} forwards its axial flag to the radius helper", fw, "", f"{ctx.program.relpath(mod.path)}:{c.lineno}")
    kr = ctx.program.module("pydrex.stats").defs.get("_kamb_radius")
    if isinstance(kr, ast.FunctionDef):
        ifs = [i for i in ast.walk(kr) if isinstance(i, ast.If) and "axial" in ast.unparse(i.test)]
        okk = bool(ifs) and any(isinstance(r, ast.Return) and ast.unparse(r.value).replace(" ", "") == "1-r" for i in ifs for r in i.body if "True" in ast.unparse(i.test) or ast.unparse(i.test) == "axial")
        ctx.ob("C20.density", "_kamb_radius: axial data use the wider cone 1 - r, non-axial 1 - 2r", okk and "1-2*r" in ast.unparse(kr).replace(" ", ""), "", f"{ctx.program.relpath(mod.path)}:{kr.lineno}")
    ctx.floor("C20.density", 19)


def flow_raises(body, name):
    for s in body:
        for n in ast.walk(s):
            if isinstance(n, ast.Raise) and n.exc is not None:
                d = flow.dotted(n.exc.func if isinstance(n.exc, ast.Call) else n.exc) or ""
                if d.split(".")[-1] == name:
                    return True
    return False
