"""C15 — volume-weighted resampling: every output pair is an input pair of the same snapshot and is drawn with probability equal to its
volume, decided region by region of the input space (model-point interpretation); seeded RNG, shapes, validation."""

from __future__ import annotations

import itertools

import numpy as np

from .. import alg
from ..alg import E, lift, ONE, ZERO
from ..interp import Interp, RaiseSig
from ..values import symarr, SymArr, SymIdx, Opaque, Unsupported, keyof
from .common import public, defloc, short

LEVEL = "other"
DOTTED = "pydrex.stats.resample_orientations"


# ----------------------------------------------------------------------------------------------------------------- regions of the simplex

class Snapshot:
    """Volumes of one snapshot in one region of the simplex: symbolic cells (exact zeros are the constant 0, equal volumes share a symbol),
    numeric stand-ins that realise the region (dyadic, so partial sums are exact), and the substitution that puts the cells on the simplex."""

    def __init__(self, label, prefix, values):
        self.label = label
        syms = {}
        self.cells, self.model = [], {}
        for v in values:
            if v == 0:
                self.cells.append(ZERO)
                continue
            if v not in syms:
                syms[v] = alg.psym(f"{prefix}v{len(syms)}")
                (a,) = alg.atoms_of(syms[v])
                self.model[a] = float(v)
            self.cells.append(syms[v])
        # the simplex: the most frequent-then-largest symbol is expressed by the others
        mult = {v: values.count(v) for v in syms}
        ev = max(syms, key=lambda v: (v * mult[v], v))
        rest = sum((syms[v] * mult[v] for v in syms if v != ev), ZERO)
        (ea,) = alg.atoms_of(syms[ev])
        self.simplex = {ea: (ONE - rest) / mult[ev]}
        self.positive = sum(1 for v in values if v != 0)


def regions(M):
    """(label, values) covering the order types of M volumes on the simplex: all strict orders, exact zeros in every position, equal
    volumes, one dominant grain."""
    out = []
    if M == 1:
        return [("single grain", (1.0,))]
    if M == 2:
        return [("ascending", (0.25, 0.75)), ("descending", (0.75, 0.25)), ("equal", (0.5, 0.5)), ("first zero", (0.0, 1.0)), ("last zero", (1.0, 0.0))]
    if M == 3:
        for p in itertools.permutations((0.125, 0.375, 0.5)):
            out.append((f"strict order {tuple(sorted(range(3), key=lambda i: p[i]))}", p))
        out.append(("one dominant grain", (0.0625, 0.03125, 0.90625)))
        for z in range(3):
            for a, b in ((0.375, 0.625), (0.625, 0.375)):
                v = [a, b]
                v.insert(z, 0.0)
                out.append((f"zero volume at {z}, others {'ascending' if a < b else 'descending'}", tuple(v)))
        for k in range(3):
            v = [0.0, 0.0, 0.0]
            v[k] = 1.0
            out.append((f"all volume in grain {k}", tuple(v)))
        for lone in range(3):
            for a, b in ((0.25, 0.5), (0.375, 0.25)):
                v = [a, a, a]
                v[lone] = b
                out.append((f"two equal volumes, the other ({lone}) {'larger' if b > a else 'smaller'}", tuple(v)))
        out.append(("all equal", (1 / 3, 1 / 3, 1 / 3)))
        return out
    if M == 4:
        return [("strict ascending", (0.0625, 0.1875, 0.25, 0.5)), ("strict descending", (0.5, 0.25, 0.1875, 0.0625)),
                ("shuffled with a zero in the middle", (0.5, 0.0, 0.125, 0.375)), ("two zeros first", (0.0, 0.0, 0.625, 0.375)),
                ("equal pairs", (0.125, 0.375, 0.125, 0.375)), ("zero last, equal others", (0.25, 0.5, 0.25, 0.0))]
    raise ValueError(M)


# ----------------------------------------------------------------------------------------------------------------- one region

class Inconclusive(Exception):
    pass


def interpret(ctx, A, fr, ns, seed, model, u_over):
    I = Interp(ctx.program)
    I.model = dict(model)
    I.model_u = dict(u_over)
    f = public(ctx, I, DOTTED)
    out = I.call(f, (A.copy(), fr.copy()), {"n_samples": ns, "seed": seed})
    return I, out


def slot_pick(out, A, fr, i, k):
    """index of the input grain of snapshot i that output slot (i, k) holds; raises Inconclusive / returns (None, why) for a non-grain"""
    o, v = out[0][i, k], out[1][i, k]
    if isinstance(o, (Opaque, SymArr)) or isinstance(v, (Opaque, SymArr)) or any(isinstance(c, Opaque) for c in np.asarray(o, dtype=object).flat):
        raise Inconclusive("an output slot is not a plain selection of input cells (unmodelled operation on the path)")
    from .common import _havoced
    if any(_havoced(c) for c in np.asarray(o, dtype=object).flat) or _havoced(v):
        raise Inconclusive("an output slot depends on an operation the interpreter could not follow (havoc)")
    N, M = fr.shape
    hits = [g for g in range(M) if all(lift(x) == lift(y) for x, y in zip(np.asarray(o, dtype=object).flat, A[i, g].flat))]
    if not hits:
        other = [(j, g) for j in range(N) for g in range(M) if j != i and all(lift(x) == lift(y) for x, y in zip(np.asarray(o, dtype=object).flat, A[j, g].flat))]
        return None, (f"orientation in output slot ({i}, {k}) is grain {other[0][1]} of snapshot {other[0][0]}, not a grain of snapshot {i}" if other
                      else f"orientation in output slot ({i}, {k}) is not an input orientation: {short(np.asarray(o, dtype=object).flat[0], 60)}")
    g = hits[0]
    if lift(v) != lift(fr[i, g]):
        return None, f"output slot ({i}, {k}) pairs the orientation of grain {g} with the volume {short(v, 40)}, not with its own volume {short(fr[i, g], 40)}"
    return g, ""


def region_check(ctx, tag, loc, N, M, ns, snaps, seed):
    """returns list of (rule, construct, verdict, detail)"""
    res = []
    A = symarr("A", (N, M, 3, 3))
    fr = np.empty((N, M), dtype=object)
    model, simplex = {}, {}
    for i, s in enumerate(snaps):
        for g in range(M):
            fr[i, g] = s.cells[g]
        model.update(s.model)
        simplex.update(s.simplex)
    n_s = M if ns is None else ns

    def on_simplex(e):
        return alg.subst(lift(e), simplex)

    try:
        I0, out0 = interpret(ctx, A, fr, ns, seed, model, {})
    except RaiseSig as r:
        return [("C15.pairing", tag, False, f"raises {r.exc.typename} on well-formed input (line {getattr(r.exc.node, 'lineno', '?')})")], None
    oko = isinstance(out0, tuple) and len(out0) == 2 and getattr(out0[0], "shape", None) == (N, n_s, 3, 3) and getattr(out0[1], "shape", None) == (N, n_s)
    res.append(("C15.shapes", tag, oko, f"shapes {getattr(out0[0], 'shape', None)}, {getattr(out0[1], 'shape', None)}; expected {(N, n_s, 3, 3)}, {(N, n_s)}"))
    if not oko:
        return res, I0
    variates = dict(I0.model_uatoms)          # Atom -> (call, flat)
    slots = [(i, k) for i in range(N) for k in range(n_s)]
    moves = {sl: [] for sl in slots}           # slot -> [(variate atom, pieces)]
    base_picks = {}
    for sl in slots:
        g, why = slot_pick(out0, A, fr, *sl)
        if g is None:
            res.append(("C15.pairing", f"{tag}:slot {sl}", False, why))
            return res, I0
        base_picks[sl] = g
    for ua, pos in sorted(variates.items(), key=lambda kv: kv[1]):
        pieces, x = [], 2.0 ** -30
        for _ in range(4 * M + 6):
            try:
                I, out = interpret(ctx, A, fr, ns, seed, model, {pos: x})
            except RaiseSig as r:
                res.append(("C15.distribution", f"{tag}:variate {pos}", False,
                            f"raises {r.exc.typename} for a variate of about {x:.4g} (line {getattr(r.exc.node, 'lineno', '?')})"))
                return res, I0
            if I.model_unjudged:
                raise Inconclusive(f"{I.model_unjudged[0]}: the intervals of the variates cannot be read off the decisions (not judged)")
            bs = I.model_bounds.get(ua, [])
            lo = max(((I.model_val(e), e) for kind, e in bs if kind == "lo"), key=lambda t: t[0], default=(0.0, ZERO))
            hi = min(((I.model_val(e), e) for kind, e in bs if kind == "hi"), key=lambda t: t[0], default=(1.0, ONE))
            if lo[0] is None or hi[0] is None:
                raise Inconclusive("a bound of a variate cannot be evaluated at the model point")
            picks = {}
            for sl in slots:
                g, why = slot_pick(out, A, fr, *sl)
                if g is None:
                    res.append(("C15.pairing", f"{tag}:slot {sl}", False, why + f" (variate {pos} about {x:.4g})"))
                    return res, I0
                picks[sl] = g
            pieces.append((lo[1], hi[1], lo[0], hi[0], picks))
            if hi[0] >= 1.0 - 1e-12:
                break
            if hi[0] <= x:
                raise Inconclusive("the sweep over a variate does not advance")
            x = hi[0] + 2.0 ** -30
        else:
            raise Inconclusive("the sweep over a variate did not reach 1")
        for sl in slots:
            if len({p[4][sl] for p in pieces}) > 1:
                moves[sl].append((ua, pos, pieces))
    # rounding robustness: in floating point the cumulative sum of normalised volumes may fall a few ulp short of 1 while a variate lies
    # above it.  The same region with the stand-ins scaled by 1 - 2^-20 (volumes summing to just under one) and a variate between that sum
    # and 1: the function must still return an input pair for every slot (the search is closed at 1 or the index is clamped)
    if N == 1 and variates:
        scaled = {a_: v_ * (1.0 - 2.0 ** -20) for a_, v_ in model.items()}
        ctag = f"{tag}:variate above the rounded sum of the volumes"
        try:
            _, outr = interpret(ctx, A, fr, ns, seed, scaled, {pos_: 1.0 - 2.0 ** -22 for pos_ in variates.values()})
            bad = [why for sl in slots for g, why in [slot_pick(outr, A, fr, *sl)] if g is None]
            res.append(("C15.rounding", ctag, not bad, "; ".join(bad[:2])))
        except RaiseSig as r:
            res.append(("C15.rounding", ctag, False, f"raises {r.exc.typename} (line {getattr(r.exc.node, 'lineno', '?')}): a variate above the rounded "
                        "cumulative sum is searched past the last grain; the cumulative distribution is not closed at 1"))
        except (Inconclusive, Unsupported, alg.AlgError) as ex:
            res.append(("C15.rounding", ctag, "inconclusive", str(ex)[:140]))
    # one obligation per slot
    for sl in slots:
        i, k = sl
        snap = snaps[i]
        ctag = f"{tag}:slot {sl}"
        res.append(("C15.pairing", ctag, True, ""))
        if len(moves[sl]) > 1:
            res.append(("C15.distribution", ctag, "inconclusive", f"the slot depends on {len(moves[sl])} variates jointly; not judged"))
            continue
        if not moves[sl]:
            g = base_picks[sl]
            ok = snap.positive == 1 and lift(fr[i, g]) != ZERO
            res.append(("C15.distribution", ctag, ok, "" if ok else
                        f"the slot holds grain {g} whatever the variates are, but snapshot {i} has {snap.positive} grains of positive volume: "
                        f"grain {g} is drawn with probability 1, not {short(fr[i, g], 30)}"))
            continue
        ua, pos, pieces = moves[sl][0]
        # the pieces tile [0, 1)
        problems = []
        if alg.decide(on_simplex(pieces[0][0]), ZERO)[0] != "equal":
            problems.append(f"the first interval starts at {short(pieces[0][0], 30)}, not 0")
        for p, q in zip(pieces, pieces[1:]):
            if alg.decide(on_simplex(p[1]), on_simplex(q[0]))[0] != "equal":
                problems.append(f"gap between intervals: one ends at {short(p[1], 30)}, the next starts at {short(q[0], 30)}")
        if alg.decide(on_simplex(pieces[-1][1]), ONE)[0] != "equal":
            problems.append(f"the last interval ends at {short(on_simplex(pieces[-1][1]), 40)}, not 1")
        if problems:
            res.append(("C15.distribution", ctag, "inconclusive", "; ".join(problems[:2]) + " (the variate is compared with quantities that do not partition [0, 1); not judged)"))
            continue
        bad = []
        for g in range(M):
            length = sum((p[1] - p[0] for p in pieces if p[4][sl] == g), ZERO)
            v, info = alg.decide(on_simplex(length), on_simplex(fr[i, g]))
            if v != "equal":
                bad.append(f"grain {g} (volume {short(fr[i, g], 24)}) is drawn on a set of variates of measure {short(on_simplex(length), 40)}")
        res.append(("C15.distribution", ctag, not bad, "; ".join(bad[:3]) + (f" [intervals of variate {pos}: " + ", ".join(
            f"({short(p[0], 16)}, {short(p[1], 16)}] -> grain {p[4][sl]}" for p in pieces[:5]) + "]" if bad else "")))
    return res, I0


# ----------------------------------------------------------------------------------------------------------------- the check

def run(ctx):
    ctx.explanation = (
        "stats.resample_orientations is interpreted region by region of the volume simplex (every strict order of the volumes, exact zeros in "
        "every position, equal volumes, one dominant grain; M = 1..4 grains, N = 1..3 snapshots).  In a region the volumes and the uniform "
        "variates stay symbolic; numeric stand-ins that realise the region only DECIDE the data-dependent sorts, searches and comparisons, "
        "and every such decision on a variate is logged as a bound.  Sweeping each variate over [0, 1) yields the intervals on which the "
        "function takes one path; per output slot: the (orientation, volume) stored is one input pair of the same snapshot on every interval "
        "(C15.pairing), the intervals tile [0, 1), and for every grain the total length of the intervals that select it equals its volume as "
        "a polynomial identity on the simplex (C15.distribution) — so zero-volume grains are selected on a null set only, and a grain is "
        "drawn with probability equal to its volume, independently of HOW the function sorts, accumulates or searches.  Plus: one generator "
        "seeded with the seed argument is the only randomness and one variate is drawn per output slot with default options; two calls with "
        "the same seed select identically; output shapes; malformed shapes raise ValueError before the generator exists.  Not decided: the "
        "quality of NumPy's generator; floating-point rounding beyond the one case of C15.rounding (a cumulative sum short of 1); regions of the simplex other than the order types listed.")
    ctx.trusted += ["numpy: argsort/sort order a row, searchsorted returns the insertion position, fancy indexing selects cells",
                    "Generator.random draws independent uniform variates from [0, 1)"]
    ctx.assume("within a region every logged decision keeps its outcome (they are order comparisons between volumes, partial sums and variates)")
    ctx.rule("C15.pairing", "every output slot (i, k) holds the orientation AND the volume of one and the same input grain of snapshot i, for every interval of every variate")
    ctx.rule("C15.distribution", "per output slot: the variate intervals tile [0, 1) and the total length selecting grain g equals volume f_g on the simplex "
                                 "(polynomial identity), in every region")
    ctx.rule("C15.rounding", "with volumes summing to just under one (rounding of the cumulative sum) and a variate between that sum and 1, every slot still holds an input "
                             "pair: the cumulative distribution is closed at 1, or the index is clamped")
    ctx.rule("C15.rng", "the generator is default_rng(seed=<seed argument>), it is the only randomness, one variate per output slot is drawn with default options")
    ctx.rule("C15.shapes", "output shapes (N, n_samples, 3, 3) and (N, n_samples); n_samples defaults to M")
    ctx.rule("C15.validate", "inconsistent input shapes raise ValueError before the generator is created")
    loc = defloc(ctx, DOTTED)
    seed = alg.sym("seed")
    configs = []
    r3 = regions(3)
    for lab, vals in r3:
        configs.append((1, 3, None, [(lab, vals)]))
    for j in range(0, len(r3), 3 if ctx.tier == "quick" else 1):
        configs.append((2, 3, 2, [r3[j], r3[(j * 7 + 5) % len(r3)]]))
    for lab, vals in regions(4):
        configs.append((1, 4, 1, [(lab, vals)]))
    r2 = regions(2)
    for j in range(len(r2)):
        configs.append((3, 2, 1, [r2[j], r2[(j + 1) % len(r2)], r2[(j + 3) % len(r2)]]))
    configs.append((1, 1, None, [regions(1)[0]]))
    configs.append((1, 1, 3, [regions(1)[0]]))
    if ctx.tier != "quick":
        for lab, vals in r3:
            configs.append((1, 3, 5, [(lab, vals)]))
    n_regions = 0
    for N, M, ns, snaps_ in configs:
        snaps = [Snapshot(lab, f"s{i}", vals) for i, (lab, vals) in enumerate(snaps_)]
        tag = f"N={N},M={M},n_samples={ns}:" + " | ".join(s.label for s in snaps)
        n_regions += 1
        try:
            res, I0 = region_check(ctx, tag, loc, N, M, ns, snaps, seed)
        except Inconclusive as ex:
            ctx.ob("C15.distribution", tag, "inconclusive", str(ex), loc)
            continue
        except (Unsupported, alg.AlgError) as ex:
            ctx.ob("C15.distribution", tag, "inconclusive", f"outside the interpreted subset: {str(ex)[:140]}", loc)
            continue
        for rule, construct, verdict, detail in res:
            ctx.ob(rule, construct, verdict, detail, loc)
        if I0 is not None:
            n_s = M if ns is None else ns
            draws = [e for e in I0.trace if e.kind == "rng-draw"]
            rngs = [e for e in I0.trace if e.kind == "rng"]
            # `out=` only says where the variates are stored; dtype / other options change what is drawn
            opts = [tuple(o for o in d.data[4] if o[0] != "out") for d in draws if len(d.data) > 4 and d.data[4]]
            opts = [o for o in opts if o]
            ok = len(rngs) == 1 and rngs[0].data == ("default_rng", keyof(seed)) and all(d.data[0] == "random" for d in draws) \
                and len(I0.model_uatoms) == N * n_s and not opts
            ctx.ob("C15.rng", tag, ok, f"generators {[e.data for e in rngs]}, draws {[d.data[0] for d in draws]}, variates {len(I0.model_uatoms)} for {N * n_s} slots"
                   + (f", non-default options {opts} (a narrower dtype makes exact 0.0 draws, hence zero-volume grains, 2^29 times more likely)" if opts else ""), loc)
    ctx.count("regions interpreted", n_regions)
    ctx.floor("C15.pairing", 60)
    ctx.floor("C15.distribution", 60)
    ctx.floor("C15.rng", 30)
    ctx.floor("C15.rounding", 20)
    # reproducibility: a second call with the same arguments (after an unrelated call in between) selects with the same draws
    ctx.rule("C15.reproducible", "two calls with the same seed and inputs in one process return the same selections (the generator is created afresh per call, "
                                 "so the k-th call does not continue the stream of an earlier one)")
    try:
        I = Interp(ctx.program)
        s0, s1 = Snapshot("a", "s0", (0.125, 0.375, 0.5)), Snapshot("b", "s1", (0.5, 0.0, 0.5))
        I.model = {**s0.model, **s1.model}
        f = public(ctx, I, DOTTED)
        A = symarr("A", (2, 3, 3, 3))
        fr = np.empty((2, 3), dtype=object)
        for i, s in enumerate((s0, s1)):
            for g in range(3):
                fr[i, g] = s.cells[g]
        first = I.call(f, (A.copy(), fr.copy()), {"seed": seed})
        sB = Snapshot("c", "s2", (0.25, 0.75))
        I.model.update(sB.model)
        I.call(f, (symarr("B", (1, 2, 3, 3)), np.array([sB.cells], dtype=object)), {"seed": alg.sym("seed2"), "n_samples": 4})
        second = I.call(f, (A.copy(), fr.copy()), {"seed": seed})
        same = all(keyof(a) == keyof(b) for x, y in zip(first, second) for a, b in zip(np.asarray(x, dtype=object).flat, np.asarray(y, dtype=object).flat))
        ctx.ob("C15.reproducible", "same seed, same inputs, called twice", same,
               "the second call selects with different draws than the first" if not same else "identical selections", loc)
    except RaiseSig as r:
        ctx.ob("C15.reproducible", "same seed, same inputs, called twice", False, f"raises {r.exc.typename}", loc)
    except (Unsupported, alg.AlgError) as ex:
        ctx.ob("C15.reproducible", "same seed, same inputs, called twice", "inconclusive", f"outside the interpreted subset: {str(ex)[:140]}", loc)
    ctx.floor("C15.reproducible", 1)
    # validation
    bad_inputs = {
        "orientations rank": (symarr("A", (2, 3, 3)), symarr("f", (2, 3))),
        "fractions rank": (symarr("A", (2, 3, 3, 3)), symarr("f", (3,))),
        "snapshot count": (symarr("A", (2, 3, 3, 3)), symarr("f", (1, 3))),
        "grain count": (symarr("A", (2, 3, 3, 3)), symarr("f", (2, 4))),
        "not 3x3 (2x2)": (symarr("A", (2, 3, 2, 2)), symarr("f", (2, 3))),
        "not 3x3 (1x1)": (symarr("A", (2, 3, 1, 1)), symarr("f", (2, 3))),
        "not 3x3 (1x3)": (symarr("A", (2, 3, 1, 3)), symarr("f", (2, 3))),
        "not 3x3 (4x3)": (symarr("A", (2, 3, 4, 3)), symarr("f", (2, 3))),
        "not 3x3 (3x4)": (symarr("A", (2, 3, 3, 4)), symarr("f", (2, 3))),
    }
    for name, (A, fr) in bad_inputs.items():
        I = Interp(ctx.program)
        f = public(ctx, I, DOTTED)
        try:
            I.call(f, (A, fr))
            ctx.ob("C15.validate", name, False, "malformed input accepted", loc)
        except RaiseSig as r:
            early = not any(e.kind in ("rng", "rng-draw") for e in I.trace)
            ctx.ob("C15.validate", name, r.exc.typename == "ValueError" and early, f"raised {r.exc.typename}; before RNG creation: {early}", loc)
        except (Unsupported, alg.AlgError) as ex:
            ctx.ob("C15.validate", name, "inconclusive", f"outside the interpreted subset: {str(ex)[:140]}", loc)
    ctx.floor("C15.validate", 9)
    ctx.observe("a variate of exactly 0.0 maps to the first sorted grain, which may have zero volume (a null set: probability 2^-53 per draw)")
