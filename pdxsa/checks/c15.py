"""C15 — volume-weighted resampling: same permutation and index vector for both outputs, inverse-CDF structure, seeded RNG, validation."""

from __future__ import annotations

import ast

import numpy as np

from .. import alg
from ..alg import E, lift, ONE
from ..interp import Interp, RaiseSig
from ..values import symarr, SymArr, SymIdx, keyof
from .common import public, defloc, short
from .. import flow

LEVEL = "other"


def run(ctx):
    ctx.explanation = (
        "stats.resample_orientations is interpreted on symbolic stacks with data-dependent index vectors kept symbolic (argsort, searchsorted, "
        "fancy indexing as uninterpreted take operations).  Decided per snapshot: both outputs are take(take(x, pi), k) with the SAME "
        "permutation pi = argsort(volumes of that snapshot) and the SAME index vector k; k = searchsorted(cumsum(volumes[pi]) with its last "
        "entry pinned to 1, u) with u = rng.random(n_samples) drawn from a generator seeded with the seed argument (the only randomness); "
        "hence every output pair is an input pair of the same snapshot and k <= M-1; output shapes (N, n_samples, 3, 3) and (N, n_samples) "
        "with n_samples defaulting to M; malformed shapes raise ValueError before any other processing.  Not decided: the sampling "
        "distribution itself (statistical); u = 0.0 exactly selects index 0 even for a zero-volume grain (measure zero; observation).")
    ctx.trusted += ["numpy: argsort returns a permutation, a[p][k] is composition of takes, searchsorted returns indices in [0, len]",
                    "Generator.random draws from [0, 1)"]
    ctx.rule("C15.pairing", "out_orientations[i] == take(take(orient_i, pi), k) and out_fractions[i] == take(take(frac_i, pi), k) with identical pi and k")
    ctx.rule("C15.inverse-cdf", "pi = argsort(frac_i); k = searchsorted(cumsum(frac_i[pi]) with [-1] := 1, rng.random(n_samples))")
    ctx.rule("C15.rng", "the generator is default_rng(seed=<seed argument>) and is the only randomness")
    ctx.rule("C15.shapes", "output shapes (N, n_samples, 3, 3) and (N, n_samples); n_samples defaults to M")
    ctx.rule("C15.validate", "inconsistent input shapes raise ValueError before the generator is created")
    dotted = "pydrex.stats.resample_orientations"
    loc = defloc(ctx, dotted)
    for (N, M, ns) in ((1, 3, None), (2, 3, 5), (3, 2, 1)):
        I = Interp(ctx.program)
        f = public(ctx, I, dotted)
        A = symarr("A", (N, M, 3, 3))
        fr = symarr("f", (N, M), positive=True)
        seed = alg.sym("seed")
        tag = f"N={N},M={M},n_samples={ns}"
        try:
            out = I.call(f, (A, fr), {"n_samples": ns, "seed": seed})
        except RaiseSig as r:
            ctx.ob("C15.pairing", tag, False, f"raises {r.exc.typename} on well-formed input", loc)
            continue
        n_s = M if ns is None else ns
        oko = isinstance(out, tuple) and len(out) == 2 and getattr(out[0], "shape", None) == (N, n_s, 3, 3) and getattr(out[1], "shape", None) == (N, n_s)
        ctx.ob("C15.shapes", tag, oko, f"shapes {getattr(out[0], 'shape', None)}, {getattr(out[1], 'shape', None)}", loc)
        if not oko:
            continue
        draws = [e for e in I.trace if e.kind == "rng-draw"]
        rngs = [e for e in I.trace if e.kind == "rng"]
        ctx.ob("C15.rng", tag, len(rngs) == 1 and rngs[0].data == ("default_rng", keyof(seed)) and len(draws) == N and all(d.data[0] == "random" for d in draws),
               f"generators {[e.data for e in rngs]}, draws {[d.data[0] for d in draws]}", loc)
        for i in range(N):
            oo = {id(c): c for c in out[0][i].flat}
            ff = {id(c): c for c in out[1][i].flat}
            if len(oo) != 1 or len(ff) != 1:
                ctx.ob("C15.pairing", f"{tag}:snapshot {i}", False, "output cells of one snapshot do not come from one selection", loc)
                continue
            o, fo = next(iter(oo.values())), next(iter(ff.values()))
            ok, why, parts = analyse(o, fo, A[i], fr[i])
            ctx.ob("C15.pairing", f"{tag}:snapshot {i}", ok, why, loc)
            if parts:
                pi, k = parts
                cdf = inverse_cdf(pi, k, fr[i], n_s, seed, i + 1)
                ctx.ob("C15.inverse-cdf", f"{tag}:snapshot {i}", cdf[0], cdf[1], loc)
    ctx.floor("C15.pairing", 6)
    # reproducibility: a second call with the same arguments (after an unrelated call in between) selects with the same draws
    ctx.rule("C15.reproducible", "two calls with the same seed and inputs in one process return the same selections (the generator is created afresh per call, "
                                 "so the k-th call does not continue the stream of an earlier one)")
    I = Interp(ctx.program)
    f = public(ctx, I, dotted)
    A, fr, seed = symarr("A", (2, 3, 3, 3)), symarr("f", (2, 3), positive=True), alg.sym("seed")
    try:
        first = I.call(f, (A.copy(), fr.copy()), {"seed": seed})
        I.call(f, (symarr("B", (1, 2, 3, 3)), symarr("g", (1, 2), positive=True)), {"seed": alg.sym("seed2"), "n_samples": 4})
        second = I.call(f, (A.copy(), fr.copy()), {"seed": seed})
        same = all(keyof(a) == keyof(b) for x, y in zip(first, second) for a, b in zip(np.asarray(x, dtype=object).flat, np.asarray(y, dtype=object).flat))
        ctx.ob("C15.reproducible", "same seed, same inputs, called twice", same,
               "the second call selects with different draws than the first" if not same else "identical selections", loc)
    except RaiseSig as r:
        ctx.ob("C15.reproducible", "same seed, same inputs, called twice", False, f"raises {r.exc.typename}", loc)
    ctx.floor("C15.reproducible", 1)
    # validation
    bad_inputs = {
        "orientations rank": (symarr("A", (2, 3, 3)), symarr("f", (2, 3))),
        "fractions rank": (symarr("A", (2, 3, 3, 3)), symarr("f", (3,))),
        "snapshot count": (symarr("A", (2, 3, 3, 3)), symarr("f", (1, 3))),
        "grain count": (symarr("A", (2, 3, 3, 3)), symarr("f", (2, 4))),
        "not 3x3 (2x2)": (symarr("A", (2, 3, 2, 2)), symarr("f", (2, 3))),
        "not 3x3 (1x1)": (symarr("A", (2, 3, 1, 1)), symarr("f", (2, 3))),
        "not 3x3 (1x3)": (symarr("A", (2, 3, 1, 3)), symarr("f", (2, 3))),
        "not 3x3 (4x3)": (symarr("A", (2, 3, 4, 3)), symarr("f", (2, 3))),
        "not 3x3 (3x4)": (symarr("A", (2, 3, 3, 4)), symarr("f", (2, 3))),
    }
    for name, (A, fr) in bad_inputs.items():
        I = Interp(ctx.program)
        f = public(ctx, I, dotted)
        try:
            I.call(f, (A, fr))
            ctx.ob("C15.validate", name, False, "malformed input accepted", loc)
        except RaiseSig as r:
            early = not any(e.kind in ("rng", "rng-draw") for e in I.trace)
            ctx.ob("C15.validate", name, r.exc.typename == "ValueError" and early, f"raised {r.exc.typename}; before RNG creation: {early}", loc)
    ctx.floor("C15.validate", 9)
    ctx.observe("rng.random() == 0.0 exactly maps to index 0 of the sorted volumes, which may be a zero-volume grain (probability 2^-53 per draw)")


def analyse(o, fo, orient, frac):
    """o, fo: SymArr values stored into the two outputs for one snapshot."""
    def unpack(x):
        if not (isinstance(x, SymArr) and x.op == "take"):
            return None
        inner, k = x.args
        if isinstance(k, SymIdx) and k.op == "compose" and not x.mods:
            # x[pi[k]] is the same composition of takes as x[pi][k]
            inner, k = SymArr("take", (inner, k.args[0])), k.args[1]
        if not (isinstance(inner, SymArr) and inner.op == "take" and not inner.mods and not x.mods):
            return None
        base, pi = inner.args
        return base, pi, k
    uo, uf = unpack(o), unpack(fo)
    if uo is None or uf is None:
        return False, f"outputs are not of the form take(take(x, pi), k): {o!r} / {fo!r}", None
    if not (isinstance(uo[0], np.ndarray) and keyof(uo[0]) == keyof(orient)):
        return False, "orientation output is not selected from this snapshot's orientations", None
    if not (isinstance(uf[0], np.ndarray) and keyof(uf[0]) == keyof(frac)):
        return False, "volume output is not selected from this snapshot's volumes", None
    if keyof(uo[1]) != keyof(uf[1]):
        return False, "the two outputs use different permutations", None
    if keyof(uo[2]) != keyof(uf[2]):
        return False, "the two outputs use different index vectors: (orientation, volume) pairs are broken", None
    return True, "", (uo[1], uo[2])


def inverse_cdf(pi, k, frac, n_s, seed, call_no):
    if not (isinstance(pi, SymIdx) and pi.op == "argsort" and keyof(pi.args[0]) == keyof(frac)):
        return False, f"permutation is not argsort of this snapshot's volumes: {pi!r}"
    if not (isinstance(k, SymIdx) and k.op == "searchsorted"):
        return False, f"index vector is not a searchsorted result: {k!r}"
    cum, u, kw = k.args
    if not (isinstance(cum, SymArr) and cum.op == "cumsum"):
        return False, "searchsorted is not applied to a cumulative sum"
    src = cum.args[0]
    if not (isinstance(src, SymArr) and src.op == "take" and keyof(src.args[1]) == keyof(pi) and keyof(src.args[0]) == keyof(frac) and not src.mods):
        return False, "the cumulative sum is not over the volumes sorted by the same permutation"
    pinned = [(i, v) for i, v in cum.mods]
    if not (len(pinned) == 1 and pinned[0][0] == -1 and lift(pinned[0][1]) == ONE):
        return False, f"the last cumulative value is not pinned to 1 (in-place stores: {pinned})"
    if not (isinstance(u, SymArr) and u.op == "rng.random" and u.args[0] == keyof(seed) and u.args[1] == call_no
            and len(u.args[2]) == 1 and int(u.args[2][0]) == n_s):
        return False, f"uniform variates are not rng.random(n_samples) of the seeded generator: {u!r} {getattr(u, 'args', None)}"
    if len(u.args) > 3 and u.args[3]:
        return False, f"uniform variates are drawn with non-default options {u.args[3]} (a narrower dtype makes exact 0.0 draws, hence zero-volume grains, 2^29 times more likely and distorts small probabilities)"
    if dict(kw).get("side", "left") != "left":
        return False, "searchsorted side changed"
    return True, ""
