"""C04 — frame indifference (Lie derivative along so(3)) and lattice two-fold invariance of the rates."""

from __future__ import annotations

import itertools

import numpy as np

from .. import alg
from ..alg import E, lift, ZERO, ONE
from ..interp import RaiseSig
from .common import defloc, short, parallel_cases
from . import drex

LEVEL = "proof"


def generators():
    Js = []
    for k in range(3):
        J = np.empty((3, 3), dtype=object)
        for i in range(3):
            for j in range(3):
                J[i, j] = lift(-drex.levi(k, i, j))
        Js.append(J)
    return Js


def run(ctx):
    ctx.explanation = (
        "Frame indifference for ALL proper rotations is decided as three polynomial identities per output: with the derivation "
        "D_k(L) = [J_k, L], D_k(A_g) = A_g·J_k^T (J_k the generators of so(3)) applied through the let-DAG of the extracted rates by the "
        "chain rule, D_k(df_g) == 0 and D_k(dA_g) == dA_g·J_k^T.  SO(3) is connected and the forms are analytic away from the guard "
        "sets, so vanishing Lie derivatives are equivalent to invariance/covariance under every Q.  Lattice two-folds: the extraction is "
        "repeated with rows of A_g multiplied by the three sign patterns; obligations dA'_g == diag(s)·dA_g and df' == df.  Decided for "
        "every fabric, both dislocation-type regimes, every ordering.  Not decided: integrated textures within solver tolerance; the "
        "entrywise clip and GBS floor of the driver are not frame-covariant in principle (inactive in range).")
    ctx.trusted += ["chain rules of alg.derive; connectedness of SO(3)", "NumPy/Numba reference semantics over the reals"]
    ctx.rule("C04.lie.df", "D_k(df_g) == 0 for k = 1,2,3 (volume rates are rotation invariant)")
    ctx.rule("C04.lie.dA", "D_k(dA_g) == dA_g · J_k^T for k = 1,2,3 (orientation rates co-rotate)")
    ctx.rule("C04.twofold", "rows of A_g multiplied by (+,-,-), (-,+,-), (-,-,+) for any subset of grains: dA'_g == diag(s_g)·dA_g, df' == df")
    loc = defloc(ctx, "pydrex.core.derivatives")
    quick = ctx.tier == "quick"
    cases = []
    for fabric in drex.REF_CRSS:
        for regime in drex.DISLOCATION_REGIMES:
            perms = drex.orderings(fabric)
            if quick and regime == "frictional_yielding":
                perms = perms[:1]
            for perm in perms:
                cases.append((fabric, regime, perm, loc, quick))
    scale_invariance(ctx)
    guard_invariance(ctx)
    parallel_cases(ctx, case, cases)
    ctx.floor("C04.lie.df", len(cases) * 3)
    ctx.floor("C04.lie.dA", len(cases) * 3)
    ctx.floor("C04.twofold", len(cases) * 6)


def scale_invariance(ctx):
    """The scalars by which the driver non-dimensionalises its inputs and re-dimensionalises the rates must be
    invariant under L -> Q L Q^T (Lie derivative 0).  Library fact used: eigenvalues of a matrix M are invariant
    when M transforms by conjugation (checked: D_k(M) == [J_k, M] for the matrix handed to the eigen-solver)."""
    from . import driver
    ctx.rule("C04.scale", "every scalar used by eval_rhs to scale the inputs of the rate kernel or its outputs has zero Lie derivative under L -> Q·L·Q^T")
    mloc = ctx.program.loc(ctx.program.module("pydrex.minerals"), ctx.program.require_method("pydrex.minerals.Mineral", "update_orientations")) + " (eval_rhs)"
    R = driver.run_update(ctx, N=2)
    if R.exc is not None or not R.rhs_calls or not R.deriv_calls:
        ctx.ob("C04.scale", "eval_rhs", False, f"update raised {R.exc!r}", mloc)
        return
    t, y, res = R.rhs_calls[0]
    kw = R.deriv_calls[0][1]
    Lm = R.Lfun.fn(R.I, t, R.xfun.fn(R.I, t))
    Dm = (Lm + Lm.T) / 2
    scalars = {}
    try:
        scalars["strain_rate divisor"] = alg.unfold_all(lift(Dm[0, 0])) / alg.unfold_all(lift(kw["strain_rate"][0, 0]))
        scalars["velocity_gradient divisor"] = alg.unfold_all(lift(Lm[0, 1])) / alg.unfold_all(lift(kw["velocity_gradient"][0, 1]))
        scalars["orientation-rate multiplier"] = alg.unfold_all(lift(res[9])) / alg.sym("dA1[0,0,0]")
        scalars["volume-rate multiplier"] = alg.unfold_all(lift(res[-1])) / alg.sym(f"df1[{R.N - 1}]")
    except Exception as ex:
        ctx.ob("C04.scale", "eval_rhs", "inconclusive", f"could not isolate the scale factors: {ex}", mloc)
        return
    Latoms = {}
    for i in range(3):
        for j in range(3):
            (a,) = alg.atoms_of(Lm[i, j])
            Latoms[(i, j)] = a
    for k, J in enumerate(generators()):
        datom = {}
        dL = J @ Lm - Lm @ J
        for (i, j), a in Latoms.items():
            datom[a] = dL[i, j]
        datom["__support__"] = set(Latoms.values())
        for name, s in scalars.items():
            memo = {}
            # eigen-solver atoms: invariant iff their argument transforms by conjugation
            for a in alg.atoms_of(s, deep=True):
                if a.kind == "fn:eigvalsh":
                    tri = a.args[0]
                    Mx = np.empty((3, 3), dtype=object)
                    q = 0
                    for i in range(3):
                        for j in range(i + 1):
                            Mx[i, j] = Mx[j, i] = tri[q]
                            q += 1
                    cov = all(alg.decide(alg.derive(lift(Mx[i, j]), datom, {}), (J @ Mx - Mx @ J)[i, j])[0] == "equal" for i in range(3) for j in range(3))
                    if cov:
                        memo[a] = ZERO
            def f(s=s, memo=memo):
                # numeric forward-mode screen (eigenvalue atoms verified covariant above are invariant)
                for seed in (1, 2):
                    dat = dict(datom)
                    for a_, z_ in memo.items():
                        dat[a_] = z_
                    v0, d0 = alg.evald(s, dat, seed)
                    if d0 == d0 and abs(d0) > 1e-6 * max(1.0, abs(v0)):
                        return False, f"D_{k + 1}({short(s, 100)}) = {d0:.6g} at witness point seed={seed} (value {v0:.6g}): the scale depends on the reference frame"
                d = alg.derive(s, datom, memo)
                v, info = alg.decide(d, ZERO)
                if v == "equal":
                    return True, ""
                return (False if v == "differ" else "inconclusive"), f"D_{k + 1}({short(s, 100)}) = {short(d, 120)}: the scale depends on the reference frame"
            ctx.check("C04.scale", f"{name}:J{k + 1}", f, mloc)
    ctx.floor("C04.scale", 12)


def guard_invariance(ctx):
    """A piecewise-defined right-hand side is frame indifferent only if the boundaries between its pieces are: every data-dependent branch
    condition met while eval_rhs is evaluated (its own and those of the helpers it calls, the rate kernel excepted: its guards are
    invariants by C04.lie) must compare rotation invariants, i.e. the compared quantities have zero Lie derivative under
    L -> Q L Q^T, F -> Q F, A_g -> A_g Q^T."""
    from . import driver
    from ..values import Guard
    ctx.rule("C04.guards", "every data-dependent branch condition evaluated inside eval_rhs compares quantities with zero Lie derivative under L -> Q·L·Q^T, "
                           "F -> Q·F, A_g -> A_g·Q^T (the pieces of a piecewise right-hand side are separated by frame-invariant boundaries)")
    mloc = ctx.program.loc(ctx.program.module("pydrex.minerals"), ctx.program.require_method("pydrex.minerals.Mineral", "update_orientations")) + " (eval_rhs)"
    N = 2
    R = driver.run_update(ctx, N=N)
    if R.exc is not None or not R.rhs_calls:
        ctx.ob("C04.guards", "eval_rhs", False, f"update raised {R.exc!r}", mloc)
        return
    t, y, res = R.rhs_calls[0]
    Lm = R.Lfun.fn(R.I, t, R.xfun.fn(R.I, t))
    F = y[:9].reshape(3, 3)
    A = y[9:9 + 9 * N].reshape(N, 3, 3)
    leaves = []

    def collect(g, where):
        if isinstance(g, Guard):
            g = g.astuple()
        acc = []
        alg._guard_leaves(g, acc)
        if isinstance(g, tuple) and len(g) > 2 and g[1] == "cmp" and g[2] == "between":
            acc.append(("between", lift(g[3]), ZERO))
        if isinstance(g, tuple) and len(g) > 2 and g[1] == "all" and g[2] == "eqzero":
            for x in g[3]:
                acc.append(("Eq", lift(x), ZERO))
        for op, x, y_ in acc:
            leaves.append((op, x, y_, where))
            for sub in alg.select_guards(x - y_):       # conditions nested inside the compared quantities (counts of cells that ..., etc.)
                collect(sub, where)
    for g, outcome, gl, fn in R.rhs_conditions[0][0] + R.rhs_conditions[0][1]:
        collect(g, gl)
    seen = set()
    n = 0
    for k, J in enumerate(generators()):
        datom = {}
        dL = J @ Lm - Lm @ J
        dF = J @ F
        for i in range(3):
            for j in range(3):
                (a,) = alg.atoms_of(Lm[i, j])
                datom[a] = dL[i, j]
                (a,) = alg.atoms_of(F[i, j])
                datom[a] = dF[i, j]
                for g_ in range(N):
                    (a,) = alg.atoms_of(A[g_, i, j])
                    datom[a] = (A[g_] @ J.T)[i, j]
        datom["__support__"] = {a for a in datom if not isinstance(a, str)}
        for op, x, y_, where in leaves:
            d = lift(x) - lift(y_)
            key = (k, where, d.key())
            if key in seen or not d.t or d.is_const():
                continue
            seen.add(key)
            dat = dict(datom)
            for a in alg.atoms_of(d, deep=True):
                if a.kind == "fn:eigvalsh":
                    tri = a.args[0]
                    Mx = np.empty((3, 3), dtype=object)
                    q = 0
                    for i in range(3):
                        for j in range(i + 1):
                            Mx[i, j] = Mx[j, i] = tri[q]
                            q += 1
                    if all(alg.decide(alg.derive(lift(Mx[i, j]), datom, {}), (J @ Mx - Mx @ J)[i, j])[0] == "equal" for i in range(3) for j in range(3)):
                        dat[a] = ZERO

            def f(d=d, dat=dat, op=op, k=k):
                bad = 0
                for seed in (1, 2, 3):
                    v0, d0 = alg.evald(d, dat, seed)
                    if d0 != d0:
                        return "inconclusive", f"Lie derivative of {short(d, 80)} could not be evaluated (uninterpreted function of frame-dependent arguments)"
                    if abs(d0) > 1e-7 * max(1.0, abs(v0)):
                        bad += 1
                if bad >= 2:
                    return False, f"branch condition ({op}) on {short(d, 100)} has Lie derivative D_{k + 1} != 0: it depends on the reference frame"
                return True, ""
            n += 1
            ctx.check("C04.guards", f"condition {n // 3 + 1 if False else len([1 for kk in seen if kk[0] == k])} at {where}:{op}:J{k + 1}", f, where)
    ctx.count("branch_conditions_in_eval_rhs", n // 3)
    ctx.floor("C04.guards", 3)


def case(ctx, c):
    fabric, regime, perm, loc, quick = c
    N = 2
    tag = f"{fabric}:{regime}:order={perm}"
    try:
        I, inp, (dA, df) = drex.extract(ctx, fabric, regime, perm, N)
    except RaiseSig as r:
        ctx.ob("C04.lie.df", tag, False, f"derivatives raises {r.exc.typename}", loc)
        return
    lie(ctx, tag, inp, dA, df, generators(), loc)
    if any(o.status != "pass" for o in ctx.obs):
        return  # already refuted for this case; the two-fold comparison would only repeat it (and be slow)
    twofold(ctx, tag, fabric, regime, perm, inp, dA, df, loc, all_patterns=not quick)


def lie(ctx, tag, inp, dA, df, Js, loc):
    N = inp.N
    for k, J in enumerate(Js):
        datom = {}
        dL = J @ inp.L - inp.L @ J
        for i in range(3):
            for j in range(3):
                (a,) = alg.atoms_of(inp.L[i, j])
                datom[a] = dL[i, j]
        for g in range(N):
            dAg = inp.A[g] @ J.T
            for p in range(3):
                for i in range(3):
                    (a,) = alg.atoms_of(inp.A[g, p, i])
                    datom[a] = dAg[p, i]
        datom["__support__"] = {a for a in datom if isinstance(a, alg.Atom)}
        # numeric forward-mode screen first: a separated Lie derivative is a refutation with a witness point
        bad = numeric_screen(inp, dA, df, J, datom)
        if bad:
            rule, what = bad
            ctx.ob(rule, f"{tag}:J{k + 1}", False, what, loc)
            ctx.ob("C04.lie.dA" if rule == "C04.lie.df" else "C04.lie.df", f"{tag}:J{k + 1}", "pass" if False else "fail", "not evaluated separately: " + what, loc)
            continue
        memo = {}
        alg.set_budget(30_000_000)
        nl, ninv = alg.stage_derivation(list(df) + list(dA.flat), datom, memo)
        ctx.count("let_atoms_staged", nl)
        ctx.count("let_atoms_invariant", ninv)

        def f_df():
            for g in range(N):
                d = alg.derive(lift(df[g]), datom, memo)
                v, info = alg.decide(d, ZERO)
                if v != "equal":
                    return (False if v == "differ" else "inconclusive"), f"D_{k + 1}(df[{g}]) = {short(d)} ({info})"
            return True, ""
        ctx.check("C04.lie.df", f"{tag}:J{k + 1}", f_df, loc)

        def f_dA():
            for g in range(N):
                rhs = dA[g] @ J.T
                for p in range(3):
                    for q in range(3):
                        d = alg.derive(lift(dA[g, p, q]), datom, memo)
                        v, info = alg.decide(d, rhs[p, q])
                        if v != "equal":
                            return (False if v == "differ" else "inconclusive"), \
                                f"D_{k + 1}(dA[{g},{p},{q}]) = {short(d)} but (dA·J^T)[{p},{q}] = {short(rhs[p, q])} ({info})"
            return True, ""
        ctx.check("C04.lie.dA", f"{tag}:J{k + 1}", f_dA, loc)


def numeric_screen(inp, dA, df, J, datom):
    N = inp.N
    for seed in (1, 2):
        for g in range(N):
            v, d = alg.evald(lift(df[g]), datom, seed)
            if d == d and abs(d) > 1e-6 * max(1.0, abs(v)):
                return "C04.lie.df", f"D(df[{g}]) = {d:.6g} at witness point seed={seed} (df = {v:.6g}): volume rate is not rotation invariant"
        for g in range(N):
            vals = [[alg.evald(lift(dA[g, p, q]), datom, seed) for q in range(3)] for p in range(3)]
            for p in range(3):
                for q in range(3):
                    rhs = sum(vals[p][i][0] * float(J[q, i].cval()) for i in range(3))
                    d = vals[p][q][1]
                    if d == d and abs(d - rhs) > 1e-6 * max(1.0, abs(d), abs(rhs)):
                        return "C04.lie.dA", f"D(dA[{g},{p},{q}]) = {d:.6g} but (dA·J^T)[{p},{q}] = {rhs:.6g} at witness point seed={seed}: orientation rate does not co-rotate"
    return None


SIGNS = ((1, -1, -1), (-1, 1, -1), (-1, -1, 1))


def twofold(ctx, tag, fabric, regime, perm, inp, dA, df, loc, all_patterns=True):
    N = inp.N
    subsets = [(0,), tuple(range(N))] if not all_patterns else [s for r in range(1, N + 1) for s in itertools.combinations(range(N), r)]
    for si, s in enumerate(SIGNS):
        for sub in subsets:
            A2 = inp.A.copy()
            for g in sub:
                for p in range(3):
                    for i in range(3):
                        A2[g, p, i] = inp.A[g, p, i] * s[p]
            inp2 = drex.Inputs.__new__(drex.Inputs)
            inp2.__dict__.update(inp.__dict__)
            inp2.A = A2

            def f():
                try:
                    _, _, (dA2, df2) = drex.extract(ctx, fabric, regime, perm, N, inputs=inp2)
                except RaiseSig as r:
                    return False, f"raises {r.exc.typename} for the symmetry-equivalent orientation"
                for g in range(N):
                    v, info = alg.decide(df2[g], df[g], budget=400_000)
                    if v != "equal":
                        return (False if v == "differ" else "inconclusive"), f"df[{g}] changes under the two-fold: {info}"
                    for p in range(3):
                        sg = s[p] if g in sub else 1
                        for q in range(3):
                            v, info = alg.decide(dA2[g, p, q], lift(dA[g, p, q]) * sg, budget=400_000)
                            if v != "equal":
                                return (False if v == "differ" else "inconclusive"), f"dA[{g},{p},{q}] is not the equivalent rate: {info}"
                return True, ""
            ctx.check("C04.twofold", f"{tag}:signs={s}:grains={sub}", f, loc)
