"""C11 — elastic tensor representations (pydrex.tensors): algebraic identities on generic symbols."""

from __future__ import annotations

import itertools

import numpy as np

from .. import alg
from ..alg import E, lift, ZERO, ONE, Sqrt, const
from ..interp import Interp, RaiseSig
from ..values import symarr, mkarr, full
from .common import ident, ident_arr, public, defloc, sym_matrix, coeff, call_public, short

LEVEL = "proof"


def voigt_index(p, q):
    # reference Voigt map, written independently: 11,22,33,23,13,12 -> 0..5
    if p == q:
        return p
    return {frozenset((1, 2)): 3, frozenset((0, 2)): 4, frozenset((0, 1)): 5}[frozenset((p, q))]


def run(ctx):
    ctx.explanation = (
        "pydrex.tensors functions are interpreted abstractly on generic symbolic inputs; every clause is a "
        "polynomial identity between the extracted normal form and an independently written reference (or a "
        "transformed copy of the extracted form), decided by normalisation with exact rational arithmetic. "
        "Decides: index maps (81+36 tuples), symmetries, contractions, inverse pairs, isometry, the rotation "
        "law, projector algebra (linear, idempotent, self-adjoint, nested), I2 formula, polar factor formulas. "
        "Not decided: SVD conditioning, singular input of the right polar decomposition, rounding.")
    ctx.trusted += ["Python/NumPy reference semantics of the supported subset (DESIGN 2.2.7)",
                    "reference Voigt map and tensor law written in pdxsa/checks/c11.py"]
    I = Interp(ctx.program)
    T = "pydrex.tensors."
    M = sym_matrix("M", 6)

    # ---- voigt_to_elastic_tensor: 81 cells, symmetries, contractions
    ctx.rule("C11.v2t.cell", "tensor[p,q,r,s] == M[v(p,q), v(r,s)] for all 81 index tuples (reference Voigt map v)")
    loc = defloc(ctx, T + "voigt_to_elastic_tensor")
    C = call_public(ctx, I, T + "voigt_to_elastic_tensor", M.copy())
    if getattr(C, "shape", None) != (3, 3, 3, 3):
        ctx.ob("C11.v2t.cell", "shape", False, f"result shape {getattr(C, 'shape', None)} != (3,3,3,3)", loc)
        return
    for p, q, r, s in itertools.product(range(3), repeat=4):
        ident(ctx, "C11.v2t.cell", f"voigt_to_elastic_tensor[{p},{q},{r},{s}]", C[p, q, r, s],
              M[voigt_index(p, q), voigt_index(r, s)], loc)
    ctx.floor("C11.v2t.cell", 81)
    ctx.rule("C11.v2t.symm", "minor and major symmetries of the 4th-order tensor built from a symmetric matrix")
    ident_arr(ctx, "C11.v2t.symm", "minor(pq)", C, C.transpose(1, 0, 2, 3), loc)
    ident_arr(ctx, "C11.v2t.symm", "minor(rs)", C, C.transpose(0, 1, 3, 2), loc)
    ident_arr(ctx, "C11.v2t.symm", "major", C, C.transpose(2, 3, 0, 1), loc)
    ctx.rule("C11.contract", "voigt_decompose == (C_ijkk, C_ikjk) computed from the 4th-order tensor")
    dil, dev = call_public(ctx, I, T + "voigt_decompose", M.copy())
    dil_ref = np.empty((3, 3), dtype=object)
    dev_ref = np.empty((3, 3), dtype=object)
    for i, j in itertools.product(range(3), repeat=2):
        dil_ref[i, j] = sum((C[i, j, k, k] for k in range(3)), ZERO)
        dev_ref[i, j] = sum((C[i, k, j, k] for k in range(3)), ZERO)
    locd = defloc(ctx, T + "voigt_decompose")
    ident_arr(ctx, "C11.contract", "dilatational d_ij = C_ijkk", dil, dil_ref, locd)
    ident_arr(ctx, "C11.contract", "deviatoric v_ij = C_ikjk", dev, dev_ref, locd)

    # ---- inverse pairs
    ctx.rule("C11.inverse", "elastic_tensor_to_voigt∘voigt_to_elastic_tensor = id; vector/matrix maps are mutual inverses")
    loc2 = defloc(ctx, T + "elastic_tensor_to_voigt")
    M2 = call_public(ctx, I, T + "elastic_tensor_to_voigt", C.copy())
    for i, j in itertools.product(range(6), repeat=2):
        ident(ctx, "C11.inverse", f"t2v(v2t(M))[{i},{j}]", M2[i, j], M[i, j], loc2)
    # a tensor WITHOUT assumed symmetries must be averaged correctly into Voigt form (36 cells)
    G = symarr("T", (3, 3, 3, 3))
    Mg = call_public(ctx, I, T + "elastic_tensor_to_voigt", G.copy())
    ctx.rule("C11.t2v.cell", "matrix[i,j] == symmetrised mean of the tensor cells whose index pairs map to (i,j)")
    for i, j in itertools.product(range(6), repeat=2):
        def mean_cells(i, j):
            cs = [G[p, q, r, s] for p, q, r, s in itertools.product(range(3), repeat=4)
                  if voigt_index(p, q) == i and voigt_index(r, s) == j]
            return sum(cs, ZERO) / len(cs)
        ident(ctx, "C11.t2v.cell", f"elastic_tensor_to_voigt[{i},{j}]", Mg[i, j], (mean_cells(i, j) + mean_cells(j, i)) / 2, loc2)
    ctx.floor("C11.t2v.cell", 36)
    loc3 = defloc(ctx, T + "voigt_matrix_to_vector")
    v = call_public(ctx, I, T + "voigt_matrix_to_vector", M.copy())
    M3 = call_public(ctx, I, T + "voigt_vector_to_matrix", v.copy())
    for i, j in itertools.product(range(6), repeat=2):
        ident(ctx, "C11.inverse", f"v2m(m2v(M))[{i},{j}]", M3[i, j], M[i, j], defloc(ctx, T + "voigt_vector_to_matrix"))
    x = symarr("x", (21,))
    x2 = call_public(ctx, I, T + "voigt_matrix_to_vector", call_public(ctx, I, T + "voigt_vector_to_matrix", x.copy()))
    for k in range(21):
        ident(ctx, "C11.inverse", f"m2v(v2m(x))[{k}]", x2[k], x[k], loc3)
    ctx.floor("C11.inverse", 36 + 36 + 21)

    # ---- isometry
    ctx.rule("C11.isometry", "sum_k vector_k^2 == sum_pqrs tensor_pqrs^2 (21-vector norm equals Frobenius norm)")
    nv = sum((c * c for c in v.flat), ZERO)
    nt = sum((c * c for c in C.flat), ZERO)
    ident(ctx, "C11.isometry", "|m2v(M)|^2 == |v2t(M)|^2", nv, nt, loc3)

    # ---- rotation law
    ctx.rule("C11.rotate", "rotate(T,R)_ijkl == sum_abcd R_ia R_jb R_kc R_ld T_abcd on generic T (81 symbols) and generic R")
    R = symarr("R", (3, 3))
    locr = defloc(ctx, T + "rotate")
    def rotation_cases(sub):
        # a proper rotation without off-diagonal entries is one of diag(+,+,+), (+,-,-), (-,+,-), (-,-,+)
        off = [next(iter(alg.atoms_of(R[i, j]))) for i in range(3) for j in range(3) if i != j]
        if all(a in sub and lift(sub[a]) == ZERO for a in off):
            dg = [next(iter(alg.atoms_of(R[i, i]))) for i in range(3)]
            return [{a: lift(s_) for a, s_ in zip(dg, sg) if a not in sub} for sg in ((1, 1, 1), (1, -1, -1), (-1, 1, -1), (-1, -1, 1))]
        return [{}]
    try:
        Tr = call_public(ctx, I, T + "rotate", G.copy(), R.copy(), __cases__=rotation_cases)
    except Exception as ex:
        if type(ex).__name__ not in ("Unsupported", "AlgError"):
            raise
        Tr = None
        ctx.ob("C11.rotate", "rotate on a generic rotation", "inconclusive", f"outside the interpreted subset: {str(ex)[:120]}", locr)
    refT = np.empty((3, 3, 3, 3), dtype=object)
    for i, j, k, l in itertools.product(range(3), repeat=4):
        ref = ZERO
        for a, b in itertools.product(range(3), repeat=2):
            rab = R[i, a] * R[j, b]
            for c, d in itertools.product(range(3), repeat=2):
                ref = ref + rab * R[k, c] * R[l, d] * G[a, b, c, d]
        refT[i, j, k, l] = ref
        if Tr is not None:
            ident(ctx, "C11.rotate", f"rotate[{i},{j},{k},{l}]", Tr[i, j, k, l], ref, locr)
    if Tr is not None:
        ctx.floor("C11.rotate", 81)
    # the same law on the rotations with exact zeros: the proper signed permutation matrices (the 24 rotations of the cube; a finite table).
    # A rotation matrix with zeros decides every zero test a "skip the zero terms" implementation makes, which generic symbols cannot.
    ctx.rule("C11.rotate-sparse", "rotate(T, P) == the transformation law for the proper signed permutation matrices P (cyclic relabellings, quarter and half turns) on generic T")
    cube = []
    for perm in itertools.permutations(range(3)):
        for sg in itertools.product((1, -1), repeat=3):
            M = np.zeros((3, 3), dtype=int)
            for r_, c_ in enumerate(perm):
                M[r_, c_] = sg[r_]
            if round(np.linalg.det(M)) == 1:
                cube.append(M)
    chosen = cube if ctx.tier != "quick" else [M for M in cube if (M != M.T).any()][:6] + [M for M in cube if (M == M.T).all()][:2]
    for M in chosen:
        name = "[" + " ".join("".join({1: "+", -1: "-", 0: "0"}[int(v)] for v in row) for row in M) + "]"
        Pm = np.array([[lift(int(v)) for v in row] for row in M], dtype=object)
        try:
            got = I.call(public(ctx, I, T + "rotate"), (G.copy(), Pm.copy()))
        except RaiseSig as r:
            ctx.ob("C11.rotate-sparse", name, False, f"raises {r.exc.typename}", locr)
            continue
        except Exception as ex:
            if type(ex).__name__ not in ("Unsupported", "AlgError"):
                raise
            ctx.ob("C11.rotate-sparse", name, "inconclusive", f"outside the interpreted subset: {str(ex)[:100]}", locr)
            continue
        refP = np.empty((3, 3, 3, 3), dtype=object)
        src = [int(np.nonzero(M[i])[0][0]) for i in range(3)]
        sgn = [int(M[i, src[i]]) for i in range(3)]
        for i, j, k, l in itertools.product(range(3), repeat=4):
            refP[i, j, k, l] = (sgn[i] * sgn[j] * sgn[k] * sgn[l]) * G[src[i], src[j], src[k], src[l]]
        ident_arr(ctx, "C11.rotate-sparse", name, got, refP, locr, what="rotated tensor")
    ctx.floor("C11.rotate-sparse", 8)

    # ---- projectors
    ctx.rule("C11.proj", "each symmetry projector is linear, idempotent, self-adjoint (orthogonal projection), and the four are nested")
    names = ["mono_project", "ortho_project", "tetr_project", "hex_project"]
    P = {}
    mats = {}
    for nm in names:
        locp = defloc(ctx, T + nm)
        y = call_public(ctx, I, T + nm, x.copy())
        P[nm] = y
        if getattr(y, "shape", None) != (21,):
            ctx.ob("C11.proj", f"{nm}:shape", False, f"shape {getattr(y, 'shape', None)}", locp)
            continue
        # linearity: y_i == sum_k (dy_i/dx_k) x_k with constant coefficients
        mat = np.empty((21, 21), dtype=object)
        lin_ok = True
        for i in range(21):
            for k in range(21):
                mat[i, k] = coeff(y[i], x[k])
        for i in range(21):
            recon = sum((mat[i, k] * x[k] for k in range(21)), ZERO)
            const_coeffs = all(not (alg.atoms_of(mat[i, k], deep=True) & set().union(*[alg.atoms_of(xx) for xx in x])) for k in range(21))
            ident(ctx, "C11.proj", f"{nm}:linear[{i}]", y[i], recon if const_coeffs else ZERO + x[0] * x[0], locp)
        mats[nm] = mat
        yy = call_public(ctx, I, T + nm, y.copy())
        ident_arr(ctx, "C11.proj", f"{nm}:idempotent", yy, y, locp)
        ident_arr(ctx, "C11.proj", f"{nm}:self-adjoint", mat, mat.T, locp)
    chain = [("mono_project", "ortho_project"), ("ortho_project", "tetr_project"), ("tetr_project", "hex_project"),
             ("mono_project", "hex_project"), ("ortho_project", "hex_project"), ("mono_project", "tetr_project")]
    for big, small in chain:
        if big in P and small in P:
            a = call_public(ctx, I, T + small, P[big].copy())
            b = call_public(ctx, I, T + big, P[small].copy())
            ident_arr(ctx, "C11.proj", f"{small}∘{big} == {small}", a, P[small], defloc(ctx, T + small))
            ident_arr(ctx, "C11.proj", f"{big}∘{small} == {small}", b, P[small], defloc(ctx, T + big))
    ctx.floor("C11.proj", 4 * 23 + 12)

    # ---- invariants
    ctx.rule("C11.invariants", "I1 = trace, I2 = sum of principal 2x2 minors, I3 = det of the same tensor")
    S = symarr("S", (3, 3))
    loci = defloc(ctx, T + "invariants_second_order")
    i1, i2, i3 = call_public(ctx, I, T + "invariants_second_order", S.copy())
    ident(ctx, "C11.invariants", "I1", i1, S[0, 0] + S[1, 1] + S[2, 2], loci)
    minors = (S[0, 0] * S[1, 1] - S[0, 1] * S[1, 0]) + (S[1, 1] * S[2, 2] - S[1, 2] * S[2, 1]) + (S[0, 0] * S[2, 2] - S[0, 2] * S[2, 0])
    ident(ctx, "C11.invariants", "I2", i2, minors, loci)
    ident(ctx, "C11.invariants", "I3", i3, alg.Fn("det", tuple(S.flat)), loci)
    ctx.assume("numpy.linalg.det / trace are the determinant / trace (library facts)")

    # ---- polar decomposition
    ctx.rule("C11.polar", "left: (U·Vh, U·diag(S)·Uᵀ) with V·R − U·diag(S)·Vh == U·diag(S)·(UᵀU − I)·Vh identically; "
                          "right: (M·inv(P), P) with P == Vhᵀ·diag(S)·Vh")
    locq = defloc(ctx, T + "polar_decompose")
    Mx = symarr("F", (3, 3))
    U, Sg, Vh = I.np.np_svd(Mx)
    dS = I.np.np_diag(Sg)
    eye = I.np.np_eye(3)
    Rl, Vl = call_public(ctx, I, T + "polar_decompose", Mx.copy())
    ident_arr(ctx, "C11.polar", "left:rotation == U·Vh", Rl, U @ Vh, locq)
    ident_arr(ctx, "C11.polar", "left:stretch == U·diag(S)·Uᵀ", Vl, U @ dS @ U.T, locq)
    ident_arr(ctx, "C11.polar", "left:stretch symmetric", Vl, Vl.T, locq)
    ident_arr(ctx, "C11.polar", "left:V·R reproduces U·S·Vh modulo UᵀU=I", Vl @ Rl - U @ dS @ Vh, U @ dS @ (U.T @ U - eye) @ Vh, locq)
    Rr, Pr = call_public(ctx, I, T + "polar_decompose", Mx.copy(), left=False)
    Pref = Vh.T @ dS @ Vh
    ident_arr(ctx, "C11.polar", "right:stretch == Vhᵀ·diag(S)·Vh", Pr, Pref, locq)
    ident_arr(ctx, "C11.polar", "right:stretch symmetric", Pr, Pr.T, locq)
    ident_arr(ctx, "C11.polar", "right:rotation == M·inv(stretch)", Rr, Mx @ I.np.np_inv(Pr), locq)
    ctx.assume("numpy.linalg.svd returns U, S, Vh with UᵀU = VhVhᵀ = I, S ≥ 0 and M = U·diag(S)·Vh; inv(P)·P = I (library facts)")
    ctx.count("interp_calls", I.counters["calls"])
    ctx.count("interp_stmts", I.counters["stmts"])
    if Tr is not None:
        ctx.sample({"rule": "C11.rotate", "construct": "rotate[0,1,2,0]", "extracted_terms": Tr[0, 1, 2, 0].nterms() if isinstance(Tr[0, 1, 2, 0], E) else None})
    ctx.sample({"rule": "C11.isometry", "lhs": short(nv, 200)})
