"""C07 — null forcing leaves the texture unchanged; unsupported regimes/phases/fabrics are rejected."""

from __future__ import annotations

import numpy as np

from .. import alg
from ..alg import E, lift, ZERO, ONE
from ..interp import Interp, RaiseSig
from ..values import symarr, ClassVal, EnumMember
from .common import public, defloc, short, enum
from . import drex, driver
from .c03 import judge

LEVEL = "other"

REF_REGIMES = {
    "min_viscosity": "null", "max_viscosity": "null", "matrix_diffusion": "passive",
    "matrix_dislocation": "dislocation", "frictional_yielding": "dislocation",
    "boundary_diffusion": "unsupported", "sliding_diffusion": "unsupported", "sliding_dislocation": "unsupported",
}


def classify(I, f, inp, regime_member, fabric="olivine_A"):
    ph = enum(I, "pydrex.core.MineralPhase", drex.FABRIC_PHASE[fabric])
    fb = enum(I, "pydrex.core.MineralFabric", fabric)
    try:
        dA, df = I.call(f, (), dict(regime=regime_member, phase=ph, fabric=fb, n_grains=inp.N, orientations=inp.A.copy(),
                                    fractions=inp.f.copy(), strain_rate=inp.D.copy(), velocity_gradient=inp.L.copy(),
                                    deformation_gradient_spin=inp.W.copy(), stress_exponent=inp.p, deformation_exponent=inp.n,
                                    nucleation_efficiency=inp.lam, gbm_mobility=inp.M, volume_fraction=inp.phi))
    except RaiseSig as r:
        return "raise:" + r.exc.typename, None
    zA = all(lift(c).is_zero() for c in dA.flat)
    zf = all(lift(c).is_zero() for c in df.flat)
    if zA and zf:
        return "null", (dA, df)
    Watoms = {a for c in inp.W.flat for a in alg.atoms_of(c)}
    deps = set()
    for c in dA.flat:
        deps |= alg.atoms_of(lift(c), deep=True)
    Aatoms = {a for c in inp.A.flat for a in alg.atoms_of(c)}
    if zf and deps and deps <= Watoms:
        return "passive", (dA, df)
    if deps & Aatoms:
        return "dislocation", (dA, df)
    return "other", (dA, df)


def run(ctx):
    ctx.explanation = (
        "TAB: core.derivatives is interpreted for each of the eight DeformationRegime members (and two out-of-range ordinals) and each arm is "
        "classified from what it returns: null (both outputs identically zero with shapes (N,3,3),(N,)), passive, dislocation-type, or "
        "raise ValueError — must equal the documented classification; get_crss is interpreted for every (phase, fabric) pair incl. mismatched "
        "and out-of-range ordinals.  ALG: M* = 0 gives df == 0 (from the extracted form).  Driver: a solver failure or an unsupported regime "
        "raises without touching the stored history; every division in eval_rhs has a guarded denominator (zero velocity gradient).  "
        "Not decided: that the ODE solution is constant given zero rates (solver), interplay with the GBS floor for textures starting below threshold.")
    ctx.trusted += ["NumPy/Numba semantics of the interpreted subset", "stub model of LSODA"]
    ctx.rule("C07.dispatch", "each regime arm of core.derivatives behaves as documented (null / passive / dislocation-type / raises ValueError); ordinals outside the enum raise ValueError")
    ctx.rule("C07.null-zero", "null arms return all-zero arrays of shapes (N,3,3) and (N,)")
    ctx.rule("C07.crss", "get_crss accepts exactly the six supported (phase, fabric) pairs and raises ValueError for mismatched pairs and invalid ordinals")
    ctx.rule("C07.mobility0", "df == 0 identically when M* = 0")
    ctx.rule("C07.null-rhs", "for the two viscosity-bound regimes the ODE right-hand side is [L·F | 0 | 0]: texture rates vanish while F still follows dF/dt = L·F")
    ctx.rule("C07.zero-forcing", "the branch of eval_rhs taken for a vanishing strain rate returns [L·F | texture rates that are 0 when L = 0] (texture unchanged under zero forcing, F still follows dF/dt = L·F)")
    ctx.rule("C07.history", "an update that raises (unsupported regime, solver failure) leaves the stored history untouched")
    ctx.rule("C07.rhs-div", "every division evaluated in eval_rhs has a constant/guarded denominator (zero strain rate)")
    # any ordering will do for the classification of the arms: keys that are identically zero first (consistent with the learnt facts),
    # the rest in index order, whatever the number of keys being sorted
    def chooser(keys):
        zeros = [i for i, k in enumerate(keys) if lift(k).is_zero()]
        rest = [i for i in range(len(keys)) if i not in zeros]
        return tuple(zeros + (rest[-1:] + rest[:-1] if len(keys) == 4 and not zeros else rest))
    I = Interp(ctx.program, perm_chooser=chooser)
    f = public(ctx, I, "pydrex.core.derivatives")
    loc = defloc(ctx, "pydrex.core.derivatives")
    cls = I.resolve("pydrex.core.DeformationRegime")
    members = dict(cls.members)
    missing = set(REF_REGIMES) - set(members)
    extra = set(members) - set(REF_REGIMES)
    ctx.ob("C07.dispatch", "enum members", not missing and not extra, f"missing {sorted(missing)}, undocumented {sorted(extra)}", loc)
    inp = drex.Inputs(2)
    for name, m in members.items():
        got, out = classify(I, f, inp, m)
        exp = REF_REGIMES.get(name, "unsupported")
        ok = (got == exp) or (exp == "unsupported" and got == "raise:ValueError")
        ctx.ob("C07.dispatch", f"regime {name}", ok, f"arm behaves as '{got}', documented '{exp}'", loc)
        if exp == "null" and out is not None:
            dA, df = out
            ctx.ob("C07.null-zero", f"regime {name}", got == "null" and dA.shape == (2, 3, 3) and df.shape == (2,),
                   f"orientation rate {short(dA[0].tolist(), 80)}, shapes {dA.shape}, {df.shape}", loc)
    for bad in (8, -1, 99):
        got, _ = classify(I, f, inp, bad)
        ctx.ob("C07.dispatch", f"ordinal {bad}", got == "raise:ValueError", f"out-of-range regime ordinal gives '{got}'", loc)
    ctx.floor("C07.dispatch", 12)
    ctx.floor("C07.null-zero", 2)
    # get_crss
    g = public(ctx, I, "pydrex.core.get_crss")
    gloc = defloc(ctx, "pydrex.core.get_crss")
    phases = dict(I.resolve("pydrex.core.MineralPhase").members)
    fabrics = dict(I.resolve("pydrex.core.MineralFabric").members)
    for pn, pm in list(phases.items()) + [("ordinal2", 2), ("ordinal-1", -1)]:
        for fn_, fm in list(fabrics.items()) + [("ordinal6", 6), ("ordinal-1", -1)]:
            valid = fn_ in drex.REF_CRSS and drex.FABRIC_PHASE[fn_] == pn
            try:
                I.call(g, (pm, fm))
                res = "returns"
            except RaiseSig as r:
                res = "raise:" + r.exc.typename
            ctx.ob("C07.crss", f"get_crss({pn},{fn_})", res == ("returns" if valid else "raise:ValueError"), f"{res}; pair is {'valid' if valid else 'invalid'}", gloc)
    ctx.floor("C07.crss", 32)
    # the rate kernel itself: an invalid / mismatched (phase, fabric) pair raises on EVERY path, also on the paths through its data-dependent
    # early returns (a grain without resolved slip must not get numbers for a fabric that does not exist)
    ctx.rule("C07.reject-all-paths", "core.derivatives raises ValueError for invalid or mismatched (phase, fabric) pairs on the generic path and on the path through "
                                     "each data-dependent early return met before the raise")
    inv = [("olivine", "enstatite_AB"), ("enstatite", "olivine_A"), ("olivine", 6), ("olivine", -1), (2, "olivine_A"), (-1, "enstatite_AB")]
    for regime_name in drex.DISLOCATION_REGIMES:
        for pn, fn_ in inv:
            def call(I_, pn=pn, fn_=fn_, regime_name=regime_name):
                inp_ = drex.Inputs(2)
                ph = enum(I_, "pydrex.core.MineralPhase", pn) if isinstance(pn, str) else pn
                fb = enum(I_, "pydrex.core.MineralFabric", fn_) if isinstance(fn_, str) else fn_
                return I_.call(public(ctx, I_, "pydrex.core.derivatives"), (), dict(
                    regime=enum(I_, "pydrex.core.DeformationRegime", regime_name), phase=ph, fabric=fb, n_grains=inp_.N, orientations=inp_.A.copy(),
                    fractions=inp_.f.copy(), strain_rate=inp_.D.copy(), velocity_gradient=inp_.L.copy(), deformation_gradient_spin=inp_.W.copy(),
                    stress_exponent=inp_.p, deformation_exponent=inp_.n, nucleation_efficiency=inp_.lam, gbm_mobility=inp_.M, volume_fraction=inp_.phi))
            tag = f"{regime_name}:phase={pn}:fabric={fn_}"
            I0 = Interp(ctx.program, perm_chooser=chooser)
            try:
                call(I0)
                ctx.ob("C07.reject-all-paths", tag + ":generic path", False, "returned numbers", loc)
                continue
            except RaiseSig as r:
                ctx.ob("C07.reject-all-paths", tag + ":generic path", r.exc.typename == "ValueError", f"raised {r.exc.typename}", loc)
            for gl0 in sorted({gl_ for _, gl_, _ in I0.exit_ids}):
                Ik = Interp(ctx.program, perm_chooser=chooser)
                Ik.force_exit = (gl0, "*")        # every grain takes this early return
                try:
                    call(Ik)
                    ctx.ob("C07.reject-all-paths", f"{tag}:path through the early return at {gl0}", Ik.forced is None,
                           "returned numbers for an invalid pair (the pair is only validated after this early return)", gl0)
                except RaiseSig as r:
                    ctx.ob("C07.reject-all-paths", f"{tag}:path through the early return at {gl0}", r.exc.typename == "ValueError", f"raised {r.exc.typename}", gl0)
                except Exception as ex:
                    ctx.observe(f"C07.reject-all-paths {tag}: path through {gl0} not interpretable ({str(ex)[:60]})")
    ctx.floor("C07.reject-all-paths", 12)
    # M* = 0
    for fabric in ("olivine_A", "enstatite_AB"):
        for regime in drex.DISLOCATION_REGIMES:
            perm = drex.orderings(fabric)[0]
            _, inp2, (dA, df) = drex.extract(ctx, fabric, regime, perm, 2)
            (Ma,) = alg.atoms_of(inp2.M)
            z = [alg.subst(lift(c), {Ma: ZERO}) for c in df]
            ctx.ob("C07.mobility0", f"{fabric}:{regime}", all(c.is_zero() for c in z), f"df at M*=0: {short(z)}", loc)
    null_rhs(ctx)
    history(ctx)
    rhs_divisions(ctx)


def run_with_callback(ctx, rule, name, mloc, **kw):
    """run_update with a regime callback; a regime that is stored only under a data-dependent condition is itself the violation"""
    from ..values import Unsupported
    try:
        return driver.run_update(ctx, **kw)
    except Unsupported as ex:
        if "opaque" not in str(ex):
            raise
        ctx.ob(rule, name, False, f"the regime reported by get_regime is stored only under a data-dependent condition; the regime then in force is undetermined ({ex})", mloc)
        return None


def null_rhs(ctx):
    mloc = ctx.program.loc(ctx.program.module("pydrex.minerals"), ctx.program.require_method("pydrex.minerals.Mineral", "update_orientations")) + " (eval_rhs)"
    for regime in ("min_viscosity", "max_viscosity"):
        for how in ("field", "callback"):
            from ..values import Native
            kw = {}
            if how == "callback":
                kw["get_regime"] = Native("get_regime", lambda I_, t, x, r=regime: enum(I_, "pydrex.core.DeformationRegime", r))
            tag = f"{regime}:{how}"
            R = run_with_callback(ctx, "C07.null-rhs", tag, mloc, regime=regime if how == "field" else "matrix_dislocation", N=2, stub_derivatives=False, **kw)
            if R is None:
                continue
            if R.exc is not None or not R.rhs_calls:
                ctx.ob("C07.null-rhs", tag, False, f"update raised {R.exc!r}", mloc)
                continue
            t, y, res = R.rhs_calls[0]
            F = y[:9].reshape(3, 3)
            Lm = R.Lfun.fn(R.I, t, R.xfun.fn(R.I, t))
            ref = (Lm @ F).flatten()
            okF = isinstance(res, np.ndarray) and res.shape == y.shape and all(alg.decide(alg.unfold_all(lift(a)), b)[0] == "equal" for a, b in zip(res[:9], ref))
            okT = isinstance(res, np.ndarray) and all(is_identically_zero(c) for c in res[9:])
            ctx.ob("C07.null-rhs", tag + ":F block == L·F", okF, f"dF/dt block {short(list(res[:3]) if isinstance(res, np.ndarray) else res, 120)}", mloc)
            ctx.ob("C07.null-rhs", tag + ":texture rates == 0", okT, "", mloc)
    ctx.floor("C07.null-rhs", 8)


def is_identically_zero(c):
    """structurally zero, or zero after unfolding; a form that evaluates to a non-zero number at a witness point is not zero (decided without
    unfolding it, which for a full kernel rate would not terminate in reasonable time)"""
    c = lift(c)
    if not c.t:
        return True
    for seed in (1, 2, 3):
        try:
            v = alg.evalf(c, seed=seed)
        except alg.AlgError:
            continue
        if v == v and abs(v) > 1e-9:
            return False
    return alg.decide(c, ZERO)[0] == "equal"


def history(ctx):
    mloc = ctx.program.loc(ctx.program.module("pydrex.minerals"), ctx.program.require_method("pydrex.minerals.Mineral", "update_orientations")) + " (update_orientations)"
    for regime in ("boundary_diffusion", "sliding_diffusion", "sliding_dislocation"):
        R = driver.run_update(ctx, regime=regime, N=2, stub_derivatives=False)
        muts = driver.history_mutations(R)
        ok = R.exc is not None and R.exc.typename == "ValueError" and not muts and len(R.mineral.attrs["orientations"]) == R.nsnap
        ctx.ob("C07.history", f"unsupported regime {regime}", ok, f"exception {R.exc!r}; history events {[(k, w) for _, k, w, _ in muts]}", mloc)
    # invalid phase / fabric ordinals held by the mineral itself (hand-built, or loaded from a corrupted archive): the update raises
    # instead of returning numbers, and stores nothing
    for field, bad in (("phase", 2), ("phase", 7), ("phase", -1), ("fabric", 6), ("fabric", -1)):
        R = driver.run_update(ctx, N=2, stub_derivatives=False, mineral_patch=lambda m_, f_=field, b_=bad: m_.attrs.__setitem__(f_, b_))
        muts = driver.history_mutations(R)
        ok = R.exc is not None and not muts and len(R.mineral.attrs["orientations"]) == R.nsnap
        ctx.ob("C07.history", f"mineral with invalid {field} ordinal {bad}", ok,
               (f"the update returned {type(R.result).__name__} instead of raising" if R.exc is None else f"exception {R.exc!r}") +
               f"; history events {[(k, w) for _, k, w, _ in muts]}", mloc)
    for fail_at in (1, 2):
        R = driver.run_update(ctx, N=2, nsteps=2, fail_at=fail_at)
        muts = driver.history_mutations(R)
        ctx.ob("C07.history", f"solver failure at step {fail_at}", R.exc is not None and not muts,
               f"exception {R.exc!r}; history events {[(k, w) for _, k, w, _ in muts]}", mloc)
    # a regime callback switching to an unsupported regime mid-update
    from ..values import Native
    cls_holder = {}

    def with_callback(rule, name, **kw):
        return run_with_callback(ctx, rule, name, mloc, **kw)

    def get_regime(I_, t, x):
        return enum(I_, "pydrex.core.DeformationRegime", "sliding_diffusion")
    R = with_callback("C07.history", "get_regime returns an unsupported regime", N=2, stub_derivatives=False, get_regime=Native("get_regime", get_regime))
    if R is not None:
        muts = driver.history_mutations(R)
        ctx.ob("C07.history", "get_regime returns an unsupported regime", R.exc is not None and R.exc.typename == "ValueError" and not muts,
               f"exception {R.exc!r}; history events {[(k, w) for _, k, w, _ in muts]}", mloc)
    for raw in (8, -1, 21, 3):
        R = with_callback("C07.history", f"get_regime returns the raw ordinal {raw}", N=2, stub_derivatives=False, get_regime=Native("get_regime", lambda I_, t, x, r=raw: r))
        if R is None:
            continue
        muts = driver.history_mutations(R)
        ctx.ob("C07.history", f"get_regime returns the raw ordinal {raw}", R.exc is not None and R.exc.typename == "ValueError" and not muts,
               f"exception {R.exc!r}; history events {[(k, w) for _, k, w, _ in muts]}" + ("" if R.exc is not None else " (an invalid/unsupported ordinal produced numbers)"), mloc)
    ctx.floor("C07.history", 15)
    # the regime in force in an evaluation of the right-hand side at (t, x(t)) is the one the callback reports for that same (t, x(t))
    ctx.rule("C07.callback", "with a regime callback, every evaluation of the right-hand side at time t hands core.derivatives the regime reported by "
                             "get_regime(t, x(t)) for that t (a regime entered during the interval takes effect, so a null or unsupported regime cannot be skipped)")
    seq = ["matrix_dislocation", "frictional_yielding"]
    asked = []

    def get_regime2(I_, t, x):
        asked.append((t, x))
        return enum(I_, "pydrex.core.DeformationRegime", seq[(len(asked) - 1) % 2])
    R = with_callback("C07.callback", "regime stored from the callback unconditionally", N=2, nsteps=2, get_regime=Native("get_regime", get_regime2))
    if R is None:
        return
    if R.exc is not None or not R.rhs_calls:
        ctx.ob("C07.callback", "update with a regime callback", False, f"raises {R.exc!r}", mloc)
    else:
        for k, ((tk, yk, res), (a, kw)) in enumerate(zip(R.rhs_calls, R.deriv_calls), 1):
            mine = [j for j, (t_, x_) in enumerate(asked) if lift(t_) == lift(tk)]
            used = kw.get("regime", a[0] if a else None)
            xk = R.xfun.fn(R.I, tk)
            ok = bool(mine) and getattr(used, "name", None) == seq[mine[-1] % 2] and \
                isinstance(asked[mine[-1]][1], np.ndarray) and all(lift(p) == lift(q) for p, q in zip(asked[mine[-1]][1].flat, np.asarray(xk, dtype=object).flat))
            ctx.ob("C07.callback", f"right-hand side evaluation {k}", ok,
                   f"regime used: {getattr(used, 'name', used)!r}; the callback was asked at times {[short(t_, 20) for t_, _ in asked]} and this evaluation is at {short(tk, 20)}", mloc)
        ctx.floor("C07.callback", 2)


def rhs_divisions(ctx):
    mloc = ctx.program.loc(ctx.program.module("pydrex.minerals"), ctx.program.require_method("pydrex.minerals.Mineral", "update_orientations")) + " (eval_rhs)"
    R = driver.run_update(ctx, N=2)
    # outcome of the zero-strain-rate guard (if the code has one)
    if R.rhs_calls:
        t, y, res = R.rhs_calls[0]
        F = y[:9].reshape(3, 3)
        Lm = R.Lfun.fn(R.I, t, R.xfun.fn(R.I, t))
        ref = (Lm @ F).flatten()
        zero_guards = [(g, o, gl) for g, o, gl, fn in R.I.guards if fn.endswith("eval_rhs") and o[0] == "return" and isinstance(o[1], np.ndarray)
                       and g.kind == "cmp" and any(isinstance(a, E) and any(at.kind == "fn:max" or at.kind == "fn:eigvalsh" for at in alg.atoms_of(alg.unfold_all(a), deep=False)) for a in g.args[1:3] if isinstance(a, E))]
        for g, o, gl in zero_guards[:1]:
            v = o[1]
            okF = v.shape == y.shape and all(alg.decide(alg.unfold_all(lift(a)), b)[0] == "equal" for a, b in zip(v[:9], ref))
            # the property speaks about a ZERO velocity gradient: the texture block is judged with every cell of L set to 0 (a purely
            # rotational L also has a vanishing strain rate; what the branch does with it is C01's and C04's business, not C07's)
            def at_zero_L(c_):
                c_ = alg.unfold_all(lift(c_))
                ls = {a for a in alg.atoms_of(c_, deep=True) if a.kind == "fn:L"}
                return alg.subst(c_, {a: alg.ZERO for a in ls}) if ls else c_
            okT = all(at_zero_L(c_).is_zero() for c_ in v[9:])
            ctx.ob("C07.zero-forcing", "eval_rhs:vanishing strain rate", okF and okT,
                   f"returned F block {'== L·F' if okF else '!= L·F'}, texture rates {'== 0' if okT else '!= 0'}", gl)
        if not zero_guards:
            ctx.observe("eval_rhs has no dedicated branch for a vanishing strain rate; the division-guard rule decides whether the generic path is safe")
    seen = set()
    n = 0
    for den, dloc, func, nz, facts in R.I.divisions:
        if not func.endswith("eval_rhs"):
            continue
        cells = list(den.flat) if isinstance(den, np.ndarray) else [den]
        for d in cells:
            k = (dloc, keyof_(d))
            if k in seen:
                continue
            seen.add(k)
            ok, why = judge(d, nz, facts)
            n += 1
            ctx.ob("C07.rhs-div", f"eval_rhs:{role(d)}", ok, f"denominator {short(d, 100)} at {dloc}: {why}", dloc, key=("C07.rhs-div", dloc, keyof_(d)))
    ctx.floor("C07.rhs-div", 2)


def keyof_(d):
    return d.key() if hasattr(d, "key") else repr(d)


def role(d):
    d = lift(d) if not hasattr(d, "kind") else d
    ats = alg.atoms_of(alg.unfold_all(d), deep=False) if isinstance(d, E) else set()
    kinds = sorted({a.kind for a in ats})
    if isinstance(d, E) and d.is_const():
        return f"const({d.cval()})"
    if "fn:max" in kinds:
        return "max-abs-eigenvalue-of-strain-rate"
    return "+".join(kinds) or "expr"
