"""C01 — every stored snapshot is a valid texture: append-once, no aliasing writes, sanitisers, layout, seeded init."""

from __future__ import annotations

import ast

import numpy as np

from .. import alg
from ..alg import E, lift, ZERO, ONE
from ..interp import Interp, RaiseSig
from ..values import symarr, Opaque, ClassVal, IntSym, Record, keyof
from .common import public, defloc, short, enum
from . import driver
from .. import flow

LEVEL = "other"
HIST = ("orientations", "fractions")
# who may write the history of a Mineral (module, qualified function) -> why
ALLOWED_WRITERS = {
    ("pydrex.minerals", "Mineral.__post_init__"): "initial snapshot",
    ("pydrex.minerals", "Mineral.update_orientations"): "one append per update, after the solver loop",
    ("pydrex.minerals", "Mineral.load"): "wholesale replacement from file",
    ("pydrex.minerals", "Mineral.from_file"): "fills a freshly constructed object",
    ("pydrex.io", "extract_h5part"): "fills a freshly constructed object",
}


def run(ctx):
    ctx.explanation = (
        "Mineral.update_orientations is interpreted once with abstract records (symbolic previous snapshot, params, velocity-gradient and "
        "position callables) and a stub LSODA whose step() havocs the whole state, so one interpreted loop iteration stands for any number "
        "of solver steps.  Decided from the effect trace and the extracted values: exactly one append per history list, after the last "
        "may-raise solver step, from the method body itself; no history mutation on failing runs; no in-place write reaches a stored "
        "snapshot; appended orientations are clip(.,-1,1) cells and appended fractions are clip(.,0,.)/sum (non-negative, sum == 1 as an "
        "identity); shapes (n,3,3)/(n,); the state-vector layout of y_start, the RHS, the write-back and extract_vars agree; the default "
        "initial snapshot is n copies of 1/n and its RNG is seeded from the seed field.  A who-may-write rule over the whole package lists "
        "every writer of Mineral history.  Not decided: finiteness, orthonormality drift within ODE tolerance, validity of user-supplied initial arrays.")
    ctx.trusted += ["stub model of scipy.integrate.LSODA (constructor arguments recorded; step() calls fun and replaces y; status protocol)",
                    "NumPy view/copy semantics (NumPy itself is the container of the abstract arrays)"]
    ctx.assume("LSODA.step() may change every component of solver.y and may raise / report failure at any step")
    for k, v in RULES.items():
        ctx.rule(k, v)
    loc = ctx.program.loc(ctx.program.module("pydrex.minerals"), ctx.program.require_method("pydrex.minerals.Mineral", "update_orientations")) + " (update_orientations)"
    for N in ((2, 3) if ctx.tier == "quick" else (1, 2, 3, 4)):
        R = driver.run_update(ctx, N=N, nsteps=2)
        appends(ctx, R, N, loc)
        aliasing(ctx, R, N, loc)
        sanitisers(ctx, R, N, loc)
        layout(ctx, R, N, loc)
    # documented boundary values of the parameters, taken concretely (they decide guards that are symbolic above)
    for label, kw in (("chi=0", {"gbs_threshold": 0}), ("M*=0", {"gbm_mobility": 0}), ("chi=0.9", {"gbs_threshold": alg.const(9) / 10})):
        R = driver.run_update(ctx, N=2, nsteps=2, param_overrides=kw)
        sanitisers(ctx, R, 2, loc, tag=label + ":")
        appends(ctx, R, 2, loc, tagx=label + ":")
    for fail_at in (1, 2, 3):
        R = driver.run_update(ctx, N=2, nsteps=3, fail_at=fail_at)
        muts = driver.history_mutations(R)
        ok = R.exc is not None and not muts and len(R.mineral.attrs["orientations"]) == R.nsnap and len(R.mineral.attrs["fractions"]) == R.nsnap
        ctx.ob("C01.fail-untouched", f"solver failure at step {fail_at}", ok,
               f"exception={R.exc!r} history mutations={[(k, w) for _, k, w, _ in muts]}", loc)
    # a mineral whose phase is not part of the assemblage of the call: the update is either refused (nothing stored) or it is an update
    # like any other (exactly one snapshot appended) - never a normal return that stores nothing
    for phase, fabric, assemblage in (("enstatite", "enstatite_AB", ("olivine",)), ("olivine", "olivine_A", ("enstatite",))):
        R = driver.run_update(ctx, phase=phase, fabric=fabric, N=2, nsteps=2, assemblage=assemblage)
        muts = driver.history_mutations(R)
        no = len(R.mineral.attrs["orientations"]) - R.nsnap, len(R.mineral.attrs["fractions"]) - R.nsnap
        if R.exc is not None:
            ok, why = not muts and no == (0, 0), f"refused with {R.exc.typename}; history mutations {[(k, w) for _, k, w, _ in muts]}"
        else:
            ok, why = no == (1, 1), f"returned normally and stored {no[0]} orientation / {no[1]} volume snapshot(s) (an accepted update appends exactly one of each)"
        ctx.ob("C01.append-once", f"{phase} mineral, assemblage {assemblage}", ok, why, loc)
    rhs_manifold(ctx, loc)
    who_may_write(ctx)
    initial(ctx)
    ctx.floor("C01.append-once", 2)
    ctx.floor("C01.who-may-write", 4)


RULES = {
    "C01.append-once": "effect trace of one update: exactly one append to each of self.orientations/self.fractions, no other mutation or rebinding, "
                       "both after the last solver step, issued by update_orientations itself (not by eval_rhs/perform_step)",
    "C01.fail-untouched": "when the solver reports failure at step k the update raises and the history lists are untouched",
    "C01.no-alias": "after the update the previous snapshot arrays hold exactly their previous cells and no in-place event targeted them",
    "C01.range": "appended orientation cells are clip(x,lo,hi) with -1<=lo, hi<=1; appended fractions are clip(x,0,.)/sum with sum_g == 1 identically",
    "C01.shape": "appended snapshot shapes are (n,3,3) and (n,)",
    "C01.layout": "y_start = [F row-major | orientations | fractions]; the RHS, the GBS write-back and extract_vars use the same partition and order",
    "C01.who-may-write": "every function in the package that mutates or rebinds .orientations/.fractions of a Mineral is in the allowed-writer table",
    "C01.rhs-manifold": "on every exit of the ODE right-hand side (generic path and each data-dependent early return) the orientation block of grain g is "
                        "c·(rate returned by core.derivatives for g) + A_g·S with one scalar c for the grain and S + S^T == 0, A_g being the grain's orientation in the "
                        "solver state: first-order conservation of orthonormality (the kernel's own rates are of that form by C03)",
    "C01.initial": "default initial fractions are n copies of 1/n (sum == 1); the RNG of the default orientations is seeded from self.seed; no other RNG on the constructor path",
}


def rhs_manifold(ctx, loc):
    from .c03 import skew_form
    n_exits = 0
    for phase, fabric, regime in (("olivine", "olivine_A", "matrix_dislocation"), ("enstatite", "enstatite_AB", "frictional_yielding"),
                                  ("olivine", "olivine_B", "matrix_diffusion"), ("olivine", "olivine_D", "max_viscosity")):
        N = 2
        R = driver.run_update(ctx, phase=phase, fabric=fabric, regime=regime, N=N, nsteps=1, assemblage=("olivine", "enstatite"))
        tag0 = f"{fabric}:{regime}"
        if R.exc is not None or not R.rhs_calls:
            ctx.ob("C01.rhs-manifold", tag0, False, f"update raised {R.exc!r}", loc)
            continue
        t, y, res = R.rhs_calls[0]
        exits = [("generic path", res, loc)]
        for g, o, gl, fn in R.I.guards:
            if fn.endswith("eval_rhs") and o[0] == "return" and isinstance(o[1], np.ndarray):
                exits.append((f"early return under {short(g, 60)}", o[1], gl))
        for label, v, gl in exits:
            n_exits += 1
            tag = f"{tag0}:{label}"
            if not isinstance(v, np.ndarray) or v.shape != y.shape:
                ctx.ob("C01.rhs-manifold", tag, False, f"right-hand side has shape {getattr(v, 'shape', None)}, state has {y.shape}", gl)
                continue
            ok, why = True, "orientation block = c·(kernel rate) + A·S, S skew"
            for g in range(N):
                X = np.array([alg.unfold_all(lift(c)) for c in v[9 + 9 * g: 18 + 9 * g]], dtype=object).reshape(3, 3)
                Ag = y[9 + 9 * g: 18 + 9 * g].reshape(3, 3)
                stubs = {a for c in X.flat for a in alg.atoms_of(c, deep=True) if a.kind == "sym" and str(a.args[0]).startswith("dA")}
                Rm = np.array([alg.subst(c, {a: ZERO for a in stubs}) if stubs else c for c in X.flat], dtype=object).reshape(3, 3)
                K = X - Rm
                if any(lift(c).t for c in K.flat):
                    mine = {}
                    for a in stubs:
                        mine[str(a.args[0])] = a
                    c0 = None
                    for p_ in range(3):
                        for q_ in range(3):
                            names = [n_ for n_ in mine if n_.endswith(f"[{g},{p_},{q_}]")]
                            if len(names) != 1:
                                ok, why = False, f"grain {g}: cell [{p_},{q_}] does not use the kernel's rate for that cell"
                                break
                            d = E.atom(mine[names[0]])
                            c = alg.derive(lift(K[p_, q_]), {mine[names[0]]: ONE})
                            if alg.decide(lift(K[p_, q_]), c * d)[0] != "equal" or alg.depends(c, stubs):
                                ok, why = False, f"grain {g}: cell [{p_},{q_}] = {short(K[p_, q_], 80)} is not a multiple of the kernel's rate for that cell"
                                break
                            if c0 is None:
                                c0 = c
                            elif alg.decide(c, c0)[0] != "equal":
                                ok, why = False, f"grain {g}: cells of one orientation matrix are scaled differently ({short(c, 40)} vs {short(c0, 40)})"
                                break
                        if not ok:
                            break
                if ok and any(lift(c).t for c in Rm.flat):
                    okr, whyr = skew_form(Rm, Ag, prefix=str(next(iter(alg.atoms_of(Ag[0, 0]))).args[0]).split("[")[0] + "[")
                    if not okr:
                        ok, why = False, f"grain {g}: part of the rate that does not come from the kernel: {whyr}"
                if not ok:
                    break
            ctx.ob("C01.rhs-manifold", tag, ok, why, gl)
    ctx.floor("C01.rhs-manifold", 4)


def appends(ctx, R, N, loc, tagx=""):
    tag = f"{tagx}N={N}"
    if R.exc is not None:
        ctx.ob("C01.append-once", tag, False, f"update raised {R.exc!r} on the generic path", loc)
        return
    muts = driver.history_mutations(R)
    last_step = R.step_marks[-1] if R.step_marks else -1
    kinds = sorted((k, w) for _, k, w, _ in muts)
    ok = kinds == [("list-append", "fractions"), ("list-append", "orientations")]
    after = all(i > last_step for i, *_ in muts)
    # issued by update_orientations itself or by a plain method of Mineral it calls after the loop — never by the nested solver callbacks
    owner = all(e.func.startswith("pydrex.minerals.Mineral.") and e.func.count(".") == 3 for *_, e in muts)
    ctx.ob("C01.append-once", tag, ok and after and owner,
           f"history events {kinds}; after last solver step: {after}; issued by {[e.func for *_, e in muts]}", loc)
    m = R.mineral
    ctx.ob("C01.append-once", tag + ":lengths", len(m.attrs["orientations"]) == R.nsnap + 1 and len(m.attrs["fractions"]) == R.nsnap + 1,
           f"{len(m.attrs['orientations'])}, {len(m.attrs['fractions'])} snapshots after one update", loc)


def aliasing(ctx, R, N, loc):
    if R.exc is not None:
        return
    same = all(a == b for a, b in zip(R.A0.flat, R.A0_saved.flat)) and all(a == b for a, b in zip(R.f0.flat, R.f0_saved.flat)) \
        and all(all(x == y for x, y in zip(a.flat, b.flat)) for a, b in R.older)
    ids = {id(R.A0), id(R.f0)} | {id(a) for a, _ in R.older}
    hits = [e for e in R.I.trace if e.kind in ("store", "inplace") and any(isinstance(d, int) and d in ids for d in e.data)]
    first = R.mineral.attrs["orientations"][R.nsnap - 1] is R.A0 and R.mineral.attrs["fractions"][R.nsnap - 1] is R.f0
    ctx.ob("C01.no-alias", f"N={N}", same and not hits and first,
           f"previous snapshot unchanged: {same}; in-place events on it: {[(e.kind, e.loc) for e in hits]}; still first in history: {first}", loc)


def sanitisers(ctx, R, N, loc, tag=""):
    if R.exc is not None:
        return
    m = R.mineral
    A, f = m.attrs["orientations"][-1], m.attrs["fractions"][-1]
    ctx.ob("C01.shape", f"{tag}N={N}", getattr(A, "shape", None) == (N, 3, 3) and getattr(f, "shape", None) == (N,),
           f"shapes {getattr(A, 'shape', None)}, {getattr(f, 'shape', None)}", loc)
    if not isinstance(A, np.ndarray) or not isinstance(f, np.ndarray):
        return

    def orient():
        for i in np.ndindex(*A.shape):
            c = alg.unfold_all(lift(A[i]))
            ok = False
            if c.is_monomial():
                ((mm, co),) = c.t.items()
                if co == 1 and len(mm) == 1 and mm[0][1] == 1 and mm[0][0].kind == "fn:clip":
                    _, lo, hi = mm[0][0].args
                    ok = isinstance(lo, E) and isinstance(hi, E) and lo.is_const() and hi.is_const() and lo.cval() >= -1 and hi.cval() <= 1
            if not ok:
                return False, f"stored orientation cell {list(i)} is not clipped to [-1, 1]: {short(c)}"
        return True, ""
    ctx.check("C01.range", f"{tag}N={N}:orientations within [-1,1]", orient, loc)

    def fracs():
        cells_ = [alg.unfold_all(lift(x)) for x in f]
        tot = sum(cells_, ZERO)
        v, info = alg.decide(tot, ONE)
        if v != "equal":
            return (False if v == "differ" else "inconclusive"), f"stored fractions do not sum to one identically: sum = {short(tot)}"
        for g, c in enumerate(cells_):
            ok, why = nonneg(c)
            if not ok:
                return False, f"fraction {g} is not non-negative by construction: {why}"
        return True, ""
    ctx.check("C01.range", f"{tag}N={N}:fractions non-negative and normalised", fracs, loc)


def nonneg(e, strict=False, depth=0):
    """Sign analysis: is the normal form >= 0 (> 0 if strict) for all values of its atoms, by construction?
    Sound, incomplete: sums/products of non-negative parts, even powers, clip with lower bound >= 0,
    max-pattern select(x < a, a, x) with a >= 0, positive denominators."""
    e = lift(e)
    if not e.t:
        return (not strict), "zero"
    if depth > 12:
        return False, "nesting too deep"
    some_strict = False
    for m, c in e.t.items():
        if c < 0:
            return False, f"negative coefficient in {short(E({m: c}), 80)}"
        term_strict = True
        for a, x in m:
            if isinstance(x, int) and x % 2 == 0:
                continue
            need_strict = False  # a non-negative denominator keeps the sign wherever the quotient is defined
            ok, why = atom_nonneg(a, need_strict, depth)
            if not ok:
                return False, why
            if not atom_nonneg(a, True, depth)[0]:
                term_strict = False
        some_strict = some_strict or term_strict
    if strict and not some_strict:
        return False, "cannot show strict positivity"
    return True, ""


def atom_nonzero_poly(a, depth):
    return a.kind == "poly" and nonneg(a.args[0], True, depth + 1)[0]


def atom_nonneg(a, strict, depth):
    k = a.kind
    if k in ("psym", "pc", "euler"):
        return True, ""
    if k in ("abs", "root"):
        return (not strict), "abs/root may vanish" if strict else ""
    if k == "poly":
        return nonneg(a.args[0], strict, depth + 1)
    if k == "let":
        return nonneg(a.defn, strict, depth + 1)
    if k == "fn:clip":
        lo = a.args[1]
        if isinstance(lo, E) and lo.is_const() and lo.cval() >= 0:
            return (not strict or lo.cval() > 0), "clipped at zero (may vanish)" if strict else ""
        return False, f"not clipped from below at zero: {a!r}"[:160]
    if k == "fn:select":
        cond, x, y = a.args
        okx, oky = nonneg(x, strict, depth + 1), nonneg(y, strict, depth + 1)
        if okx[0] and oky[0]:
            return True, ""
        # max pattern: select(y < x, x, y) == max(x, y) >= x
        if isinstance(cond, tuple) and len(cond) == 5 and cond[:3] == ("G", "cmp", "Lt") and isinstance(cond[3], E) and isinstance(cond[4], E):
            if cond[3] == lift(y) and cond[4] == lift(x) and okx[0]:
                return True, ""
        if isinstance(cond, tuple) and len(cond) == 5 and cond[:3] == ("G", "cmp", "Gt") and isinstance(cond[3], E) and isinstance(cond[4], E):
            if cond[3] == lift(x) and cond[4] == lift(y) and oky[0]:
                return True, ""
        return False, f"selection between {short(x, 50)} and {short(y, 50)} is not bounded below by zero"
    return False, f"unconstrained quantity {a!r}"[:160]


def layout(ctx, R, N, loc):
    mo = [e for e in R.I.trace if e.kind == "memory-order"]
    ctx.ob("C01.layout", f"N={N}:packing follows the logical index order", not mo,
           f"{[(e.data[0], e.data[1], e.loc) for e in mo[:3]]}: flattening in memory order ('K'/'A') scrambles the state vector for a snapshot that is not "
           "C-contiguous (a transposed view, grain-last storage), while extract_vars unpacks in logical order" if mo else "", loc)
    s = R.solver
    if s is None:
        ctx.ob("C01.layout", f"N={N}", "inconclusive", "no LSODA constructor call was interpreted", loc)
        return
    y0 = s.attrs["y0"]
    exp = list(R.F0.flat) + list(R.A0_saved.flat) + list(R.f0_saved.flat)
    ok = getattr(y0, "shape", None) == (10 * N + 9,) and all(lift(a) == lift(b) for a, b in zip(y0.flat, exp))
    ctx.ob("C01.layout", f"N={N}:y_start", ok, f"y_start shape {getattr(y0, 'shape', None)}", loc)
    # RHS blocks
    if R.rhs_calls and R.deriv_calls:
        t, y, res = R.rhs_calls[0]
        kw = R.deriv_calls[0][1]
        okr = isinstance(res, np.ndarray) and res.shape == (10 * N + 9,)
        if okr:
            dA, df = symarr("dA1", (N, 3, 3)), symarr("df1", (N,))
            blockA = [alg.unfold_all(lift(c)) for c in res[9: 9 + 9 * N]]
            blockf = [alg.unfold_all(lift(c)) for c in res[9 + 9 * N:]]
            # each cell must be (cell of dA / df in packing order) * common scale
            def ratio_ok(block, ref):
                scales = set()
                for c, r in zip(block, ref):
                    q = c / r
                    if alg.atoms_of(q) & alg.atoms_of(r):
                        return False
                    scales.add(q)
                return len(scales) == 1
            okr = ratio_ok(blockA, list(dA.flat)) and ratio_ok(blockf, list(df.flat))
            oo = kw.get("orientations"), kw.get("fractions")
            okr = okr and getattr(oo[0], "shape", None) == (N, 3, 3) and getattr(oo[1], "shape", None) == (N,)
        ctx.ob("C01.layout", f"N={N}:rhs", okr, "rate vector blocks must be [dF | dA*scale | df*scale] in packing order", loc)
        # orientations handed to derivatives come from y[9:9+9N], fractions from the tail
        A_in = kw.get("orientations")
        if isinstance(A_in, np.ndarray) and A_in.shape == (N, 3, 3):
            src_ok = True
            for idx, c in enumerate(A_in.flat):
                at = alg.atoms_of(alg.unfold_all(lift(c)), deep=True)
                names = {str(a.args[0]) for a in at if a.kind == "sym"}
                if names != {f"Yq1[{9 + idx}]"}:
                    src_ok = False
            f_in = kw.get("fractions")
            for g, c in enumerate(f_in.flat):
                at = alg.atoms_of(alg.unfold_all(lift(c)), deep=True)
                names = {str(a.args[0]) for a in at if a.kind == "sym"}
                if N == 1 and lift(c) == ONE:
                    continue  # a single grain: the normalised fraction is identically 1
                if f"Yq1[{9 + 9 * N + g}]" not in names or any(int(n[4:-1]) < 9 + 9 * N for n in names):
                    src_ok = False
            ctx.ob("C01.layout", f"N={N}:extract", src_ok, "extract_vars slices must be y[9:9+9n] (row-major orientations) and y[9+9n:10n+9]", loc)
    # write-back keeps F and uses the same order
    yfin = s.attrs["y"]
    k = R.steps
    okw = all(lift(yfin[i]) == lift(symarr(f"Y{k}", yfin.shape)[i]) for i in range(9))
    ctx.ob("C01.layout", f"N={N}:write-back leaves F block", okw, "solver.y[:9] must be untouched by the GBS write-back", loc)


def who_may_write(ctx):
    """Package-wide scan for mutations / rebinding of .orientations / .fractions attributes."""
    muts = ("append", "extend", "insert", "pop", "remove", "clear", "sort", "reverse", "__setitem__", "__delitem__")
    found = []
    for mname, mod in ctx.program.modules.items():
        for qual, fn in functions_of(mod.tree):
            for n in flow.walk_shallow(fn):
                hit = None
                if isinstance(n, (ast.Assign, ast.AugAssign, ast.AnnAssign, ast.Delete)):
                    targets = n.targets if isinstance(n, (ast.Assign, ast.Delete)) else [n.target]
                    for t in targets:
                        for tt in flow._flatten_targets(t):
                            base = tt
                            while isinstance(base, ast.Subscript):
                                base = base.value
                            if isinstance(base, ast.Attribute) and base.attr in HIST:
                                hit = ("store" if base is tt else "item-store", base.attr)
                elif isinstance(n, ast.Call) and isinstance(n.func, ast.Attribute) and n.func.attr in muts:
                    b = n.func.value
                    if isinstance(b, ast.Attribute) and b.attr in HIST:
                        hit = (n.func.attr, b.attr)
                if hit:
                    found.append((mname, qual, hit, n.lineno, mod))
    # a private helper method of Mineral is an allowed writer when every call of it in the package sits directly in the body of an allowed writer
    def callers_of(method):
        out = []
        for mname2, mod2 in ctx.program.modules.items():
            for qual2, fn2 in functions_of(mod2.tree):
                for n in flow.walk_shallow(fn2):
                    if isinstance(n, ast.Call) and isinstance(n.func, ast.Attribute) and n.func.attr == method:
                        out.append((mname2, qual2))
                for sub in ast.walk(fn2):
                    if sub is not fn2 and isinstance(sub, (ast.FunctionDef, ast.Lambda)):
                        for n in ast.walk(sub):
                            if isinstance(n, ast.Call) and isinstance(n.func, ast.Attribute) and n.func.attr == method:
                                out.append((mname2, qual2 + ".<nested>"))
        return out
    helper_of = {}

    def allowed(mname, qual, depth=0):
        if (mname, qual) in ALLOWED_WRITERS:
            return ALLOWED_WRITERS[(mname, qual)]
        if depth < 3 and mname == "pydrex.minerals" and qual.startswith("Mineral._") and qual.count(".") == 1 and not qual.endswith("__"):
            cs = callers_of(qual.split(".")[1])
            if cs and all(allowed(m2, q2, depth + 1) for m2, q2 in cs):
                helper_of[qual.split(".")[1]] = sorted({q2 for _, q2 in cs})
                return f"private helper called only from {sorted({q2 for _, q2 in cs})}"
        return None
    for mname, qual, hit, line, mod in found:
        why = allowed(mname, qual)
        ok = why is not None
        ctx.ob("C01.who-may-write", f"{mname}.{qual}:{hit[0]}:{hit[1]}", ok,
               ("allowed: " + why) if ok else f"unexpected writer of Mineral history ({hit[0]} of .{hit[1]})",
               f"{ctx.program.relpath(mod.path)}:{line}", key=("C01.who-may-write", mname, qual, hit))
    # update_orientations: the appends must not be inside nested functions and must follow the loop in the CFG
    fn = ctx.program.require_method("pydrex.minerals.Mineral", "update_orientations")
    cfg = flow.CFG(fn)
    helper_appends = {}
    for mname, qual, hit, line, mod in found:
        if hit[0] == "append" and mname == "pydrex.minerals" and qual.split(".")[-1] in helper_of:
            helper_appends.setdefault(qual.split(".")[-1], []).append(hit[1])

    def appended(s):
        """history attributes appended by statement s: a direct append, or a call of a private helper that appends"""
        if not (isinstance(s, ast.Expr) and isinstance(s.value, ast.Call) and isinstance(s.value.func, ast.Attribute)):
            return []
        f = s.value.func
        if f.attr == "append" and isinstance(f.value, ast.Attribute) and f.value.attr in HIST:
            return [f.value.attr]
        if isinstance(f.value, ast.Name) and f.value.id == "self" and f.attr in helper_appends:
            return list(helper_appends[f.attr])
        return []
    app = cfg.nodes_where(lambda s: bool(appended(s)))
    attrs = sorted(a for n in app for a in appended(cfg.stmt[n]))
    loops = cfg.nodes_where(lambda s: isinstance(s, (ast.While, ast.For)))
    idom = cfg.dominators()
    ok = attrs == sorted(HIST) and bool(loops) and all(not cfg.reachable_without(a, l, ()) for a in app for l in loops) \
        and all(any(cfg.dominates(l, a, idom) for l in loops) for a in app)
    ctx.ob("C01.who-may-write", "update_orientations: appends follow the solver loop on every path (CFG)", ok,
           f"history appends in the method body: {attrs}, {len(loops)} loop(s)", f"{ctx.program.relpath(ctx.program.module('pydrex.minerals').path)}:{fn.lineno}")


def functions_of(tree):
    out = []

    def rec(body, prefix):
        for st in body:
            if isinstance(st, ast.FunctionDef):
                out.append((prefix + st.name, st))
                # nested functions are attributed to their outermost method/function (walk_shallow skips them) -> add separately
                for sub in ast.walk(st):
                    if isinstance(sub, ast.FunctionDef) and sub is not st:
                        out.append((prefix + st.name, sub))
            elif isinstance(st, ast.ClassDef):
                rec(st.body, prefix + st.name + ".")
            elif isinstance(st, (ast.If, ast.Try, ast.With)):
                rec(getattr(st, "body", []), prefix)
                rec(getattr(st, "orelse", []), prefix)
    rec(tree.body, "")
    return out


def initial(ctx):
    loc = ctx.program.loc(ctx.program.module("pydrex.minerals"), ctx.program.require_method("pydrex.minerals.Mineral", "__post_init__")) + " (__post_init__)"
    for N in (2, 3, 7):
        I = Interp(ctx.program)
        cls = public(ctx, I, "pydrex.minerals.Mineral")
        seed = alg.sym("seed")
        try:
            m = I.call(cls, (), {"n_grains": N, "seed": seed})
        except RaiseSig as r:
            ctx.ob("C01.initial", f"N={N}", False, f"default construction raises {r.exc.typename}", loc)
            continue
        fr = m.attrs.get("fractions")
        okf = isinstance(fr, list) and len(fr) == 1 and isinstance(fr[0], np.ndarray) and fr[0].shape == (N,) \
            and all(lift(c) == alg.const(1) / N for c in fr[0])
        ctx.ob("C01.initial", f"N={N}:uniform volumes", okf, f"fractions = {fr!r}"[:160], loc)
        rng = [e for e in I.trace if e.kind == "rng"]
        seeded = bool(rng) and all(str(seed.key()) in str(e.data) for e in rng)
        ctx.ob("C01.initial", f"N={N}:seeded rng", seeded and len(m.attrs.get("orientations", [])) == 1,
               f"rng events {[e.data[0] for e in rng]}; every one must receive self.seed", loc)
