"""C14 — M-index: Hamilton product, uniform group action, lattice tables, index formula, interval coverage, ordered batching."""

from __future__ import annotations

import ast
import math

import numpy as np

from .. import alg
from ..alg import E, lift, ZERO, ONE, Abs
from ..interp import Interp, RaiseSig, Env
from ..values import symarr, mkarr, Native, Record, Opaque, ClassVal, EnumMember, FuncVal
from .common import public, defloc, short, ident, ident_arr, call_public, Abort
from .. import flow

LEVEL = "other"
GRIMMER = {"triclinic": (1, 1), "monoclinic": (2, 2), "orthorhombic": (2, 4), "rhombohedral": (3, 6), "tetragonal": (4, 8), "hexagonal": (6, 12)}
THETA_MAX = {"triclinic": 180, "monoclinic": 180, "orthorhombic": 120, "rhombohedral": 120, "tetragonal": 90, "hexagonal": 90}


def run(ctx):
    ctx.explanation = (
        "ALG: utils.quat_product equals the Hamilton product (scalar-last) as four bilinear forms; misorientation_index equals "
        "theta_max/(2 nbins) * sum |theory(e_i, e_{i+1}) - observed_i| on adjacent bin edges.  TAB: LatticeSystem values equal Grimmer's "
        "table, _max_misorientation and symmetry_operations cover all six members and reject anything else.  FLOW/TAB: every symmetry "
        "operator is a unit quaternion from a rotation constructor and is applied through quat_product (left multiplication commutes with "
        "the right multiplication induced by a sample-frame rotation — a necessary condition of frame independence); the histogram uses "
        "range (0, theta_max) with density=True.  Interval coverage by constant folding per lattice system: the union of the branch "
        "intervals of misorientations_random must be exactly [0, theta_max].  Batched variant: both pool branches use an order-preserving map "
        "over the stack and store at the enumerate index; the Ray branch builds its list in stack order.  Not decided: the numeric range, "
        "the ~0/~1 limits, quadrature error, closure of the operator sets, worker scheduling.")
    ctx.trusted += ["Grimmer (1979) Table 1 as transcribed in pdxsa/checks/c14.py", "pool.imap preserves input order; imap_unordered does not"]
    for k, v in RULES.items():
        ctx.rule(k, v)
    I = Interp(ctx.program)
    hamilton(ctx, I)
    tables(ctx, I)
    group_action(ctx, I)
    index_formula(ctx)
    angles(ctx)
    density_by_interpretation(ctx)
    batching(ctx)


RULES = {
    "C14.hamilton": "quat_product(q1, q2) == (w1 v2 + w2 v1 + v1 x v2, w1 w2 - v1·v2) in scalar-last layout",
    "C14.tables": "LatticeSystem member values == Grimmer (a, b); _max_misorientation == theta_max row; both dispatchers cover all six members and raise ValueError otherwise",
    "C14.group-action": "every symmetry operator is a quaternion produced by a rotation constructor and every application goes through quat_product",
    "C14.group-order": "the number of symmetry operators of each lattice system equals the order b of its proper rotation group (Grimmer's table): a shorter or longer list is not the group, so symmetry-equivalent orientations are not identified",
    "C14.index": "misorientation_index == theta_max/(2·nbins)·sum_i |theory(edge_i, edge_{i+1}) - count_i|; histogram range (0, theta_max), density=True, theta_max bins",
    "C14.angles": "misorientation_angles(q1, q2)[n] == min over variant pairs (i, j) of (360/pi)·arccos(|clip(q1[n,i]·q2[n,j], -1, 1)|) for every pair of variant counts, "
                  "including a single variant each (the clip is what keeps numerically identical float32 grains from producing NaN)",
    "C14.coverage": "per lattice system the union of the branch intervals of misorientations_random equals [0, theta_max] exactly",
    "C14.normalisation": "per lattice system the theoretical density, as evaluated by the index on 1-degree bins over [0, theta_max], sums to 1 within 1e-3 "
                         "(constant folding of the closed-form branch expressions; same table-agreement argument as coverage)",
    "C14.batch-order": "misorientation_indices distributes with an order-preserving map over orientation_stack and stores results at the enumerate index",
}


def hamilton(ctx, I):
    dotted = "pydrex.utils.quat_product"
    loc = defloc(ctx, dotted)
    q1, q2 = symarr("p", (4,)), symarr("q", (4,))
    try:
        out = call_public(ctx, I, dotted, q1.copy(), q2.copy())
    except Abort:
        return
    out = list(out) if isinstance(out, (list, tuple)) else list(getattr(out, "flat", []))
    v1, w1, v2, w2 = q1[:3], q1[3], q2[:3], q2[3]
    cr = [v1[1] * v2[2] - v1[2] * v2[1], v1[2] * v2[0] - v1[0] * v2[2], v1[0] * v2[1] - v1[1] * v2[0]]
    ref = [w1 * v2[i] + w2 * v1[i] + cr[i] for i in range(3)] + [w1 * w2 - sum((v1[i] * v2[i] for i in range(3)), ZERO)]
    if len(out) != 4:
        ctx.ob("C14.hamilton", "utils.quat_product:shape", False, f"returned {len(out)} components", loc)
        return
    for i, nm in enumerate("xyzw"):
        ident(ctx, "C14.hamilton", f"utils.quat_product:{nm}", out[i], ref[i], loc)
    ctx.floor("C14.hamilton", 4)


def lattice(I):
    cls = I.resolve("pydrex.geometry.LatticeSystem")
    return cls


def tables(ctx, I):
    loc = defloc(ctx, "pydrex.geometry.LatticeSystem")
    cls = public(ctx, I, "pydrex.geometry.LatticeSystem")
    members = dict(cls.members) if isinstance(cls, ClassVal) else {}
    ctx.ob("C14.tables", "LatticeSystem members", set(members) == set(GRIMMER), f"members {sorted(members)}", loc)
    for name, m in members.items():
        ctx.ob("C14.tables", f"LatticeSystem.{name}", tuple(m.value) == GRIMMER.get(name), f"value {m.value}, Grimmer {GRIMMER.get(name)}", loc)
    f = public(ctx, I, "pydrex.stats._max_misorientation")
    g = public(ctx, I, "pydrex.geometry.symmetry_operations")
    floc, gloc = defloc(ctx, "pydrex.stats._max_misorientation"), defloc(ctx, "pydrex.geometry.symmetry_operations")
    for name, m in members.items():
        try:
            got = I.call(f, (m,))
            ctx.ob("C14.tables", f"_max_misorientation({name})", int(got) == THETA_MAX.get(name), f"{got} vs {THETA_MAX.get(name)}", floc)
        except RaiseSig as r:
            ctx.ob("C14.tables", f"_max_misorientation({name})", False, f"raises {r.exc.typename}", floc)
    for bad in ("cubic", None, (5, 5)):
        for fn_, fl in ((f, floc), (g, gloc)):
            try:
                I.call(fn_, (bad,))
                ctx.ob("C14.tables", f"{fn_.name}({bad!r})", False, "unsupported lattice system accepted", fl)
            except RaiseSig as r:
                ctx.ob("C14.tables", f"{fn_.name}({bad!r})", r.exc.typename == "ValueError", f"raised {r.exc.typename}", fl)
    ctx.floor("C14.tables", 18)


def group_action(ctx, I0):
    gloc = defloc(ctx, "pydrex.geometry.symmetry_operations")

    def rot_ctor(kind):
        def f(I_, *a, **k):
            r = Record(None, {"ctor": kind}, label="Rotation")
            # a stack of rotation vectors / quaternions / angle triples gives a stack of rotations
            rows = a[-1].shape[0] if a and isinstance(a[-1], np.ndarray) and a[-1].ndim == 2 else None
            if rows is None:
                r.native_methods["as_quat"] = Native("as_quat", lambda I2: mkarr([alg.Fn("unitquat", kind, len(I2.trace), i) for i in range(4)]))
            else:
                r.native_methods["as_quat"] = Native("as_quat", lambda I2: mkarr([[alg.Fn("unitquat", kind, len(I2.trace), k_, i) for i in range(4)] for k_ in range(rows)]))
            return r
        return Native(kind, f)
    ext = {"scipy.spatial.transform.Rotation.identity": rot_ctor("identity"), "scipy.spatial.transform.Rotation.from_rotvec": rot_ctor("from_rotvec"),
           "scipy.spatial.transform.Rotation.from_euler": rot_ctor("from_euler"), "scipy.spatial.transform.Rotation.from_quat": rot_ctor("from_quat")}
    I = Interp(ctx.program, externals=ext)
    cls = public(ctx, I, "pydrex.geometry.LatticeSystem")
    g = public(ctx, I, "pydrex.geometry.symmetry_operations")
    expect_n = {"triclinic": 1}
    for name, m in cls.members.items():
        try:
            ops = I.call(g, (m,))
        except RaiseSig as r:
            ctx.ob("C14.group-action", f"geometry.symmetry_operations:{name}", False, f"raises {r.exc.typename}", gloc)
            continue
        order = GRIMMER[name][1]
        ctx.ob("C14.group-order", f"geometry.symmetry_operations:{name}", len(ops) == order,
               f"{len(ops)} operators listed, the rotation group of the {name} system has order {order}", gloc)
        bad = [getattr(o, "shape", None) for o in ops if not (isinstance(o, np.ndarray) and o.shape == (4,) and all(
            any(a.kind == "fn:unitquat" for a in alg.atoms_of(lift(c))) for c in o))]
        ctx.ob("C14.group-action", f"geometry.symmetry_operations:{name}", not bad and len(ops) >= 1,
               f"{len(ops)} operators; {len(bad)} of them are not rotation quaternions (shapes {bad[:3]}): matrices applied with @ are not a group action "
               "through quat_product, so the index is not invariant under sample-frame rotations" if bad else f"{len(ops)} operators", gloc)
    # every application in misorientation_hist goes through quat_product
    fn = ctx.program.require("pydrex.stats.misorientation_hist")
    mod = ctx.program.module("pydrex.stats")
    hloc = defloc(ctx, "pydrex.stats.misorientation_hist")
    # the loop variable that ranges over the symmetry operators (for qs in symmetry_ops / enumerate(symmetry_ops))
    opvars = set()
    for lp in ast.walk(fn):
        if isinstance(lp, (ast.For, ast.comprehension)):
            it_ = lp.iter
            inner = it_.args[0] if isinstance(it_, ast.Call) and (flow.dotted(it_.func) or "") == "enumerate" and it_.args else it_
            if isinstance(inner, ast.Name) and "symmetry" in inner.id:
                tgt = lp.target
                names = [tgt] if isinstance(tgt, ast.Name) else [e for e in getattr(tgt, "elts", []) if isinstance(e, ast.Name)]
                if names:
                    opvars.add(names[-1].id)
    # every value stored into an array that is computed from an operator is an application of that operator to a grain
    stores = [s for s in ast.walk(fn) if isinstance(s, ast.Assign) and isinstance(s.targets[0], ast.Subscript)
              and any(isinstance(x, ast.Name) and x.id in opvars for x in ast.walk(s.value))]
    via = [s for s in stores if isinstance(s.value, ast.Call) and (flow.dotted(s.value.func) or "").split(".")[-1] == "quat_product"]
    other = [s for s in stores if s not in via]
    ctx.ob("C14.group-action", "stats.misorientation_hist:applications", len(via) >= 1 and not other,
           f"{len(via)} application(s) through quat_product, {len(other)} by other means (lines {[s.lineno for s in other]})", hloc)
    # left multiplication by the operator: quat_product(op, q)
    left = all(len(s.value.args) == 2 and isinstance(s.value.args[0], ast.Name) and s.value.args[0].id in opvars
               and not any(isinstance(x, ast.Name) and x.id in opvars for x in ast.walk(s.value.args[1])) for s in via)
    ctx.ob("C14.group-action", "stats.misorientation_hist:operator multiplies from the left on both grains", left and len(via) >= 1, "", hloc)
    ctx.floor("C14.group-action", 8)


def index_formula(ctx):
    dotted = "pydrex.diagnostics.misorientation_index"
    loc = defloc(ctx, dotted)
    nb = 4
    hist_kw = {}
    for name, th in THETA_MAX.items():
        counts, edges = symarr("c", (nb,)), symarr("e", (nb + 1,))

        def hist(I_, orientations, system, bins=None):
            return (counts, edges)

        def theory(I_, lo, hi, system):
            return alg.Fn("theory", lift(lo), lift(hi), getattr(system, "name", str(system)))
        I = Interp(ctx.program, stubs={"pydrex.stats.misorientation_hist": Native("hist", hist), "pydrex.stats.misorientations_random": Native("theory", theory)})
        cls = public(ctx, I, "pydrex.geometry.LatticeSystem")
        f = public(ctx, I, dotted)
        try:
            got = I.call(f, (symarr("A", (3, 3, 3)), cls.members[name]))
        except RaiseSig as r:
            ctx.ob("C14.index", f"misorientation_index:{name}", False, f"raises {r.exc.typename}", loc)
            continue
        ref = lift(th) / (2 * nb) * sum((Abs(alg.Fn("theory", edges[i], edges[i + 1], name) - counts[i]) for i in range(nb)), ZERO)
        ident(ctx, "C14.index", f"misorientation_index:{name}", got, ref, loc)
    # the index is a function of its arguments only: no module-level state is written on its path
    ctx.rule("C14.pure", "no function on the M-index path writes module-level state (a memo shared between lattice systems or snapshots would make the result depend on call history)")
    roots = [("pydrex.diagnostics", "misorientation_index"), ("pydrex.diagnostics", "misorientation_indices"), ("pydrex.stats", "misorientation_hist"),
             ("pydrex.stats", "misorientations_random"), ("pydrex.stats", "_max_misorientation"), ("pydrex.geometry", "misorientation_angles"),
             ("pydrex.geometry", "symmetry_operations"), ("pydrex.utils", "quat_product")]
    for (mn, fname), (mod, node) in sorted(flow.reachable_functions(ctx.program, roots).items()):
        eff = flow.effects_of_function(ctx.program, mod, node)
        bad = [(k, n_, ln) for k, n_, ln in eff if k == "global" or (k in ("attr-store-free", "subscript-store-free", "aug-free")
                                                                   and (n_.split(".")[0].split("[")[0] in mod.defs or n_.split(".")[0].split("[")[0] in mod.imports))]
        ctx.ob("C14.pure", f"{mn.split('.')[-1]}.{fname}", not bad, "writes module-level state: " + ", ".join(f"{k} {n_} (line {ln})" for k, n_, ln in bad),
               f"{ctx.program.relpath(mod.path)}:{node.lineno}")
    ctx.floor("C14.pure", 6)
    # histogram call inside misorientation_hist
    rec = {}

    def histogram(I_, data, **kw):
        rec.update(kw)
        return (symarr("c", (3,)), symarr("e", (4,)))
    ext = {"numpy.histogram": Native("histogram", histogram)}

    def quats(I_, *a, **k):
        r = Record(None, {}, label="Rotation")
        r.native_methods["as_quat"] = Native("as_quat", lambda I2: symarr("Q", (3, 4)))
        return r
    ext["scipy.spatial.transform.Rotation.from_matrix"] = Native("from_matrix", quats)
    for nm in ("identity", "from_rotvec"):
        ext["scipy.spatial.transform.Rotation." + nm] = Native(nm, quats_single)
    hloc = defloc(ctx, "pydrex.stats.misorientation_hist")
    for name in ("triclinic", "tetragonal"):
        rec.clear()
        I = Interp(ctx.program, externals=ext, stubs={"pydrex.geometry.misorientation_angles": Native("angles", lambda I_, a, b: Opaque("angles"))})
        cls = public(ctx, I, "pydrex.geometry.LatticeSystem")
        try:
            I.call(public(ctx, I, "pydrex.stats.misorientation_hist"), (symarr("A", (3, 3, 3)), cls.members[name]))
        except RaiseSig as r:
            ctx.ob("C14.index", f"misorientation_hist:{name}", False, f"raises {r.exc.typename} (line {getattr(r.exc.node, 'lineno', '?')})", hloc)
            continue
        rng = rec.get("range")
        ok = rng is not None and len(rng) == 2 and lift(rng[0]).is_zero() and lift(rng[1]) == lift(THETA_MAX[name]) and rec.get("density") is True \
            and int(rec.get("bins", -1)) == THETA_MAX[name]
        ctx.ob("C14.index", f"misorientation_hist:{name}:histogram(range=(0, theta_max), density=True, 1-degree bins)", ok, f"histogram kwargs {rec}", hloc)
    ctx.floor("C14.index", 8)


def angles(ctx):
    """geometry.misorientation_angles interpreted on symbolic quaternion stacks for several (A, B) variant counts."""
    from ..values import symarr
    dotted = "pydrex.geometry.misorientation_angles"
    loc = defloc(ctx, dotted)
    for A, B in ((1, 1), (2, 1), (1, 2), (2, 3)):
        I = Interp(ctx.program)
        N = 2
        q1, q2 = symarr("q1", (N, A, 4)), symarr("q2", (N, B, 4))
        tag = f"variants ({A},{B})"
        try:
            out = I.call(public(ctx, I, dotted), (q1.copy(), q2.copy()))
        except RaiseSig as r:
            ctx.ob("C14.angles", tag, False, f"raises {r.exc.typename} on generic input", loc)
            continue
        if not (isinstance(out, np.ndarray) and out.shape == (N,)):
            ctx.ob("C14.angles", tag, False, f"returned {getattr(out, 'shape', out)!r}, expected one angle per row", loc)
            continue
        for n in range(N):
            cands = []
            for i in range(A):
                for j in range(B):
                    dot = sum((lift(q1[n, i, k]) * lift(q2[n, j, k]) for k in range(4)), ZERO)
                    cands.append(360 * alg.Arccos(alg.Abs(alg.Fn("clip", dot, lift(-1), lift(1)))) / alg.PI)
            got = lift(out[n])
            # the minimum is over an unordered set of candidates: compare as sets when both sides are min(...)
            got_set = None
            if got.is_monomial():
                ((m_, c_),) = got.t.items()
                if c_ == 1 and len(m_) == 1 and m_[0][1] == 1 and m_[0][0].kind == "fn:min" and isinstance(m_[0][0].args[0], tuple):
                    got_set = {lift(t_) for t_ in m_[0][0].args[0]}
            if len(cands) > 1 and got_set is not None and got_set == set(cands):
                ctx.ob("C14.angles", f"{tag}: row {n}", True, "", loc)
            else:
                ref = cands[0] if len(cands) == 1 else alg.Fn("min", tuple(cands))
                ident(ctx, "C14.angles", f"{tag}: row {n}", got, ref, loc)
        # domain guard: the stored quaternions are float32, so the dot product of two numerically identical unit quaternions can round
        # above 1; every arccos on this path must see an argument that is bounded by construction
        def bounded(e):
            if isinstance(e, alg.Atom):
                e = E.atom(e)
            e = lift(e)
            if e.is_const():
                return -1 <= e.cval() <= 1
            if not e.is_monomial():
                return False
            ((m_, c_),) = e.t.items()
            if abs(c_) != 1 or len(m_) != 1 or m_[0][1] != 1:
                return False
            at = m_[0][0]
            if at.kind == "fn:clip" and len(at.args) == 3 and at.args[1] != "none" and at.args[2] != "none":
                lo, hi = lift(at.args[1]), lift(at.args[2])
                return lo.is_const() and hi.is_const() and lo.cval() >= -1 and hi.cval() <= 1
            if at.kind == "abs":
                return bounded(at.args[0])
            if at.kind in ("fn:min", "fn:max") and isinstance(at.args[0], tuple):
                return all(bounded(t_) for t_ in at.args[0])
            return False
        acos = [a_ for n in range(N) for a_ in alg.atoms_of(lift(out[n]), deep=True) if a_.kind == "fn:arccos"]
        bad = [a_ for a_ in acos if not bounded(a_.args[0])]
        ctx.ob("C14.angles", f"{tag}: every arccos argument is clipped to [-1, 1]", bool(acos) and not bad,
               (f"arccos({short(bad[0].args[0], 100)}): for numerically identical float32 grains the dot product can round above 1 and the angle becomes NaN"
                if bad else f"{len(acos)} arccos term(s)"), loc)
    ctx.floor("C14.angles", 8)
    # mismatched stacks are rejected
    I = Interp(ctx.program)
    try:
        I.call(public(ctx, I, dotted), (symarr("q1", (2, 1, 4)), symarr("q2", (3, 1, 4))))
        ctx.ob("C14.angles", "stacks of different length are rejected", False, "accepted", loc)
    except RaiseSig as r:
        ctx.ob("C14.angles", "stacks of different length are rejected", r.exc.typename == "ValueError", f"raises {r.exc.typename}", loc)


def quats_single(I_, *a, **k):
    r = Record(None, {}, label="Rotation")
    rows = a[-1].shape[0] if a and isinstance(a[-1], np.ndarray) and a[-1].ndim == 2 else None      # a stack of rotation vectors
    r.native_methods["as_quat"] = Native("as_quat", lambda I2: symarr("S", (4,) if rows is None else (rows, 4)))
    return r


# ---- interval coverage by constant folding of misorientations_random

class NotFoldable(Exception):
    pass


FOLD_DEFS = {}      # module-level function definitions of pydrex.stats (helpers that only compute constants are folded through)


def density_by_interpretation(ctx):
    """The theoretical random-misorientation density, interpreted on the finite table (lattice system) x (one-degree bin): all arguments are
    constants of the program, so the interpreter folds every comparison and returns closed forms, which are evaluated exactly.  Decided per
    system: (coverage) every bin of [0, theta_max] is served by a branch (no AssertionError), and no mass lies in bins beyond theta_max;
    (normalisation) the bins of [0, theta_max] sum to 1 within the quadrature error 1e-3.  Independent of how the function is written."""
    from ..interp import RaiseSig
    from ..values import Unsupported
    dotted = "pydrex.stats.misorientations_random"
    loc = defloc(ctx, dotted)
    I = Interp(ctx.program)
    f = public(ctx, I, dotted)
    cls = I.resolve("pydrex.geometry.LatticeSystem")
    for name in GRIMMER:
        th = THETA_MAX[name]
        member = cls.members.get(name)
        construct = f"stats.misorientations_random:{name}"
        vals, holes, err = [], [], None
        for k in range(0, min(180, th + 20)):
            try:
                v = I.call(f, (k, k + 1, member))
                x = alg.evalnum(lift(v)) if not isinstance(v, (int, float)) else float(v)
                if x != x:
                    raise alg.AlgError("the density is NaN")
                vals.append((k, x))
            except RaiseSig as r:
                if k < th:
                    holes.append((k, r.exc.typename))
                vals.append((k, None))
            except (alg.AlgError, Unsupported, ZeroDivisionError, ValueError, OverflowError) as ex:
                if k < th:
                    err = f"bin [{k}, {k + 1}]: {str(ex)[:100]}"
                    break
                vals.append((k, None))
        if err is not None:
            ctx.ob("C14.coverage", construct, "inconclusive", f"the density could not be evaluated ({err})", loc)
            ctx.ob("C14.normalisation", construct, "inconclusive", f"the density could not be evaluated ({err})", loc)
            continue
        inside = [x for k, x in vals if k < th and x is not None]
        beyond = [(k, x) for k, x in vals if k >= th and x is not None and abs(x) > 1e-9]
        total = sum(inside)
        if holes:
            first = holes[0][0]
            ctx.ob("C14.coverage", construct, False,
                   f"misorientations_random raises {holes[0][1]} for {len(holes)} one-degree bins of [0, {th}], the first at [{first}, {first + 1}]: no branch of the "
                   "density serves them although they are inside the histogram range", loc)
            ctx.ob("C14.normalisation", construct, False, f"the density is not defined on all of [0, {th}] (first failing bin [{first}, {first + 1}])", loc)
            continue
        if beyond:
            ctx.ob("C14.coverage", construct, False,
                   f"the theoretical density has support beyond theta_max = {th} (non-zero up to {beyond[-1][0] + 1} degrees): integrated over the histogram range "
                   f"it gives {total:.3f} instead of 1, i.e. the support table and the range table disagree", loc)
        else:
            ctx.ob("C14.coverage", construct, True, f"{len(inside)} bins of [0, {th}] evaluated, no mass beyond", loc)
        ctx.ob("C14.normalisation", construct, abs(total - 1.0) <= 1e-3,
               f"sum over 1-degree bins of the theoretical density on [0, {th}] = {total:.4f} (must be 1 within 1e-3)", loc)
    ctx.floor("C14.coverage", 6)
    ctx.floor("C14.normalisation", 6)


def fold_assign(stmt, env, only_new=False):
    """env[name] = folded value for `name = expr` and `a, b, c = expr`; silently skips what cannot be folded"""
    if not isinstance(stmt, ast.Assign) or len(stmt.targets) != 1:
        return
    t = stmt.targets[0]
    try:
        if isinstance(t, ast.Name):
            if only_new and t.id in env:
                return
            env[t.id] = fold(stmt.value, env)
        elif isinstance(t, (ast.Tuple, ast.List)) and all(isinstance(x, ast.Name) for x in t.elts):
            v = fold(stmt.value, env)
            if isinstance(v, tuple) and len(v) == len(t.elts):
                for x, vv in zip(t.elts, v):
                    if not (only_new and x.id in env):
                        env[x.id] = vv
    except (ValueError, KeyError, NotFoldable, ZeroDivisionError):
        pass


def fold(node, env):
    """Evaluate a constant numeric expression (np.* -> math.*) with names from env; raises on anything else."""
    if isinstance(node, ast.Constant) and isinstance(node.value, (int, float)):
        return node.value
    if isinstance(node, ast.Name):
        return env[node.id]
    if isinstance(node, ast.BinOp):
        a, b = fold(node.left, env), fold(node.right, env)
        try:
            if isinstance(node.op, ast.Add):
                return a + b
            if isinstance(node.op, ast.Sub):
                return a - b
            if isinstance(node.op, ast.Mult):
                return a * b
            if isinstance(node.op, ast.Div):
                return a / b if b else float("nan")
            if isinstance(node.op, ast.Pow):
                return a ** b
        except OverflowError:
            return float("inf")
        raise NotFoldable("operator")
    if isinstance(node, ast.UnaryOp) and isinstance(node.op, ast.USub):
        return -fold(node.operand, env)
    if isinstance(node, ast.Call):
        d = (flow.dotted(node.func) or "").split(".")[-1]
        args = [fold(a, env) for a in node.args]
        table = {"tan": math.tan, "arctan": math.atan, "sqrt": math.sqrt, "deg2rad": math.radians, "rad2deg": math.degrees, "round": round,
                 "sin": math.sin, "cos": math.cos, "arccos": math.acos, "arcsin": math.asin, "exp": math.exp, "log": math.log, "radians": math.radians, "degrees": math.degrees, "abs": abs, "float": float, "int": int}
        if d in table:
            return table[d](*args)
        callee = FOLD_DEFS.get(d) if isinstance(node.func, ast.Name) else None
        if isinstance(callee, ast.FunctionDef) and not node.keywords and len(callee.args.args) == len(args):
            # a helper that only computes constants from its arguments: straight-line assignments and one return
            inner = {a.arg: v for a, v in zip(callee.args.args, args)}
            for st in callee.body:
                if isinstance(st, ast.Expr) and isinstance(st.value, ast.Constant):
                    continue
                if isinstance(st, ast.Assign):
                    fold_assign(st, inner)
                elif isinstance(st, ast.Return) and st.value is not None:
                    return fold(st.value, inner)
                else:
                    raise NotFoldable(f"helper {d} is not straight-line")
    if isinstance(node, ast.Tuple):
        return tuple(fold(e, env) for e in node.elts)
    raise NotFoldable(f"not a foldable constant: {ast.unparse(node)}")


def coverage(ctx, I):
    dotted = "pydrex.stats.misorientations_random"
    loc = defloc(ctx, dotted)
    fn = ctx.program.require(dotted)
    FOLD_DEFS.clear()
    FOLD_DEFS.update({k: v for k, v in ctx.program.module("pydrex.stats").defs.items() if isinstance(v, ast.FunctionDef)})
    # the chain variable: find the first If whose test is a chained comparison lo <= x <= hi on one name
    chain = None
    for n in ast.walk(fn):
        if isinstance(n, ast.If) and isinstance(n.test, ast.Compare) and len(n.test.ops) == 2 and isinstance(n.test.comparators[0], ast.Name):
            var = n.test.comparators[0].id
            if var not in ("low", "high"):
                chain = (n, var)
                break
    if chain is None:
        ctx.ob("C14.coverage", "chain", "inconclusive", "no interval chain found in misorientations_random", loc)
        return
    node, var = chain
    arms = []
    cur = node
    while True:
        arms.append(cur)
        if len(cur.orelse) == 1 and isinstance(cur.orelse[0], ast.If):
            cur = cur.orelse[0]
        else:
            tail = cur.orelse
            break
    falls_to_assert = any(isinstance(s, ast.Assert) for s in tail) or not tail
    assigns = [s for s in fn.body if isinstance(s, ast.Assign) and isinstance(s.targets[0], ast.Name)]
    for name, (M, N) in GRIMMER.items():
        env = {"M": M, "N": N, "max_θ": THETA_MAX[name]}
        try:
            for s in fn.body:
                fold_assign(s, env, only_new=True)
            ivs = []
            for a in arms:
                t = a.test
                if not (isinstance(t, ast.Compare) and len(t.ops) == 2 and all(isinstance(o, (ast.LtE, ast.Lt)) for o in t.ops)):
                    raise NotFoldable("unsupported arm test " + ast.unparse(t))
                lo, hi = fold(t.left, env), fold(t.comparators[1], env)
                if lo <= hi:
                    ivs.append((lo, hi))
        except (ValueError, KeyError, NotFoldable) as ex:
            ctx.ob("C14.coverage", f"stats.misorientations_random:{name}", "inconclusive", f"constant folding failed: {ex}", loc)
            continue
        th = THETA_MAX[name]
        # union of closed intervals, first-match order is irrelevant for coverage
        ivs.sort()
        reach = 0.0
        gap = None
        covered_from_zero = ivs and ivs[0][0] <= 0
        for lo, hi in ivs:
            if lo > reach + 1e-9:
                gap = (reach, lo)
                break
            reach = max(reach, hi)
        top = max(hi for lo, hi in ivs) if ivs else 0
        short_ = gap is not None and gap[0] < th - 1e-9 or reach < th - 1e-9
        long_ = reach > th + 1e-9 and gap is None
        if not covered_from_zero or short_:
            hole = gap if gap is not None and gap[0] < th else (reach, th)
            ctx.ob("C14.coverage", f"stats.misorientations_random:{name}", False,
                   f"branch intervals {[(round(a, 3), round(b, 3)) for a, b in ivs]} leave ({hole[0]:.3f}, {min(hole[1], th):.3f}] of [0, {th}] uncovered"
                   + (": `assert False` is reachable for admissible angles" if falls_to_assert else ""), loc)
        elif long_:
            ctx.ob("C14.coverage", f"stats.misorientations_random:{name}", False,
                   f"support of the density formula extends to {reach:.3f} but the histogram range / admissible maximum is {th}: the two tables disagree "
                   f"(mass beyond theta_max is ignored by the index)", loc)
        else:
            ctx.ob("C14.coverage", f"stats.misorientations_random:{name}", True, f"intervals {[(round(a, 3), round(b, 3)) for a, b in ivs]}", loc)
    ctx.floor("C14.coverage", 6)


def density_at(arms, tail, env0, var, theta):
    """Value contributed by misorientations_random's branch chain for one bin edge (constant folding of one arm)."""
    env = dict(env0)
    env[var] = theta
    for a in arms:
        t = a.test
        lo, hi = fold(t.left, env), fold(t.comparators[1], env)
        if lo <= theta <= hi:
            val = 0.0
            for s in a.body:
                if isinstance(s, ast.Assign) and isinstance(s.targets[0], ast.Name):
                    env[s.targets[0].id] = fold(s.value, env)
                elif isinstance(s, (ast.AugAssign, ast.Assign)):
                    val = fold(s.value, env)
            return val
    return None


def normalisation(ctx, I):
    dotted = "pydrex.stats.misorientations_random"
    loc = defloc(ctx, dotted)
    fn = ctx.program.require(dotted)
    loop = [n for n in ast.walk(fn) if isinstance(n, ast.For) and isinstance(n.target, ast.Tuple)]
    chain = None
    for n in ast.walk(fn):
        if isinstance(n, ast.If) and isinstance(n.test, ast.Compare) and len(n.test.ops) == 2 and isinstance(n.test.comparators[0], ast.Name) \
                and n.test.comparators[0].id not in ("low", "high"):
            chain = n
            break
    if chain is None or not loop:
        ctx.ob("C14.normalisation", "chain", "inconclusive", "no interval chain found", loc)
        return
    var = chain.test.comparators[0].id
    arms, cur = [], chain
    while True:
        arms.append(cur)
        if len(cur.orelse) == 1 and isinstance(cur.orelse[0], ast.If):
            cur = cur.orelse[0]
        else:
            break
    # statements of the loop body before the chain (e.g. d = deg2rad(edgeval))
    pre = []
    for s in loop[0].body:
        if s is chain:
            break
        pre.append(s)
    for name, (M, N) in GRIMMER.items():
        env = {"M": M, "N": N, "max_θ": THETA_MAX[name]}
        for s in fn.body:
            fold_assign(s, env, only_new=True)
        th = THETA_MAX[name]
        total, hole = 0.0, None
        try:
            vals = []
            for deg in range(th + 1):
                e = dict(env)
                e[var] = float(deg)
                for s in pre:
                    if isinstance(s, ast.Assign) and isinstance(s.targets[0], ast.Name):
                        e[s.targets[0].id] = fold(s.value, e)
                v = density_at(arms, None, e, var, float(deg))
                if v is None:
                    hole = deg
                    break
                vals.append(v)
            if hole is None:
                total = sum((vals[i] + vals[i + 1]) / 2 for i in range(th))
        except (KeyError, NotFoldable) as ex:
            ctx.ob("C14.normalisation", f"stats.misorientations_random:{name}", "inconclusive", f"constant folding failed: {ex}", loc)
            continue
        except (ValueError, ZeroDivisionError) as ex:
            ctx.ob("C14.normalisation", f"stats.misorientations_random:{name}", False,
                   f"the density formula cannot be evaluated on all of [0, {th}] ({ex} at an admissible angle)", loc)
            continue
        if hole is not None:
            ctx.ob("C14.normalisation", f"stats.misorientations_random:{name}", False, f"no branch evaluates the density at {hole} degrees (<= theta_max = {th})", loc)
        else:
            ctx.ob("C14.normalisation", f"stats.misorientations_random:{name}", abs(total - 1.0) <= 1e-3,
                   f"sum over 1-degree bins of the theoretical density on [0, {th}] = {total:.4f} (must be 1 within 1e-3)", loc)
    ctx.floor("C14.normalisation", 6)


def batching(ctx):
    dotted = "pydrex.diagnostics.misorientation_indices"
    loc = defloc(ctx, dotted)
    fn = ctx.program.require(dotted)
    # multiprocessing branches (own pool / caller's pool), interpreted with an order-preserving stub pool and a recording stub worker:
    # result[k] is the index of snapshot k, computed with the caller's lattice system and bins
    calls = []

    def mindex(I_, orientations, system=None, bins=None):
        calls.append((orientations, system, bins))
        return alg.sym(f"M<{orientations.flat[0]}>")

    def mkpool():
        # typestate of a multiprocessing pool: running -> closed / terminated; leaving a `with pool:` block terminates it; work can only be
        # submitted while it is running
        p = Record(None, {"state": "running"}, label="Pool")

        def running(node=None):
            if p.attrs["state"] != "running":
                from ..values import ExcVal
                raise RaiseSig(ExcVal("ValueError", args=("Pool not running",), node=node))

        def imap(I_, f_, seq, *a):
            running()
            return [I_.call(f_, (x,)) for x in I_.iterate(seq)]
        p.native_methods["imap"] = Native("imap", imap)
        p.native_methods["map"] = p.native_methods["imap"]
        p.native_methods["close"] = Native("close", lambda I_: p.attrs.__setitem__("state", "closed"))
        p.native_methods["terminate"] = Native("terminate", lambda I_: p.attrs.__setitem__("state", "terminated"))
        p.native_methods["join"] = Native("join", lambda I_: None)
        p.native_methods["__enter__"] = Native("__enter__", lambda I_: p)
        p.native_methods["__exit__"] = Native("__exit__", lambda I_, *a: p.attrs.__setitem__("state", "terminated"))

        def unordered(I_, f_, seq, *a):
            running()
            return list(reversed([I_.call(f_, (x,)) for x in I_.iterate(seq)]))
        p.native_methods["imap_unordered"] = Native("imap_unordered", unordered)   # any order is allowed: the stub returns the reverse
        return p
    unordered_used = [n.lineno for n in ast.walk(fn) if isinstance(n, ast.Attribute) and n.attr in ("apply_async", "map_async")]
    for how in ("own pool", "caller's pool"):
        del calls[:]
        I = Interp(ctx.program, stubs={"pydrex.diagnostics.misorientation_index": Native("misorientation_index", mindex),
                                       "pydrex.utils.default_ncpus": Native("default_ncpus", lambda I_: 2)})
        mod = ctx.program.module("pydrex.diagnostics")
        saved = {k: mod.globals_cache.get(k, None) for k in ("HAS_RAY", "Pool")}
        had = {k: k in mod.globals_cache for k in saved}
        mod.globals_cache["HAS_RAY"] = False
        mod.globals_cache["Pool"] = Native("Pool", lambda I_, *a, **k: mkpool())
        try:
            stack = symarr("S", (3, 2, 3, 3))
            sysm = I.resolve("pydrex.geometry.LatticeSystem").members["hexagonal"]
            try:
                ext = None if how == "own pool" else mkpool()
                out = I.call(public(ctx, I, dotted), (stack, sysm), {"bins": 7, "pool": ext})
                if ext is not None:
                    # the pool belongs to the caller: it is still running afterwards and serves a second stack
                    st_ = ext.attrs["state"]
                    again = None
                    try:
                        out2 = I.call(public(ctx, I, dotted), (symarr("S", (3, 2, 3, 3)), sysm), {"bins": 7, "pool": ext})
                        again = isinstance(out2, np.ndarray) and out2.shape == (3,) and all(lift(a) == lift(b) for a, b in zip(out2, out))
                    except RaiseSig as r2:
                        again = f"raises {r2.exc.typename}"
                    ctx.ob("C14.batch-order", "caller's pool: left running and reusable for the next stack", st_ == "running" and again is True,
                           f"state of the caller's pool after the call: {st_}; second call with the same pool: {again}", loc)
                    del calls[3:]
            except RaiseSig as r:
                ctx.ob("C14.batch-order", f"{how}: result k is the index of snapshot k", False, f"raises {r.exc.typename}", loc)
                continue
        finally:
            for k in saved:
                if had[k]:
                    mod.globals_cache[k] = saved[k]
                else:
                    mod.globals_cache.pop(k, None)
        want = [alg.sym(f"M<S[{k},0,0,0]>") for k in range(3)]
        ok = isinstance(out, np.ndarray) and out.shape == (3,) and all(lift(a) == b for a, b in zip(out, want))
        ctx.ob("C14.batch-order", f"{how}: result k is the index of snapshot k", ok and not unordered_used, f"returned {out!r}"[:200], loc)
        okw = len(calls) == 3 and all(s_ is sysm and b_ == 7 for _, s_, b_ in calls)
        ctx.ob("C14.batch-order", f"{how}: every worker gets the caller's lattice system and bins", okw,
               f"worker calls: {[(getattr(s_, 'name', s_), b_) for _, s_, b_ in calls]}", loc)
    remote = [s for s in ast.walk(fn) if isinstance(s, ast.Call) and isinstance(s.func, ast.Attribute) and s.func.attr == "remote"]
    okr = all({k.arg: ast.unparse(k.value) for k in r.keywords}.get("system") == "system" and {k.arg: ast.unparse(k.value) for k in r.keywords}.get("bins") == "bins" for r in remote)
    ctx.ob("C14.batch-order", "the Ray branch forwards system and bins", okr, "", loc)
    comps = [n for n in ast.walk(fn) if isinstance(n, ast.ListComp) and any(isinstance(g.iter, ast.Name) and g.iter.id == fn.args.args[0].arg for g in n.generators)]
    ctx.ob("C14.batch-order", "ray branch builds its task list in stack order", bool(comps), "", loc)
    out_alloc = any(isinstance(s, ast.Assign) and isinstance(s.value, ast.Call) and "len" in ast.unparse(s.value) and fn.args.args[0].arg in ast.unparse(s.value) for s in fn.body)
    ctx.ob("C14.batch-order", "one result slot per snapshot", out_alloc, "", loc)
    ctx.floor("C14.batch-order", 6)
