"""C18 — analytic flows (Jacobian agreement, incompressibility), axis table, strain increment,
pathline wiring and event purity."""

from __future__ import annotations

import ast
import itertools

import numpy as np

from .. import alg
from ..alg import E, lift, ZERO, ONE
from ..interp import Interp, RaiseSig
from ..values import symarr, mkarr, Partial, Native, Record, Opaque, FuncVal, keyof, Guard
from .common import ident, ident_arr, public, defloc, call_public, short, Abort, explore_exits
from ..flow import effects_of_function

LEVEL = "other"
LETTERS = "XYZ"


def run(ctx):
    ctx.explanation = (
        "Decides structural/algebraic necessary conditions of C18: (a) for each built-in flow and each of the six "
        "ordered axis pairs the velocity-gradient callable equals the symbolic Jacobian of the paired velocity callable "
        "(9 cells, exact differentiation of the extracted normal forms) and is trace-free; (b) the axis-letter table; "
        "(c) the strain-increment formula; (d) how get_pathline wires its callbacks into solve_ivp (start time/point, "
        "direction, RHS vs Jacobian, inside-gating, terminal event, returned timestamps); (e) purity of the event "
        "function. Not decided: ODE accuracy along the path, staying inside the box, the 1.25 strain slack.")
    ctx.trusted += ["Python/NumPy semantics of the interpreted subset", "chain rules of alg.derive",
                    "solve_ivp contract: fun/jac/events are called with (t, y, *args); events must be functions of (t, y)"]
    I = Interp(ctx.program)
    jacobians(ctx, I)
    axis_table(ctx, I)
    strain_increment(ctx, I)
    pathline(ctx)


def jacobians(ctx, I):
    ctx.rule("C18.jacobian", "grad[i,j] == d u_i / d x_j for the callables returned by the flow factory (per flow, axis pair, cell)")
    ctx.rule("C18.tracefree", "trace(grad) == 0 (incompressibility) per flow and axis pair")
    x = symarr("x", (3,))
    xa = [list(alg.atoms_of(c))[0] for c in x]
    t = alg.sym("t")
    flows = {
        "simple_shear_2d": lambda a, b: (a, b, alg.psym("rate")),
        "cell_2d": lambda a, b: (a, b, alg.sym("U"), alg.psym("d")),
        "corner_2d": lambda a, b: (a, b, alg.sym("U")),
    }
    for name, mk in flows.items():
        dotted = "pydrex.velocity." + name
        loc = defloc(ctx, dotted)
        for a, b in itertools.permutations(LETTERS, 2):
            tag = f"{name}({a},{b})"
            try:
                pair = call_public(ctx, I, dotted, *mk(a, b))
            except Abort:
                continue
            if not (isinstance(pair, tuple) and len(pair) == 2):
                ctx.ob("C18.jacobian", tag, False, f"factory returned {pair!r}, expected (velocity, gradient)", loc)
                continue
            uf, Lf = pair
            try:
                u = I.call(uf, (t, x.copy()))
                gL = len(I.guards)
                L = I.call(Lf, (t, x.copy()))
            except RaiseSig as r:
                ctx.ob("C18.jacobian", tag, False, f"callable raises {r.exc.typename} on a generic interior point", loc)
                continue
            if getattr(u, "shape", None) != (3,) or getattr(L, "shape", None) != (3, 3):
                ctx.ob("C18.jacobian", tag, False, f"shapes {getattr(u, 'shape', None)}, {getattr(L, 'shape', None)}", loc)
                continue
            for i in range(3):
                for j in range(3):
                    du = alg.derive(lift(u[i]), {xa[j]: ONE})
                    ident(ctx, "C18.jacobian", f"{name}:{a}{b}:grad[{i},{j}]", L[i, j], du, loc,
                          what=f"grad[{i},{j}] vs d u[{i}]/d x[{j}]")
            ident(ctx, "C18.tracefree", f"{name}:{a}{b}:trace", L[0, 0] + L[1, 1] + L[2, 2], ZERO, loc)
            # every data-dependent early return of the gradient callable must give the Jacobian of the velocity on its own region
            # (a region where the velocity is regular but the gradient callable bails out is a disagreement between the two siblings)
            jac = np.empty((3, 3), dtype=object)
            for i in range(3):
                for j in range(3):
                    jac[i, j] = alg.derive(lift(u[i]), {xa[j]: ONE})

            def again(I_, mk=mk, a=a, b=b, dotted=dotted):
                pr = I_.call(public(ctx, I_, dotted), tuple(mk(a, b)))
                return I_.call(pr[1], (t, x.copy()))
            explore_exits(ctx, "C18.jacobian", f"{name}:{a}{b}:gradient callable", I, gL, lambda: Interp(ctx.program), again, jac, loc, what="gradient")
            if name == "corner_2d" and (a, b) == ("X", "Z"):
                ctx.sample({"flow": tag, "u[0]": short(u[0]), "grad[0,2]": short(L[0, 2])})
    ctx.floor("C18.jacobian", 3 * 6 * 9)
    ctx.floor("C18.tracefree", 18)


def axis_table(ctx, I):
    ctx.rule("C18.axes", "to_indices2d maps each ordered pair of distinct axis letters to the matching index pair; anything else raises ValueError")
    dotted = "pydrex.geometry.to_indices2d"
    loc = defloc(ctx, dotted)
    f = public(ctx, I, dotted)
    idx = {"X": 0, "Y": 1, "Z": 2}
    for a, b in itertools.product("XYZ", repeat=2):
        for aa, bb in ((a, b), (a.lower(), b.lower())):
            try:
                r = I.call(f, (aa, bb))
                got = tuple(int(v) for v in r)
                ok = a != b and got == (idx[a], idx[b])
                ctx.ob("C18.axes", f"to_indices2d({aa},{bb})", ok, f"returned {got}" + ("" if a != b else " for a repeated axis (must raise)"), loc)
            except RaiseSig as r:
                ctx.ob("C18.axes", f"to_indices2d({aa},{bb})", a == b and r.exc.typename == "ValueError",
                       f"raised {r.exc.typename}", loc)
    try:
        I.call(f, ("W", "X"))
        ctx.ob("C18.axes", "to_indices2d(W,X)", False, "unknown letter accepted", loc)
    except RaiseSig as r:
        ctx.ob("C18.axes", "to_indices2d(W,X)", r.exc.typename == "ValueError", f"raised {r.exc.typename}", loc)
    ctx.floor("C18.axes", 19)


def strain_increment(ctx, I):
    ctx.rule("C18.strain_increment", "strain_increment(dt, L) == |dt| * max |eigvalsh((L + L^T)/2)|")
    dotted = "pydrex.utils.strain_increment"
    loc = defloc(ctx, dotted)
    L = symarr("L", (3, 3))
    dt = alg.sym("dt")
    got = call_public(ctx, I, dotted, dt, L.copy())
    ev = I.np.np_eigvalsh((L + L.T) / 2)
    ref = alg.Abs(dt) * I.np.np_max(I.np.np_abs(ev))
    ident(ctx, "C18.strain_increment", "strain_increment", got, ref, loc)
    ctx.assume("eigvalsh reads the lower triangle of a symmetric matrix and returns its eigenvalues (library fact)")


def guard_atoms(g):
    acc = set()

    def rec(x):
        if isinstance(x, Guard):
            for a in x.args:
                rec(a)
        elif isinstance(x, E):
            acc.update(alg.atoms_of(x, deep=True))
        elif isinstance(x, (tuple, list)):
            for a in x:
                rec(a)
    rec(g)
    return acc


_NEG = {"Lt": "GtE", "LtE": "Gt", "Gt": "LtE", "GtE": "Lt"}
_FLIP = {"Lt": "Gt", "LtE": "GtE", "Gt": "Lt", "GtE": "LtE"}


def box_constraints(g, positive=True):
    """Conjunction of atomic comparisons (op, lhs key, rhs key) equivalent to guard g (or its negation), or None if it is
    not a pure conjunction.  Comparisons are oriented with the point coordinate on the left where possible."""
    if isinstance(g, bool):
        return set() if g == positive else None
    if not isinstance(g, Guard):
        return None
    k = g.kind
    if k == "const":
        return set() if bool(g.args[0]) == positive else None
    if k == "not":
        return box_constraints(g.args[0], not positive)
    if k == "cmp":
        op, a, b = g.args[0], g.args[1], g.args[2]
        if op not in _NEG or not isinstance(a, E) or not isinstance(b, E):
            return None
        if not positive:
            op = _NEG[op]
        if str(a).startswith(("lo[", "hi[")):
            a, b, op = b, a, _FLIP[op]
        return {(op, a.key(), b.key())}
    if (k == "and" and positive) or (k == "or" and not positive):
        out = set()
        for x in g.args:
            s_ = box_constraints(x, positive)
            if s_ is None:
                return None
            out |= s_
        return out
    return None


def pathline(ctx):
    ctx.rule("C18.pathline", "get_pathline wiring: integrate from t=0 at final_location towards negative time; fun returns the velocity, "
                             "jac the velocity gradient, both at the solver's point and zero outside the box; terminal strain event; "
                             "returned timestamps are the solver's reversed (or a linspace ending at t[0]=0)")
    ctx.rule("C18.event-pure", "a function passed as events= to the root-finding integrator has no nonlocal/global/attribute writes")
    dotted = "pydrex.pathlines.get_pathline"
    loc = defloc(ctx, dotted)
    rec = {}

    def solve_ivp(I_, fun, t_span, y0, **kw):
        rec.update(fun=fun, t_span=t_span, y0=y0, **kw)
        path = Record(None, {}, label="OdeResult")
        path.attrs["t"] = symarr("T", (4,))
        path.attrs["sol"] = Native("sol", lambda I2, *a: Opaque("interpolant value"))
        # the two successful outcomes of the solver: the terminal event fired (1), or the whole interval was integrated without it (0)
        st = solver_status[0]
        path.attrs["status"] = st
        path.attrs["success"] = st >= 0
        path.attrs["message"] = {1: "A termination event occurred.", 0: "The solver successfully reached the end of the integration interval.",
                                 -1: "Required step size is less than spacing between numbers."}[st]
        path.attrs["t_events"] = [symarr("Te", (1 if st == 1 else 0,))]
        path.attrs["y"] = symarr("Yp", (3, 4))
        path.attrs["nfev"] = 12
        rec["path"] = path
        return path
    solver_status = [1]

    lin = {}

    def linspace(I_, a, b, num=50, **kw):
        lin.update(start=a, stop=b, num=num)
        return Opaque("linspace")

    I = Interp(ctx.program, externals={"scipy.integrate.solve_ivp": Native("solve_ivp", solve_ivp),
                                       "numpy.linspace": Native("linspace", linspace)})
    xf = symarr("xf", (3,))
    lo, hi = symarr("lo", (3,)), symarr("hi", (3,))
    p = symarr("p", (3,))
    vel = Native("get_velocity", lambda I_, t, x: mkarr([alg.Fn("u", keyof(t) if not isinstance(t, E) else t, tuple(x.flat), k) for k in range(3)]))
    grad = Native("get_velocity_gradient", lambda I_, t, x: mkarr([[alg.Fn("gradu", t, tuple(x.flat), i, j) for j in range(3)] for i in range(3)]))
    eps = alg.psym("max_strain")
    f = public(ctx, I, dotted)
    try:
        out = I.call(f, (xf, vel, grad, lo, hi, eps))
    except RaiseSig as r:
        ctx.ob("C18.pathline", "get_pathline:call", False, f"raises {r.exc.typename} on generic input", loc)
        return
    if "fun" not in rec:
        ctx.ob("C18.pathline", "get_pathline:solve_ivp", "inconclusive", "no call of scipy.integrate.solve_ivp was found", loc)
        return
    # a flow too slow to reach the strain limit (or the box) within the integration span is a pathline like any other
    solver_status[0] = 0
    keep = dict(rec)
    try:
        out0 = I.call(f, (xf, vel, grad, lo, hi, eps))
        ctx.ob("C18.pathline", "solver reaches the end of its interval without the event (status 0): a pathline is returned",
               isinstance(out0, tuple) and len(out0) == 2, f"returned {type(out0).__name__}", loc)
    except RaiseSig as r:
        ctx.ob("C18.pathline", "solver reaches the end of its interval without the event (status 0): a pathline is returned", False,
               f"raises {r.exc.typename}: the successful end of the integration interval is treated as a failure", loc)
    solver_status[0] = 1
    rec.clear()
    rec.update(keep)
    ts = rec["t_span"]
    ok = len(ts) == 2 and lift(ts[0]).is_zero() and lift(ts[1]).is_const() and lift(ts[1]).cval() < 0
    ctx.ob("C18.pathline", "t_span starts at 0 and runs backwards", ok, f"t_span={ts!r}", loc)
    ctx.ob("C18.pathline", "y0 is final_location", rec["y0"] is xf or keyof(rec["y0"]) == keyof(xf), "", loc)
    ctx.ob("C18.pathline", "dense_output", rec.get("dense_output") is True, f"dense_output={rec.get('dense_output')!r}", loc)
    args = tuple(rec.get("args", ()))
    ev = rec.get("events")
    ev = list(ev) if isinstance(ev, (list, tuple)) else [ev]
    ctx.ob("C18.pathline", "one event function", len(ev) == 1 and isinstance(ev[0], FuncVal), f"events={ev!r}", loc)
    # terminal flag
    # (the attribute of the function object handed to the solver, wherever it was set: inside get_pathline or at module level)
    flag = ev[0].attrs.get("terminal") if isinstance(ev[0], FuncVal) else None
    ctx.ob("C18.pathline", "event is terminal", flag is True, f"events[0].terminal = {flag!r}", loc)
    # fun / jac at the solver point
    tt = alg.sym("tau")
    nan = I.np.ext_attr(I.resolve("pydrex.pathlines.np") if False else __import__("pdxsa.values", fromlist=["ExtRef"]).ExtRef("numpy"), "nan", None)
    for what, key, stub in (("fun", "fun", vel), ("jac", "jac", grad)):
        g0 = len(I.guards)
        cal = rec.get(key)
        if cal is None:
            ctx.ob("C18.pathline", f"{what} supplied", False, f"{key} not passed to solve_ivp", loc)
            continue
        try:
            outside = I.call(cal, (tt, p) + args)
        except RaiseSig as r:
            ctx.ob("C18.pathline", f"{what} callable", False, f"raises {r.exc.typename}", loc)
            continue
        new = I.guards[g0:]
        expect = stub.fn(I, nan, p)
        need = set()
        for arr in (p, lo, hi):
            for c_ in arr.flat:
                need |= alg.atoms_of(c_)
        want = set()
        for i_ in range(3):
            want.add(("GtE", p[i_].key(), lo[i_].key()))
            want.add(("LtE", p[i_].key(), hi[i_].key()))
        # the callable has two outcomes, split by one data-dependent test: (condition, value under it, value otherwise); either branch may be
        # the early return
        splits = []
        for g, o, l, fn in new:
            if o[0] == "return" and isinstance(o[1], np.ndarray) and isinstance(outside, np.ndarray):
                splits.append((g, o[1], outside))
                splits.append((g.negate(), outside, o[1]))

        def is_expect(v):
            return v.shape == expect.shape and all(alg.equal(a, b) for a, b in zip(v.flat, expect.flat))

        def is_zero(v):
            return v.shape == expect.shape and all(lift(c_).is_zero() for c_ in v.flat)
        gated = [s_ for s_ in splits if need <= guard_atoms(s_[0])]
        boxed = [s_ for s_ in gated if box_constraints(s_[0]) == want]
        ctx.ob("C18.pathline", f"{what} gated by a test on all of (point, min, max)", bool(gated), "", loc)
        ctx.ob("C18.pathline", f"{what}: the inside-test is min_i <= point_i <= max_i for every coordinate", bool(boxed),
               f"constraints found: {sorted((op, ) for s_ in gated for op, *_ in (box_constraints(s_[0]) or []))[:8]}", loc)
        pick = boxed or gated or splits
        ctx.ob("C18.pathline", f"{what} inside the box returns {'velocity' if what == 'fun' else 'velocity gradient'} at the solver point",
               any(is_expect(s_[1]) for s_ in pick), f"values under the inside-test: {[short(s_[1].flat[0]) for s_ in pick[:2]]}", loc)
        ctx.ob("C18.pathline", f"{what} outside the box is zero", any(is_expect(s_[1]) and is_zero(s_[2]) for s_ in pick) if pick else False,
               f"values outside: {[short(s_[2].flat[0]) for s_ in pick[:2]]}", loc)
    # event uses the gradient at the same point
    if isinstance(ev[0], FuncVal):
        g0 = len(I.guards)
        try:
            val = I.call(ev[0], (tt, p) + args)
            uses = alg.atoms_of(lift(val), deep=True) if isinstance(val, E) else set()
            gatoms = set()
            for c in grad.fn(I, nan, p).flat:
                gatoms |= alg.atoms_of(c)
            ctx.ob("C18.pathline", "event value depends on the velocity gradient at the solver point", bool(uses & gatoms)
                   or any(bool(alg.atoms_of(lift(o[1]), deep=True) & gatoms) for g, o, l, fn in I.guards[g0:] if o[0] == "return" and isinstance(o[1], E)),
                   f"event value {short(val)}", loc)
        except RaiseSig as r:
            ctx.ob("C18.pathline", "event callable", False, f"raises {r.exc.typename}", loc)
    # returned timestamps
    T = rec["path"].attrs["t"]
    ts_out = out[0] if isinstance(out, tuple) else None
    ctx.ob("C18.pathline", "timestamps are the solver's, reversed", isinstance(ts_out, np.ndarray) and ts_out.shape == T.shape
           and all(a == b for a, b in zip(ts_out, T[::-1])), f"got {ts_out!r}"[:160], loc)
    ctx.ob("C18.pathline", "second result is the dense interpolant", isinstance(out, tuple) and out[1] is rec["path"].attrs["sol"], "", loc)
    try:
        out2 = I.call(f, (xf, vel, grad, lo, hi, eps), {"regular_steps": 7})
        ctx.ob("C18.pathline", "regular resampling runs from t[-1] to t[0] with steps+1 points",
               bool(lin) and lin["start"] == T[-1] and lin["stop"] == T[0] and int(lin["num"]) == 8, f"linspace args {lin}", loc)
    except RaiseSig as r:
        ctx.ob("C18.pathline", "regular resampling", False, f"raises {r.exc.typename}", loc)
    ctx.floor("C18.pathline", 12)
    # event purity (AST effect scan of the function object actually passed as events=)
    for e in ev:
        if isinstance(e, FuncVal):
            eff = effects_of_function(ctx.program, e.module, e.node)
            # state of the enclosing call (nonlocal) and state that outlives the call (globals, attributes of module-level objects such as
            # the event function itself) are separate obligations: the second kind is shared between requests in one process
            bad = [x for x in eff if x[0] == "nonlocal"]
            ctx.ob("C18.event-pure", f"pathlines.get_pathline.{e.name}", not bad,
                   "event function writes enclosing state: " + ", ".join(f"{k} {n} (line {ln})" for k, n, ln in bad),
                   f"{ctx.program.relpath(e.module.path)}:{e.node.lineno} ({e.name})")
            shared = [x for x in eff if x[0] in ("global", "attr-store-free", "subscript-store-free")]
            ctx.ob("C18.event-pure", f"pathlines.get_pathline.{e.name}:state that outlives the call", not shared,
                   "event function keeps its running values in state shared by every request in the process: "
                   + ", ".join(f"{k} {n} (line {ln})" for k, n, ln in shared) + " (interleaved, concurrent or failed requests see each other's strain budget)",
                   f"{ctx.program.relpath(e.module.path)}:{e.node.lineno} ({e.name})")
    ctx.floor("C18.event-pure", 1)
