"""C19 — parameter records, presets and configuration parsing: table rules, interpreted configuration table, kind, handler/raiser and scope rules."""

from __future__ import annotations

import ast
import builtins

from .. import flow
from ..interp import Interp
from ..values import ClassVal, EnumMember, FuncVal
from .common import public, defloc

LEVEL = "other"

HASHABLE_KINDS = ("int", "float", "enum", "tuple", "str", "bool")
# exception raised by an operation per the API table (one line of reason each)
RAISER_TABLE = {
    "getattr": "AttributeError",   # getattr(obj, name) without default
    "enum-call": "ValueError",     # EnumClass(value) for an unknown value
    "subscript": "KeyError",       # d[k] on a dict (LookupError family; IndexError for sequences)
    "int": "ValueError", "float": "ValueError",
    "str-concat": "TypeError",     # "text" + non-str
}
EXC_PARENTS = {"KeyError": "LookupError", "IndexError": "LookupError", "LookupError": "Exception", "ValueError": "Exception",
               "TypeError": "Exception", "AttributeError": "Exception", "Exception": "BaseException"}
REQUIRED_INPUT = {
    "_parse_config_input_steadymesh": {"mesh", "locations_final"},
    "_parse_config_input_calcpaths": {"velocity_gradient", "locations_initial"},
    "_parse_config_input_postpaths": {"paths"},
}


def kind_of(v):
    if isinstance(v, bool):
        return "bool"
    if isinstance(v, int):
        return "int"
    if isinstance(v, EnumMember):
        return "enum"
    if isinstance(v, tuple):
        return "tuple"
    if isinstance(v, str):
        return "str"
    from ..alg import E
    if isinstance(v, E):
        return "float"
    if isinstance(v, (list, dict, set)):
        return type(v).__name__
    return type(v).__name__


def run(ctx):
    ctx.explanation = (
        "TAB/FLOW rules decided on the parsed source: DefaultParams is a frozen dataclass whose defaults are of hashable kinds and whose "
        "annotations equal the types of their defaults, as_dict agrees with attribute access and round-trips; every class deriving from it may re-bind a base field "
        "only as a dataclass field of the same declared type inside a frozen dataclass (a plain class attribute is dead because the inherited "
        "__init__ shadows it) and must itself satisfy the type rule.  parse_config is interpreted (file layer stubbed, TOML table supplied by "
        "the checker) over every subset of the optional keys of [output], [input] and [parameters] in each of the three input modes: every "
        "such configuration parses, every omitted key takes its documented default, phases and fabric come back as enumeration members, and "
        "each single-fault configuration raises ConfigError; _parse_phase is interpreted per kind of TOML value.  AST rules: operations accept "
        "the kind of the default they may hold, try/except handlers catch what the guarded statements can raise per the API table, no builtin "
        "is used as data, defaults are applied on every path.  Not decided: what the CLI does with the parsed configuration; file-system effects.")
    ctx.trusted += ["API raiser table in pdxsa/checks/c19.py", "dataclass semantics: inherited __init__ assigns field defaults to instances"]
    for k, v in RULES.items():
        ctx.rule(k, v)
    I = Interp(ctx.program)
    record(ctx, I)
    presets(ctx, I)
    config(ctx, I)


RULES = {
    "C19.record": "DefaultParams: @dataclass(frozen=True); every default of a hashable kind; annotation == type of default; as_dict() interpreted on a default and on a fully overridden record equals attribute access and round-trips through DefaultParams(**d)",
    "C19.preset": "a subclass re-binding a DefaultParams field does so as an annotated field of the same type in a @dataclass(frozen=True) class, with a default of that type",
    "C19.kind": "an operation applied to a parameter value accepts the kind of the DefaultParams default it may hold",
    "C19.handler": "every except clause in the config parser catches an exception its guarded statements can raise per the API table, and no table exception escapes uncaught from a guarded conversion",
    "C19.scope": "no name resolving to a Python builtin is subscripted or used as data",
    "C19.phase-kinds": "_parse_phase returns a MineralPhase member or raises the configuration error for every kind of TOML value (name, ordinal, member, unknown name, out-of-range ordinal, float, list)",
    "C19.config-table": "parse_config interpreted over every subset of the optional keys of [output], [input] and [parameters] in all three input modes: it parses, "
                        "every optional key takes its documented default, phases and fabric are enumeration members; single-fault invalid configurations raise ConfigError",
    "C19.output-kept": "defaults computed for the [output] table are stored in the returned configuration even when the table is omitted",
}


def record(ctx, I):
    dotted = "pydrex.core.DefaultParams"
    loc = defloc(ctx, dotted)
    cv = public(ctx, I, dotted)
    ok = isinstance(cv, ClassVal) and cv.kind == "dataclass" and cv.dataclass_kw.get("frozen") is True
    ctx.ob("C19.record", "DefaultParams is a frozen dataclass", ok, f"kind={getattr(cv, 'kind', None)} kwargs={getattr(cv, 'dataclass_kw', None)}", loc)
    if not isinstance(cv, ClassVal):
        return
    for name, ann, dflt, owner in I.dataclass_fields(cv):
        check_field(ctx, I, cv, name, ann, dflt, owner, "C19.record", f"DefaultParams.{name}")
    ctx.floor("C19.record", 10)
    # as_dict, interpreted on the default record and on a record with every field overridden by a generic value of its kind
    from ..interp import Env, RaiseSig
    from ..values import keyof
    from .. import alg
    from ..alg import E
    ad = cv.find_method("as_dict")
    if ad is None:
        ctx.ob("C19.record", "as_dict agrees with attribute access", False, "DefaultParams.as_dict is gone", loc)
        return
    fields = I.dataclass_fields(cv)
    over = {}
    for name, ann, dflt, owner in fields:
        v = I.ev(dflt, Env(owner.module))
        k = kind_of(v)
        if k == "float":
            over[name] = alg.psym(f"v_{name}")
        elif k == "int":
            over[name] = int(v) + 17
        elif k == "tuple" and v and kind_of(v[-1]) == "enum":
            # all members of the enumeration, NOT in declaration order (a record must keep the order it was given)
            ms = list(v[-1].cls.members.values())
            over[name] = tuple(reversed(ms))
        elif k == "tuple":
            over[name] = tuple(alg.psym(f"v_{name}_{i}") if kind_of(x) == "float" else x for i, x in enumerate(v))
        elif k == "enum":
            others = [m for m in v.cls.members.values() if m != v]
            over[name] = others[-1] if others else v
        else:
            over[name] = v
    # parallel tuples get the same length (one fraction per phase)
    n_enum = max((len(v_) for v_ in over.values() if isinstance(v_, tuple) and v_ and kind_of(v_[-1]) == "enum"), default=0)
    for name, v_ in list(over.items()):
        if isinstance(v_, tuple) and v_ and kind_of(v_[-1]) != "enum" and n_enum and len(v_) != n_enum and all(isinstance(x, E) for x in v_):
            over[name] = tuple(alg.psym(f"v_{name}_{i}") for i in range(n_enum))
    for label, kwargs in (("defaults", {}), ("every field overridden", over)):
        try:
            rec = I.call(cv, (), dict(kwargs))
            d = I.call(I.getattr(rec, "as_dict", None), ())
        except RaiseSig as r:
            ctx.ob("C19.record", f"as_dict agrees with attribute access ({label})", False, f"raises {r.exc.typename}", loc)
            continue
        bad = []
        if not isinstance(d, dict):
            bad.append(f"returns {type(d).__name__}, not a dict")
        else:
            if list(d) != [f[0] for f in fields]:
                bad.append(f"keys {sorted(set(d) ^ {f[0] for f in fields})} differ from the record's fields")
            for name, *_ in fields:
                if name in d and keyof(d[name]) != keyof(rec.attrs[name]):
                    bad.append(f"as_dict()[{name!r}] = {d[name]!r} but .{name} = {rec.attrs[name]!r}")
                if name in kwargs and keyof(rec.attrs[name]) != keyof(kwargs[name]):
                    bad.append(f"the record was declared with {name} = {kwargs[name]!r} but holds {rec.attrs[name]!r}")
            if d is rec.attrs:
                bad.append("returns the record's own storage (mutating the dictionary would mutate the frozen record)")
            try:
                rec2 = I.call(cv, (), dict(d))
                if any(keyof(rec2.attrs[n]) != keyof(rec.attrs[n]) for n, *_ in fields):
                    bad.append("DefaultParams(**as_dict()) differs from the record")
            except RaiseSig as r:
                bad.append(f"DefaultParams(**as_dict()) raises {r.exc.typename}")
        ctx.ob("C19.record", f"as_dict agrees with attribute access ({label})", not bad, "; ".join(bad[:3]), loc)


def check_field(ctx, I, cv, name, ann, dflt, owner, rule, construct):
    from ..interp import Env
    loc = f"{ctx.program.relpath(owner.module.path)}:{getattr(ann, 'lineno', owner.node.lineno)}"
    if dflt is None:
        ctx.ob(rule, construct, False, "field without default", loc)
        return
    v = I.ev(dflt, Env(owner.module))
    k = kind_of(v)
    ann_name = (flow.dotted(ann) or ast.unparse(ann)).split(".")[-1]
    want = {"int": "int", "float": "float", "tuple": "tuple", "str": "str", "bool": "bool"}.get(ann_name)
    if want is None:
        okt = k == "enum" and isinstance(v, EnumMember) and v.cls.name == ann_name
    else:
        okt = k == want
    hashable = k in HASHABLE_KINDS and (k != "tuple" or all(kind_of(x) in HASHABLE_KINDS for x in v))
    ctx.ob(rule, construct, okt and hashable, f"annotation {ann_name}, default of kind {k}" + ("" if hashable else " (not hashable)"), loc)


def presets(ctx, I):
    base = I.resolve("pydrex.core.DefaultParams")
    base_fields = {f[0]: f for f in I.dataclass_fields(base)}
    n = 0
    for mname, mod in ctx.program.modules.items():
        for st in mod.tree.body:
            if not isinstance(st, ast.ClassDef):
                continue
            try:
                cv = I.module_global(mod, st.name)
            except Exception:
                continue
            if not isinstance(cv, ClassVal) or cv is base or base not in cv.mro():
                continue
            n += 1
            is_dc = any((flow.dotted(d.func if isinstance(d, ast.Call) else d) or "").split(".")[-1] == "dataclass" for d in st.decorator_list)
            frozen = cv.dataclass_kw.get("frozen") is True
            loc = f"{ctx.program.relpath(mod.path)}:{st.lineno} ({st.name})"
            plain = [t.id for s in st.body if isinstance(s, ast.Assign) for t in s.targets if isinstance(t, ast.Name) and t.id in base_fields]
            annotated = [s for s in st.body if isinstance(s, ast.AnnAssign) and isinstance(s.target, ast.Name) and s.target.id in base_fields]
            ctx.ob("C19.preset", f"{mname}.{st.name}:overrides are fields", not plain and (not annotated or (is_dc and frozen)),
                   (f"plain class attributes {plain} do not override dataclass fields (instances get the base defaults)" if plain else "")
                   + ("" if (not annotated or (is_dc and frozen)) else " annotated overrides need @dataclass(frozen=True)"), loc)
            for s in annotated:
                bname, bann, _, _ = base_fields[s.target.id]
                same = ast.unparse(s.annotation).split(".")[-1] == ast.unparse(bann).split(".")[-1]
                if not same:
                    ctx.ob("C19.preset", f"{mname}.{st.name}.{s.target.id}", False, f"declared type {ast.unparse(s.annotation)} differs from the base field type {ast.unparse(bann)}", loc)
                else:
                    check_field(ctx, I, cv, s.target.id, s.annotation, s.value, cv, "C19.preset", f"{mname}.{st.name}.{s.target.id}")
    ctx.ob("C19.preset", "published presets found", n >= 8, f"{n} subclasses of DefaultParams in the package (mock module publishes 8)", defloc(ctx, "pydrex.core.DefaultParams"))
    ctx.floor("C19.preset", 9)


# --------------------------------------------------------------------------- config parser rules

CONFIG_FUNCS = ("parse_config", "_parse_config_params", "_parse_config_input_common", "_parse_config_input_steadymesh",
                "_parse_config_input_calcpaths", "_parse_config_input_postpaths", "_parse_output_options", "_parse_phase")
TOML_DICTS = {"toml", "_params", "_input", "_output", "input", "output_opts"}


def config(ctx, I):
    mod = ctx.program.module("pydrex.io")
    fns = {}
    for n in CONFIG_FUNCS:
        try:
            fns[n] = ctx.program.require("pydrex.io." + n)
        except Exception:
            if n == "parse_config":
                raise
    param_fields = {f[0]: f for f in I.dataclass_fields(I.resolve("pydrex.core.DefaultParams"))}
    for name, fn in fns.items():
        handlers(ctx, mod, name, fn, I)
        scope(ctx, mod, name, fn)
    for name, fn in fns.items():
        pass    # (the AST rule `defaults-all-paths` was removed: the interpreted configuration table decides the defaults on every path)
    phase_kinds(ctx, I)
    config_table(ctx)
    kinds(ctx, mod, fns, I, param_fields)
    output_kept(ctx, mod, fns)
    ctx.floor("C19.handler", 2)
    ctx.floor("C19.scope", 6)


def L(ctx, mod, node):
    return f"{ctx.program.relpath(mod.path)}:{getattr(node, 'lineno', 0)}"


def defaults_all_paths(ctx, mod, fname, fn):
    cfg = flow.CFG(fn)
    idom = cfg.dominators()
    rets = [n for n, s in cfg.stmt.items() if isinstance(s, ast.Return)] or [cfg.exit]
    for n, s in cfg.stmt.items():
        if not isinstance(s, ast.Assign) or len(s.targets) != 1:
            continue
        t = s.targets[0]
        v = s.value
        if isinstance(t, ast.Subscript) and isinstance(t.value, ast.Name) and t.value.id in TOML_DICTS and isinstance(t.slice, ast.Constant) \
                and isinstance(v, ast.Call) and isinstance(v.func, ast.Attribute) and v.func.attr == "get" and flow.dotted(v.func.value) == t.value.id \
                and v.args and isinstance(v.args[0], ast.Constant) and v.args[0].value == t.slice.value and len(v.args) == 2:
            key = t.slice.value
            missing = [r for r in rets if not cfg.dominates(n, r, idom)]
            ctx.ob("C19.defaults-all-paths", f"{fname}:{t.value.id}[{key}]", not missing,
                   f"the default of optional key {key!r} is not applied on the path to the return at line(s) {[getattr(cfg.stmt[r], 'lineno', '?') for r in missing]}", L(ctx, mod, s))


def phase_kinds(ctx, I):
    from ..interp import RaiseSig
    from ..alg import lift
    dotted = "pydrex.io._parse_phase"
    try:
        ctx.program.require(dotted)
    except Exception:
        return
    loc = defloc(ctx, dotted)
    f = I.resolve(dotted)
    cls = I.resolve("pydrex.core.MineralPhase")
    good = [("name:" + n, n, m) for n, m in cls.members.items()] + [("ordinal:%d" % m.value, m.value, m) for m in cls.members.values()] \
        + [("member:" + n, m, m) for n, m in cls.members.items()]
    bad = [("unknown name", "peridotite"), ("ordinal 7", 7), ("ordinal -1", -1), ("float", lift(0.5)), ("list", ["olivine"]), ("bool-like None", None)]
    for tag, arg, want in good:
        try:
            got = I.call(f, (arg,))
            ok = isinstance(got, EnumMember) and got.cls is cls and got.name == want.name
            ctx.ob("C19.phase-kinds", tag, ok, f"returned {got!r} of kind {kind_of(got)} (must be the MineralPhase member {want!r})", loc)
        except RaiseSig as r:
            ctx.ob("C19.phase-kinds", tag, False, f"valid phase rejected with {r.exc.typename}", loc)
    for tag, arg in bad:
        try:
            got = I.call(f, (arg,))
            ctx.ob("C19.phase-kinds", tag, False, f"invalid phase accepted, returned {got!r}", loc)
        except RaiseSig as r:
            ctx.ob("C19.phase-kinds", tag, r.exc.typename == "ConfigError", f"raised {r.exc.typename}", loc)
    ctx.floor("C19.phase-kinds", 10)


def _config_interp(ctx, toml_holder):
    """Interpreter for parse_config with the file layer stubbed: tomllib.load returns the supplied table."""
    import copy
    from ..values import Native, Record, Opaque
    from ..interp import Interp

    def pathrec(s):
        r = Record(None, {"name": s}, label="Path")
        r.attrs["parent"] = r
        r.native_methods["resolve"] = Native("resolve", lambda I_: r)
        return r

    def resolve_path(I_, path, refdir=None):
        return pathrec(str(getattr(path, "attrs", {}).get("name", path)))
    ext = {
        "builtins.open": Native("open", lambda I_, *a, **k: Record(None, {}, label="file")),
        "tomllib.load": Native("load", lambda I_, f: copy.deepcopy(toml_holder["toml"])),
        "pathlib.Path.cwd": Native("cwd", lambda I_: pathrec("<cwd>")),
        "meshio.read": Native("meshio.read", lambda I_, p: Record(None, {"kind": "mesh"}, label="mesh")),
        "numpy.load": Native("np.load", lambda I_, p: Record(None, {"kind": "npz"}, label="npz")),
    }
    stubs = {"pydrex.io.resolve_path": Native("resolve_path", resolve_path),
             "pydrex.io.read_scsv": Native("read_scsv", lambda I_, p: Record(None, {"kind": "scsv"}, label="scsv"))}
    I = Interp(ctx.program, externals=ext, stubs=stubs)
    return I


def config_table(ctx):
    import itertools
    from ..interp import RaiseSig
    from ..alg import E
    dotted = "pydrex.io.parse_config"
    loc = defloc(ctx, dotted)
    holder = {}
    I = _config_interp(ctx, holder)
    f = public(ctx, I, dotted)
    cls_phase = I.resolve("pydrex.core.MineralPhase")
    cls_fab = I.resolve("pydrex.core.MineralFabric")
    dp = I.resolve("pydrex.core.DefaultParams")
    from ..interp import Env
    defaults = {n: I.ev(d, Env(o.module)) for n, a, d, o in I.dataclass_fields(dp)}
    modes = {
        "mesh": {"mesh": "m.vtu", "locations_final": "f.scsv", "timestep": 1e9},
        "velocity_gradient": {"velocity_gradient": ["simple_shear_2d", "Y", "X", 5e-6], "locations_initial": "s.scsv", "timestep": 1e9},
        "paths": {"paths": ["p1.npz", "p2.npz"]},
    }
    out_opt = {"directory": "out", "raw_output": ["olivine"], "diagnostics": ["olivine"], "anisotropy": ["Voigt"], "paths": ["o.scsv"], "log_level": "DEBUG"}
    in_opt = {"strain_final": 10.0}
    par_opt = {"phase_assemblage": ["olivine", "enstatite"], "phase_fractions": [0.5, 0.5], "initial_olivine_fabric": "B", "gbm_mobility": 10, "number_of_grains": 100}
    n_ok = 0

    def run(toml):
        holder["toml"] = toml
        try:
            return I.call(f, ("cfg.toml",)), None
        except RaiseSig as r:
            return None, r.exc

    def check(tag, toml, mode):
        nonlocal n_ok
        res, exc = run(toml)
        if exc is not None:
            ctx.ob("C19.config-table", tag, False, f"a configuration with the required inputs raises {exc.typename} (line {getattr(exc.node, 'lineno', '?')})", loc)
            return
        bad = []
        o = res.get("output") if isinstance(res, dict) else None
        if not isinstance(o, dict):
            bad.append("no [output] table in the result")
        else:
            given = toml.get("output", {})
            want = {"anisotropy": ["Voigt", "hexaxis", "moduli", "%decomp"], "log_level": "WARNING"}
            for k, v in want.items():
                exp = given.get(k, v)
                if o.get(k) != exp:
                    bad.append(f"output.{k} = {o.get(k)!r}, documented {exp!r}")
            if "paths" not in o or (o["paths"] is not None and ("paths" not in given or mode == "paths")):
                if "paths" not in o:
                    bad.append("output.paths missing")
            if "paths" not in given and o.get("paths") is not None:
                bad.append(f"output.paths defaults to {o.get('paths')!r}, documented None")
            if "directory" not in o:
                bad.append("output.directory missing")
            ass = res["parameters"]["phase_assemblage"] if isinstance(res.get("parameters"), dict) else ()
            for k in ("raw_output", "diagnostics"):
                v = o.get(k)
                if not isinstance(v, list) or not all(isinstance(x, EnumMember) and x.cls is cls_phase for x in v):
                    bad.append(f"output.{k} = {v!r} is not a list of MineralPhase members")
                elif k not in given and list(v) != list(ass):
                    bad.append(f"output.{k} defaults to {v!r}, documented: all simulated phases {list(ass)!r}")
        p = res.get("parameters") if isinstance(res, dict) else None
        if not isinstance(p, dict):
            bad.append("no [parameters] table in the result")
        else:
            givenp = toml.get("parameters", {})
            for k, dv in defaults.items():
                if k not in p:
                    bad.append(f"parameters.{k} missing")
                elif k not in givenp and k not in ("phase_assemblage", "initial_olivine_fabric", "disl_coefficients") and kind_of(p[k]) != kind_of(dv):
                    bad.append(f"parameters.{k} default of kind {kind_of(p[k])}, record default kind {kind_of(dv)}")
                elif k not in givenp and k not in ("phase_assemblage", "initial_olivine_fabric", "disl_coefficients") and repr(p[k]) != repr(dv):
                    bad.append(f"parameters.{k} defaults to {p[k]!r}, record default {dv!r}")
            pa, pf = p.get("phase_assemblage"), p.get("phase_fractions")
            if not (isinstance(pa, tuple) and all(isinstance(x, EnumMember) and x.cls is cls_phase for x in pa)):
                bad.append(f"phase_assemblage {pa!r} is not a tuple of MineralPhase members")
            if pa is not None and pf is not None and len(pa) != len(pf):
                bad.append("phase and fraction lists differ in length")
            fb = p.get("initial_olivine_fabric")
            if not (isinstance(fb, EnumMember) and fb.cls is cls_fab):
                bad.append(f"initial_olivine_fabric {fb!r} is not a MineralFabric member")
        i_ = res.get("input") if isinstance(res, dict) else None
        if not isinstance(i_, dict):
            bad.append("no [input] table in the result")
        else:
            giveni = toml.get("input", {})
            for k in ("timestep", "strain_final", "paths"):
                if k not in i_:
                    bad.append(f"input.{k} missing")
            if "strain_final" not in giveni and "strain_final" in i_ and not (str(i_["strain_final"]) == "inf"):
                bad.append(f"input.strain_final defaults to {i_['strain_final']!r}, documented inf")
            none_keys = {"mesh": ("velocity_gradient", "locations_initial", "paths"), "velocity_gradient": ("locations_final", "paths", "mesh"),
                         "paths": ("locations_initial", "locations_final", "mesh")}[mode]
            for k in none_keys:
                if k not in i_ or i_[k] is not None:
                    bad.append(f"input.{k} = {i_.get(k, '<missing>')!r} in {mode} mode, documented None")
        if not isinstance(res.get("name"), str) and "name" not in res:
            bad.append("name missing")
        ctx.ob("C19.config-table", tag, not bad, "; ".join(bad[:4]), loc)
        n_ok += 1

    # every subset of the optional [output] keys x three modes (parameters/input optional keys omitted)
    okeys = list(out_opt)
    for mode, req in modes.items():
        for r in range(len(okeys) + 1):
            for sub in itertools.combinations(okeys, r):
                toml = {"input": dict(req)}
                if sub:
                    toml["output"] = {k: out_opt[k] for k in sub}
                check(f"{mode}:output{{{','.join(sub)}}}", toml, mode)
    # subsets of optional [input] keys and of [parameters] keys
    for mode, req in modes.items():
        opt_in = dict(in_opt)
        if mode == "paths":
            opt_in["timestep"] = 1e9
        ikeys = list(opt_in)
        for r in range(len(ikeys) + 1):
            for sub in itertools.combinations(ikeys, r):
                toml = {"input": {**req, **{k: opt_in[k] for k in sub}}, "output": {}}
                check(f"{mode}:input{{{','.join(sub)}}}", toml, mode)
        pkeys = list(par_opt)
        for r in range(len(pkeys) + 1):
            for sub in itertools.combinations(pkeys, r):
                if ("phase_assemblage" in sub) != ("phase_fractions" in sub):
                    continue  # a lone list is a length mismatch, tested among the faults below
                toml = {"input": dict(req), "parameters": {k: par_opt[k] for k in sub}}
                check(f"{mode}:parameters{{{','.join(sub)}}}", toml, mode)
    for letter in "ABCDE":
        res, exc = run({"input": dict(modes["paths"]), "parameters": {"initial_olivine_fabric": letter}})
        fb = res["parameters"]["initial_olivine_fabric"] if exc is None else None
        ctx.ob("C19.config-table", f"fabric {letter}", exc is None and isinstance(fb, EnumMember) and fb.name == "olivine_" + letter, f"got {fb!r} / {exc!r}", loc)
    for phases in (["olivine"], [0], ["enstatite", "olivine"], [1, 0], ["olivine", 1]):
        fr = [1.0] if len(phases) == 1 else [0.25, 0.75]
        res, exc = run({"input": dict(modes["paths"]), "parameters": {"phase_assemblage": phases, "phase_fractions": fr}})
        pa = res["parameters"]["phase_assemblage"] if exc is None else None
        names = [("olivine", "enstatite")[x] if isinstance(x, int) else x for x in phases]
        ctx.ob("C19.config-table", f"phases {phases}", exc is None and isinstance(pa, tuple) and [getattr(x, "name", None) for x in pa] == names
               and all(isinstance(x, EnumMember) for x in pa), f"got {pa!r} / {exc!r}", loc)
    # single-fault invalid configurations
    faults = {
        "no [input]": {"output": {}},
        "no timestep (mesh mode)": {"input": {"mesh": "m.vtu", "locations_final": "f.scsv"}},
        "timestep of the wrong type": {"input": {**modes["velocity_gradient"], "timestep": "abc"}},
        "strain_final of the wrong type": {"input": {**modes["paths"], "strain_final": "much"}},
        "fractions do not sum to one": {"input": dict(modes["paths"]), "parameters": {"phase_assemblage": ["olivine", "enstatite"], "phase_fractions": [0.5, 0.6]}},
        "more phases than fractions": {"input": dict(modes["paths"]), "parameters": {"phase_assemblage": ["olivine", "enstatite"], "phase_fractions": [1.0]}},
        "more fractions than phases": {"input": dict(modes["paths"]), "parameters": {"phase_fractions": [0.5, 0.5]}},
        # the same mismatches with one of the two lists left to its default (one phase, one fraction)
        "two phases, fractions omitted": {"input": dict(modes["paths"]), "parameters": {"phase_assemblage": ["olivine", "enstatite"]}},
        "three phases by ordinal, fractions omitted": {"input": dict(modes["paths"]), "parameters": {"phase_assemblage": [0, 1, 0]}},
        "fractions not summing to one, phases omitted": {"input": dict(modes["paths"]), "parameters": {"phase_fractions": [0.7]}},
        "unknown phase name": {"input": dict(modes["paths"]), "parameters": {"phase_assemblage": ["peridot"], "phase_fractions": [1.0]}},
        "phase ordinal out of range": {"input": dict(modes["paths"]), "parameters": {"phase_assemblage": [7], "phase_fractions": [1.0]}},
        "unknown fabric letter": {"input": dict(modes["paths"]), "parameters": {"initial_olivine_fabric": "Q"}},
        "fabric of the wrong type": {"input": dict(modes["paths"]), "parameters": {"initial_olivine_fabric": 3}},
        **{f"fabric {bad!r} is not one of the letters": {"input": dict(modes["paths"]), "parameters": {"initial_olivine_fabric": bad}}
           for bad in ("AB", "", "ABCDE", "BC", "a", "A ", " A", "olivine_A", "F", "AA", True)},
        "too few creep coefficients": {"input": dict(modes["paths"]), "parameters": {"disl_coefficients": [1.0, 2.0]}},
        "output for an unknown phase": {"input": dict(modes["paths"]), "output": {"raw_output": ["peridot"]}},
        "output for a phase that is not simulated": {"input": dict(modes["paths"]), "output": {"diagnostics": ["enstatite"]}},
    }
    for name, toml in faults.items():
        res, exc = run(toml)
        ctx.ob("C19.config-table", f"fault:{name}", exc is not None and exc.typename == "ConfigError",
               f"raised {exc.typename if exc is not None else 'nothing (configuration accepted)'}", loc)
    # nothing on the parsing path keeps state in the default value of a parameter (all the configurations above were parsed in one process)
    from .common import default_arg_rule
    default_arg_rule(ctx, I, 0, "pydrex.io.parse_config", construct="parse_config over the whole table")
    ctx.floor("C19.config-table", 200)


def flow_exits(body):
    return bool(body) and isinstance(body[-1], (ast.Raise, ast.Return))


def in_fields_loop(fn, st):
    for loop in ast.walk(fn):
        if isinstance(loop, ast.For) and st in loop.body and "as_dict" in ast.unparse(loop.iter) and "DefaultParams" in ast.unparse(loop.iter):
            return True
    return False


def in_try_catching(fn, st, names):
    for t in ast.walk(fn):
        if isinstance(t, ast.Try) and any(st is x or any(st is y for y in ast.walk(x)) for x in t.body):
            for h in t.handlers:
                hs = [h.type] if not isinstance(h.type, ast.Tuple) else list(h.type.elts)
                for x in hs:
                    if x is None or (flow.dotted(x) or "").split(".")[-1] in names:
                        return True
    return False


def catches(handler_names, exc):
    e = exc
    while e:
        if e in handler_names:
            return True
        e = EXC_PARENTS.get(e)
    return False


def body_raisers(body, I, mod):
    """Table exceptions the statements of a try body can raise (direct operations only)."""
    out = []
    for s in body:
        for n in ast.walk(s):
            if isinstance(n, ast.Call):
                d = flow.dotted(n.func) or ""
                last = d.split(".")[-1]
                if d == "getattr" and len(n.args) == 2:
                    out.append(("getattr", RAISER_TABLE["getattr"], n))
                elif last in ("int", "float") and d == last:
                    out.append((last, RAISER_TABLE[last], n))
                else:
                    # EnumClass(value)
                    try:
                        tgt = I.ev(n.func, __import__("pdxsa.interp", fromlist=["Env"]).Env(mod))
                    except Exception:
                        tgt = None
                    if isinstance(tgt, ClassVal) and tgt.kind in ("enum", "intenum"):
                        out.append(("enum-call", RAISER_TABLE["enum-call"], n))
            elif isinstance(n, ast.Subscript) and isinstance(n.ctx, ast.Load) and isinstance(n.value, ast.Name):
                out.append(("subscript", RAISER_TABLE["subscript"], n))
            elif isinstance(n, ast.BinOp) and isinstance(n.op, ast.Add) and any(isinstance(x, ast.Constant) and isinstance(x.value, str) for x in (n.left, n.right)):
                out.append(("str-concat", RAISER_TABLE["str-concat"], n))
    return out


def handlers(ctx, mod, fname, fn, I):
    for t in ast.walk(fn):
        if not isinstance(t, ast.Try):
            continue
        hn = []
        for h in t.handlers:
            hs = [h.type] if not isinstance(h.type, ast.Tuple) else list(h.type.elts)
            hn += [(flow.dotted(x) or "").split(".")[-1] if x is not None else "BaseException" for x in hs]
        raisers = body_raisers(t.body, I, mod)
        kinds_ = {(k, e) for k, e, _ in raisers}
        if not raisers:
            continue
        # guarded operations whose table exception no handler catches
        for k, e in sorted(kinds_):
            if k in ("subscript", "str-concat"):
                continue  # judged by key-defined / kind rules
            ctx.ob("C19.handler", f"{fname}:try@{nth_try(fn, t)}:{k}", catches(hn, e),
                   f"{k} raises {e}, handlers catch {hn}" + ("" if catches(hn, e) else f": {e} escapes instead of being converted"), L(ctx, mod, t))
        # dead handlers whose exception nothing in the body raises per the table (only when a conversion is mismatched)
        for h in hn:
            if h in ("IndexError",) and not any(e in ("IndexError", "LookupError") or k == "subscript" for k, e in kinds_):
                ctx.ob("C19.handler", f"{fname}:try@{nth_try(fn, t)}:handler {h}", False,
                       f"handler catches {h} but the guarded statements can only raise {sorted({e for _, e in kinds_})}", L(ctx, mod, t))


def nth_try(fn, t):
    tries = [x for x in ast.walk(fn) if isinstance(x, ast.Try)]
    tries.sort(key=lambda x: x.lineno)
    return tries.index(t)


def scope(ctx, mod, fname, fn):
    locs, declared = flow.local_names(fn)
    bad = []
    for n in ast.walk(fn):
        if isinstance(n, ast.Subscript) and isinstance(n.value, ast.Name):
            nm = n.value.id
            if nm not in locs and nm not in mod.defs and nm not in mod.imports and hasattr(builtins, nm):
                bad.append((nm, n.lineno))
    ctx.ob("C19.scope", fname, not bad, "; ".join(f"`{nm}[...]` at line {ln} subscripts the Python builtin `{nm}` (TypeError)" for nm, ln in bad), L(ctx, mod, fn))


def kinds(ctx, mod, fns, I, param_fields):
    from ..interp import Env
    fn = fns.get("_parse_config_params")
    if fn is None:
        return
    n = 0
    for b in ast.walk(fn):
        if isinstance(b, ast.BinOp) and isinstance(b.op, ast.Add):
            sides = (b.left, b.right)
            if any(isinstance(x, ast.Constant) and isinstance(x.value, str) for x in sides):
                other = [x for x in sides if not (isinstance(x, ast.Constant) and isinstance(x.value, str))]
                for o in other:
                    if isinstance(o, ast.Subscript) and isinstance(o.value, ast.Name) and o.value.id == "_params" and isinstance(o.slice, ast.Constant) and o.slice.value in param_fields:
                        k = o.slice.value
                        dflt = I.ev(param_fields[k][2], Env(param_fields[k][3].module))
                        dk = kind_of(dflt)
                        st = enclosing_stmt(fn, b)
                        guarded = guarded_by_isinstance(fn, st, k) or in_try_catching(fn, st, ("TypeError",)) and False
                        n += 1
                        ctx.ob("C19.kind", f"_parse_config_params:str + _params[{k}]", dk == "str" or guarded,
                               f"the default of {k} is of kind {dk}; concatenating it to a string raises TypeError when the key is omitted" if not (dk == "str" or guarded) else "guarded by an isinstance test", L(ctx, mod, b))
    # len()/iteration on tuple-kind defaults is fine; numeric comparisons on numeric kinds are fine
    for call in ast.walk(fn):
        if isinstance(call, ast.Call) and flow.dotted(call.func) == "len" and call.args and isinstance(call.args[0], ast.Subscript):
            o = call.args[0]
            if isinstance(o.value, ast.Name) and o.value.id == "_params" and isinstance(o.slice, ast.Constant) and o.slice.value in param_fields:
                dflt = I.ev(param_fields[o.slice.value][2], Env(param_fields[o.slice.value][3].module))
                n += 1
                ctx.ob("C19.kind", f"_parse_config_params:len(_params[{o.slice.value}])", kind_of(dflt) in ("tuple", "list", "str"), f"default kind {kind_of(dflt)}", L(ctx, mod, call))
    ctx.floor("C19.kind", 3)


def enclosing_stmt(fn, node):
    for s in ast.walk(fn):
        if isinstance(s, ast.stmt) and not isinstance(s, (ast.FunctionDef, ast.If, ast.For, ast.Try, ast.While, ast.With)):
            if any(x is node for x in ast.walk(s)):
                return s
    return None


def guarded_by_isinstance(fn, st, key):
    for i in ast.walk(fn):
        if isinstance(i, ast.If) and st is not None and any(st is x or any(st is y for y in ast.walk(x)) for x in i.body):
            t = ast.unparse(i.test)
            if "isinstance" in t and key in t:
                return True
    return False


def output_kept(ctx, mod, fns):
    fn = fns["parse_config"]
    # `_output = toml.get("output", {})` creates a detached dict unless stored back
    detached = []
    for s in ast.walk(fn):
        if isinstance(s, ast.Assign) and isinstance(s.value, ast.Call) and isinstance(s.value.func, ast.Attribute) and s.value.func.attr == "get" \
                and flow.dotted(s.value.func.value) == "toml" and len(s.value.args) == 2 and isinstance(s.value.args[1], (ast.Dict, ast.Call)):
            key = s.value.args[0].value if isinstance(s.value.args[0], ast.Constant) else None
            name = s.targets[0].id if isinstance(s.targets[0], ast.Name) else None
            mutated = any(isinstance(a, ast.Assign) and any(isinstance(t, ast.Subscript) and flow.dotted(t.value) == name for t in a.targets) for a in ast.walk(fn)) or \
                any(isinstance(c, ast.Call) and any(isinstance(x, ast.Name) and x.id == name for x in c.args) for c in ast.walk(fn))
            stored = any(isinstance(a, ast.Assign) and any(isinstance(t, ast.Subscript) and flow.dotted(t.value) == "toml" and isinstance(t.slice, ast.Constant) and t.slice.value == key for t in a.targets)
                         and isinstance(a.value, ast.Name) and a.value.id == name for a in ast.walk(fn))
            if mutated and not stored:
                detached.append((name, key, s.lineno))
    ctx.ob("C19.output-kept", "parse_config", not detached,
           "; ".join(f"`{n}` = toml.get({k!r}, {{}}) is filled with defaults but never stored back (line {ln}): the defaults are lost when the table is omitted" for n, k, ln in detached), L(ctx, mod, fn))
