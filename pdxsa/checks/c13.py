"""C13 — eigenvalue-based texture and strain diagnostics: scatter matrix form/covariance, P/G/R, Bingham mean, coaxial index, finite strain."""

from __future__ import annotations

import itertools

import numpy as np

from .. import alg
from ..alg import E, lift, ZERO, ONE, Sqrt
from ..interp import Interp, RaiseSig
from ..values import symarr, mkarr
from .common import explore_exits, public, defloc, short, ident, ident_arr, call_public, Abort

LEVEL = "other"
AXES = {"a": 0, "b": 1, "c": 2}


def scatter_ref(A, row):
    S = np.empty((3, 3), dtype=object)
    for i in range(3):
        for j in range(3):
            S[i, j] = sum((A[g, row, i] * A[g, row, j] for g in range(A.shape[0])), ZERO)
    return S


def lower(S):
    return tuple(S[i, j] for i in range(3) for j in range(i + 1))


def eig_atoms(tri):
    return [alg.Fn("eigvalsh", tri, k) for k in range(3)], [[alg.Fn("eigh.vec", tri, i, k) for k in range(3)] for i in range(3)]


def eigen_axis(ctx, rule, tag, M, lam, v, loc):
    """v is a unit eigenvector of the symmetric matrix M for the eigenvalue lam (an axis: no sign convention is demanded)."""
    res = [sum((M[i, j] * v[j] for j in range(3)), ZERO) - lam * v[i] for i in range(3)]
    ident_arr(ctx, rule, f"{tag}: M v = lambda_max v", mkarr(res), mkarr([ZERO, ZERO, ZERO]), loc, what="eigen-equation residual")
    ident(ctx, rule, f"{tag}: unit length", sum((x * x for x in v), ZERO), ONE, loc)


def same_tris(got, tri):
    """The set of eigen-solver arguments met equals {tri} (cellwise, decided by the algebra)."""
    if len(got) != 1:
        return False
    (g,) = got
    return len(g) == len(tri) and all(alg.decide(x, y)[0] == "equal" for x, y in zip(g, tri))


def run(ctx):
    ctx.explanation = (
        "ALG with the eigen-solver as uninterpreted atoms whose argument is the lower triangle it reads: for each crystal-axis letter the "
        "eigen-solver inside symmetry_pgr / bingham_average is applied to exactly sum_g a_g a_g^T of the matching row (producer/consumer "
        "triangle agreement); the scatter matrix is even in each grain's sign, symmetric in grain order and covariant S(A Q^T) = Q S Q^T as a "
        "polynomial identity in a generic Q; with ascending eigenvalue atoms e0<=e1<=e2: P=(e2-e1)/s, G=2(e1-e0)/s, R=3e0/s, P+G+R == 1; the "
        "Bingham mean is the normalised eigenvector column of the largest eigenvalue; coaxial_index equals its formula in the P,G atoms of "
        "the two axes; finite_strain uses the left Cauchy-Green tensor F F^T, returns sqrt(lambda_max)-1 and the matching column; other axis "
        "letters raise ValueError.  Not decided: ranges [0,1] (follow from e_k >= 0), co-rotation of eigenvectors up to sign (library "
        "numerics), agreement with angle_fse_simpleshear.")
    ctx.trusted += ["scipy.linalg.eigh/eigvalsh return ascending eigenvalues and read the lower triangle by default (library fact)"]
    ctx.rule("C13.scatter", "the matrix handed to the eigen-solver has lower triangle sum_g A[g,row,i]·A[g,row,j] for the row of the axis letter")
    ctx.rule("C13.objective", "scatter matrix: even in each grain's row sign, invariant under grain permutation, covariant under A -> A·Q^T")
    ctx.rule("C13.pgr", "P, G, R equal the reference formulas in the ascending eigenvalue atoms; P+G+R == 1")
    ctx.rule("C13.bingham", "bingham_average(axis) = v with S v == lambda_max(S) v and v.v == 1 for the scatter matrix S of that axis (eigen-equation: any way of computing the axis, any sign)")
    ctx.rule("C13.coaxial", "coaxial_index == (2 - P1/(G1+P1) - G2/(G2+P2))/2 with the PGR atoms of axis1 and axis2")
    ctx.rule("C13.finite-strain", "finite_strain(F) = (sqrt(lambda_max(F F^T)) - 1, v) with F F^T v == lambda_max v and v.v == 1 (eigen-equation: any way of computing it, any sign)")
    ctx.rule("C13.axis-table", "letters a,b,c map to rows 0,1,2 in both functions; any other letter raises ValueError")
    I = Interp(ctx.program)
    D = "pydrex.diagnostics."
    N = 3 if ctx.tier == "quick" else 5
    A = symarr("A", (N, 3, 3))
    for fname in ("symmetry_pgr", "bingham_average"):
        loc = defloc(ctx, D + fname)
        for letter, row in AXES.items():
            S = scatter_ref(A, row)
            tri = lower(S)
            ev, vec = eig_atoms(tri)
            try:
                out = call_public(ctx, I, D + fname, A.copy(), letter)
            except Abort:
                continue
            if fname == "symmetry_pgr":
                s = ev[0] + ev[1] + ev[2]
                ref = ((ev[2] - ev[1]) / s, 2 * (ev[1] - ev[0]) / s, 3 * ev[0] / s)
                ok_shape = isinstance(out, tuple) and len(out) == 3
                ctx.ob("C13.pgr", f"{letter}:shape", ok_shape, f"returned {type(out).__name__}", loc)
                if not ok_shape:
                    continue
                used = set()
                for o in out:
                    used |= {a for a in alg.atoms_of(lift(o), deep=False) if a.kind == "fn:eigvalsh"}
                got_tri = {a.args[0] for a in used}
                # (which matrix the function hands to which solver is its own business - a scatter matrix normalised by the number of grains
                # has the same P, G, R: the values are decided by C13.pgr against the eigenvalues of sum_g a a^T, evaluated exactly)
                if not (used and same_tris(got_tri, tri)):
                    ctx.observe(f"symmetry_pgr({letter}) does not hand sum_g a a^T itself to a library eigen-solver; its values are decided by C13.pgr against the eigenvalues of sum_g a a^T alone")
                for nm, o, r in zip("PGR", out, ref):
                    ident(ctx, "C13.pgr", f"{letter}:{nm}", o, r, loc)
                ident(ctx, "C13.pgr", f"{letter}:P+G+R", lift(out[0]) + lift(out[1]) + lift(out[2]), ONE, loc)
                Ig = Interp(ctx.program)
                Ig.call(public(ctx, Ig, D + "symmetry_pgr"), (A.copy(), letter))
                explore_exits(ctx, "C13.pgr", f"symmetry_pgr({letter})", Ig, 0, lambda: Interp(ctx.program),
                              lambda I_, letter=letter: I_.call(public(ctx, I_, D + "symmetry_pgr"), (A.copy(), letter)), ref, loc, what="(P, G, R)")
            else:
                # the mean axis, whichever way it is computed: a unit vector v with S v = lambda_max(S) v (an axis: its sign is free)
                ok_shape = isinstance(out, np.ndarray) and out.shape == (3,)
                ctx.ob("C13.bingham", f"{letter}:shape", ok_shape, f"returned {getattr(out, 'shape', type(out).__name__)}", loc)
                if not ok_shape:
                    continue
                used = set()
                for o in out.flat:
                    used |= {a for a in alg.atoms_of(lift(o), deep=True) if a.kind == "fn:eigh.vec"}
                got_tri = {a.args[0] for a in used}
                if not (used and same_tris(got_tri, tri)):
                    ctx.observe(f"bingham_average({letter}) does not hand sum_g a a^T itself to a library symmetric eigen-solver; its axis is decided by the eigen-equation alone")
                eigen_axis(ctx, "C13.bingham", letter, S, ev[2], out, loc)
        for bad in ("d", "x", "A"):
            f = public(ctx, I, D + fname)
            try:
                I.call(f, (A.copy(), bad))
                ctx.ob("C13.axis-table", f"{fname}:{bad}", False, "invalid axis letter accepted", loc)
            except RaiseSig as r:
                ctx.ob("C13.axis-table", f"{fname}:{bad}", r.exc.typename == "ValueError", f"raised {r.exc.typename}", loc)
    # one grain and two grains: fewer grains than axes (a scatter matrix of rank one or two)
    for Ns in (1, 2):
        As = symarr(f"A{Ns}g", (Ns, 3, 3))
        for letter, row in AXES.items():
            tri_s = lower(scatter_ref(As, row))
            ev_s, _ = eig_atoms(tri_s)
            ssum = ev_s[0] + ev_s[1] + ev_s[2]
            ref_s = ((ev_s[2] - ev_s[1]) / ssum, 2 * (ev_s[1] - ev_s[0]) / ssum, 3 * ev_s[0] / ssum)
            tag = f"{letter}:{Ns} grain{'s' if Ns > 1 else ''}"
            try:
                out_s = I.call(public(ctx, I, D + "symmetry_pgr"), (As.copy(), letter))
            except RaiseSig as r:
                ctx.ob("C13.pgr", tag, False, f"raises {r.exc.typename}", defloc(ctx, D + "symmetry_pgr"))
                continue
            except Exception as ex:
                if type(ex).__name__ not in ("Unsupported", "AlgError"):
                    raise
                ctx.ob("C13.pgr", tag, "inconclusive", f"outside the interpreted subset: {str(ex)[:100]}", defloc(ctx, D + "symmetry_pgr"))
                continue
            if not (isinstance(out_s, tuple) and len(out_s) == 3):
                ctx.ob("C13.pgr", tag, False, f"returned {type(out_s).__name__}", defloc(ctx, D + "symmetry_pgr"))
                continue
            for nm, o, r in zip("PGR", out_s, ref_s):
                ident(ctx, "C13.pgr", f"{tag}:{nm}", o, r, defloc(ctx, D + "symmetry_pgr"))
    ctx.floor("C13.pgr", 30)
    # objectivity of the scatter matrix (through the public symmetry_pgr: compare eigen-solver arguments)
    loc = defloc(ctx, D + "symmetry_pgr")

    def tri_of(Ax, letter):
        out = I.call(public(ctx, I, D + "symmetry_pgr"), (Ax, letter))
        ats = {a for o in out for a in alg.atoms_of(lift(o)) if a.kind == "fn:eigvalsh"}
        tris = {a.args[0] for a in ats}
        return tris.pop() if len(tris) == 1 else None

    def full(tri):
        S = np.empty((3, 3), dtype=object)
        k = 0
        for i in range(3):
            for j in range(i + 1):
                S[i, j] = S[j, i] = tri[k]
                k += 1
        return S
    Q = symarr("Q", (3, 3))
    for letter, row in AXES.items():
        base = tri_of(A.copy(), letter)
        if base is None:
            ctx.ob("C13.objective", f"{letter}", "inconclusive", "could not identify the eigen-solver argument", loc)
            continue
        flipped = A.copy()
        flipped[1] = -flipped[1]
        ctx.ob("C13.objective", f"{letter}:even in grain sign", same_tris({tri_of(flipped, letter)}, base), "", loc)
        twofold = A.copy()
        for r_ in range(3):
            if r_ != row:
                twofold[0, r_] = -twofold[0, r_]
        ctx.ob("C13.objective", f"{letter}:lattice two-fold about the axis", same_tris({tri_of(twofold, letter)}, base), "", loc)
        perm = A[list(range(1, N)) + [0]].copy()
        ctx.ob("C13.objective", f"{letter}:grain permutation", same_tris({tri_of(perm, letter)}, base), "", loc)
        rot = np.empty(A.shape, dtype=object)
        for g in range(N):
            rot[g] = A[g] @ Q.T
        t2 = tri_of(rot, letter)
        if t2 is None:
            ctx.ob("C13.objective", f"{letter}:covariance", "inconclusive", "", loc)
        else:
            ident_arr(ctx, "C13.objective", f"{letter}:S(A·Q^T) == Q·S·Q^T", full(t2), Q @ full(base) @ Q.T, loc)
    # coaxial index
    locc = defloc(ctx, D + "coaxial_index")
    try:
        ci = call_public(ctx, I, D + "coaxial_index", A.copy())
        def pg(letter):
            ev, _ = eig_atoms(lower(scatter_ref(A, AXES[letter])))
            s = ev[0] + ev[1] + ev[2]
            return (ev[2] - ev[1]) / s, 2 * (ev[1] - ev[0]) / s
        P1, G1 = pg("b")
        P2, G2 = pg("a")
        ident(ctx, "C13.coaxial", "default axes (b, a)", ci, (2 - P1 / (G1 + P1) - G2 / (G2 + P2)) / 2, locc)
        ci2 = call_public(ctx, I, D + "coaxial_index", A.copy(), "c", "b")
        P1, G1 = pg("c")
        P2, G2 = pg("b")
        ident(ctx, "C13.coaxial", "axes (c, b)", ci2, (2 - P1 / (G1 + P1) - G2 / (G2 + P2)) / 2, locc)
    except Abort:
        pass
    # finite strain
    locf = defloc(ctx, D + "finite_strain")
    F = symarr("F", (3, 3))
    try:
        out = call_public(ctx, I, D + "finite_strain", F.copy())
        B = F @ F.T
        tri = lower(B)
        ev, vec = eig_atoms(tri)
        ok = isinstance(out, tuple) and len(out) == 2
        ctx.ob("C13.finite-strain", "shape", ok, "", locf)
        if ok:
            ident(ctx, "C13.finite-strain", "largest principal stretch - 1", out[0], Sqrt(ev[2]) - 1, locf)
            if isinstance(out[1], np.ndarray) and out[1].shape == (3,):
                eigen_axis(ctx, "C13.finite-strain", "long axis", B, ev[2], out[1], locf)
            else:
                ctx.ob("C13.finite-strain", "long axis:shape", False, f"returned {getattr(out[1], 'shape', type(out[1]).__name__)}", locf)
    except Abort:
        pass
    ctx.floor("C13.finite-strain", 4)
