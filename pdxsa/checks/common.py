"""Shared helpers for the per-property checkers."""

from __future__ import annotations

import ast

import numpy as np

from .. import alg
from ..alg import E, lift, ZERO, ONE
from ..interp import Interp, RaiseSig
from ..program import AnchorMissing
from ..report import AnalysisError
from ..values import (symarr, mkarr, full, keyof, Opaque, FuncVal, ClassVal, Record, IntSym, EnumMember,
                      Native, Unsupported, Guard)


def short(e, n=160):
    s = repr(e)
    return s if len(s) <= n else s[: n - 3] + "..."


def public(ctx, I, dotted):
    """Resolve a public anchor; a vanished anchor is an analysis error (exit 2)."""
    ctx.program.require(dotted)  # raises AnchorMissing
    try:
        return I.resolve(dotted)
    except KeyError:
        raise AnchorMissing(f"{dotted} cannot be resolved")


def defloc(ctx, dotted):
    mod, _, name = dotted.rpartition(".")
    m = ctx.program.module(mod)
    node = ctx.program.require(dotted)
    return f"{ctx.program.relpath(m.path)}:{node.lineno} ({name})"


def ident(ctx, rule, construct, lhs, rhs, loc="", what=""):
    """Obligation lhs == rhs decided by normalisation; refutations are confirmed by a numeric witness."""

    def f():
        a, b = lhs, rhs
        if isinstance(a, Opaque) or isinstance(b, Opaque):
            return "inconclusive", f"opaque value: {a if isinstance(a, Opaque) else b}"
        verdict, info = alg.decide(a, b)
        if verdict == "equal":
            return True, ""
        if verdict == "differ":
            return False, f"{what + ': ' if what else ''}extracted {short(a)}  !=  expected {short(b)}  (witness {info})"
        return "inconclusive", f"{info} ({short(lift(a) - lift(b))})"

    return ctx.check(rule, construct, f, loc)


def ident_arr(ctx, rule, construct, A, B, loc="", what=""):
    """Cellwise identity of two arrays as ONE obligation (reports the first differing cell)."""

    def f():
        if isinstance(A, Opaque) or isinstance(B, Opaque):
            return "inconclusive", "opaque array"
        a, b = np.asarray(A, dtype=object), np.asarray(B, dtype=object)
        if a.shape != b.shape:
            return False, f"{what}: shape {a.shape} != expected {b.shape}"
        for i in np.ndindex(*a.shape):
            x, y = a[i], b[i]
            if isinstance(x, Opaque) or isinstance(y, Opaque):
                return "inconclusive", f"opaque cell {i}"
            verdict, info = alg.decide(x, y)
            if verdict == "differ":
                return False, f"{what + ': ' if what else ''}cell {list(i)}: extracted {short(x)} != expected {short(y)} (witness {info})"
            if verdict != "equal":
                return "inconclusive", f"cell {i}: {info}"
        return True, ""

    return ctx.check(rule, construct, f, loc)


def zero(ctx, rule, construct, e, loc="", what=""):
    return ident(ctx, rule, construct, e, ZERO, loc, what)


def sym_matrix(name, n):
    m = symarr(name, (n, n))
    for i in range(n):
        for j in range(i):
            m[i, j] = m[j, i]
    return m


def enum(I, dotted, member):
    cv = I.resolve(dotted)
    if not isinstance(cv, ClassVal):
        raise AnalysisError(f"{dotted} is not a class")
    if member not in cv.members:
        raise AnchorMissing(f"enum member {dotted}.{member} not found")
    return cv.members[member]


def coeff(e, atom_e):
    """Coefficient (an E) of the degree-1 occurrence of a symbol in a linear form."""
    (a,) = alg.atoms_of(atom_e)
    return alg.derive(e, {a: ONE})


class Abort(Exception):
    """Raised after a failing obligation has been recorded when the rest of the check cannot proceed."""


def call_public(ctx, I, dotted, *args, **kw):
    """Interpret a public function on abstract inputs.  If the interpreted code raises on the generic
    path, that is itself a violation (the function raises for generic input)."""
    f = public(ctx, I, dotted)
    try:
        return I.call(f, tuple(args), kw)
    except RaiseSig as r:
        node = r.exc.node
        ctx.ob("generic-path-raises", dotted, False,
               f"{dotted} raises {r.exc.typename} on generic symbolic input (raise site line {getattr(node, 'lineno', '?')})",
               defloc(ctx, dotted))
        raise Abort()


def func_calls(node):
    """All ast.Call nodes in a function body (excluding nested defs? no: including)."""
    return [n for n in ast.walk(node) if isinstance(n, ast.Call)]


# --------------------------------------------------------------------------- parallel cases

_PAR = {}


def _par_entry(i):
    from ..report import Ctx
    ctx0, worker, cases = _PAR["ctx"], _PAR["worker"], _PAR["cases"]
    sub = Ctx(ctx0.prop, ctx0.tier, ctx0.repo, ctx0.program, ctx0.seed)
    try:
        worker(sub, cases[i])
        err = None
    except Exception as ex:  # reported by the parent as an analysis error
        import traceback
        err = f"{type(ex).__name__}: {ex}\n{traceback.format_exc()}"
    obs = [(o.rule, o.construct, o.status, o.detail, o.loc, o.nontrivial, o.key) for o in sub.obs]
    return i, obs, sub.counters, sorted(sub.assumptions), sub.samples, err


def parallel_cases(ctx, worker, cases, jobs=None):
    """Run worker(subctx, case) for each case in forked processes; merge obligations in case order."""
    import multiprocessing as mp
    import os
    from ..report import Ob, AnalysisError
    jobs = jobs or int(os.environ.get("PDXSA_JOBS", "0")) or min(16, os.cpu_count() or 1)
    _PAR.update(ctx=ctx, worker=worker, cases=cases)
    if jobs <= 1 or len(cases) <= 1:
        results = [_par_entry(i) for i in range(len(cases))]
    else:
        with mp.get_context("fork").Pool(min(jobs, len(cases))) as pool:
            results = pool.map(_par_entry, range(len(cases)), chunksize=1)
    results.sort(key=lambda r: r[0])
    for i, obs, counters, assumptions, samples, err in results:
        if err:
            raise AnalysisError(f"case {cases[i]!r}: {err}")
        for t in obs:
            ctx.obs.append(Ob(*t))
        for k, v in counters.items():
            ctx.count(k, v)
        for a in assumptions:
            ctx.assume(a)
        for smp in samples:
            ctx.sample(smp)
