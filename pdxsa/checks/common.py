"""Shared helpers for the per-property checkers."""

from __future__ import annotations

import ast

import numpy as np

from .. import alg
from ..alg import E, lift, ZERO, ONE
from ..interp import Interp, RaiseSig
from ..program import AnchorMissing
from ..report import AnalysisError
from ..values import (symarr, mkarr, full, keyof, Opaque, FuncVal, ClassVal, Record, IntSym, EnumMember,
                      Native, Unsupported, Guard)


def short(e, n=160):
    s = repr(e)
    return s if len(s) <= n else s[: n - 3] + "..."


def public(ctx, I, dotted):
    """Resolve a public anchor; a vanished anchor is an analysis error (exit 2)."""
    ctx.program.require(dotted)  # raises AnchorMissing
    try:
        return I.resolve(dotted)
    except KeyError:
        raise AnchorMissing(f"{dotted} cannot be resolved")


def defloc(ctx, dotted):
    mod, _, name = dotted.rpartition(".")
    m = ctx.program.module(mod)
    node = ctx.program.require(dotted)
    return f"{ctx.program.relpath(m.path)}:{node.lineno} ({name})"


def _havoced(x):
    """does the extracted value depend on symbols that stand for something the interpreter could not follow (havoc)?  A mismatch involving
    them says nothing about the program."""
    try:
        return any(a.kind == "sym" and str(a.args[0]).startswith("havoc") for a in alg.atoms_of(lift(x), deep=True))
    except Exception:
        return False


def ident(ctx, rule, construct, lhs, rhs, loc="", what=""):
    """Obligation lhs == rhs decided by normalisation; refutations are confirmed by a numeric witness."""

    def f():
        a, b = lhs, rhs
        if isinstance(a, Opaque) or isinstance(b, Opaque):
            return "inconclusive", f"opaque value: {a if isinstance(a, Opaque) else b}"
        verdict, info = alg.decide(a, b)
        if verdict == "equal":
            return True, ""
        if verdict == "differ":
            if _havoced(a) and not _havoced(b):
                return "inconclusive", f"the extracted value depends on an operation the interpreter could not follow (havoc): {short(a)}"
            return False, f"{what + ': ' if what else ''}extracted {short(a)}  !=  expected {short(b)}  (witness {info})"
        return "inconclusive", f"{info} ({short(lift(a) - lift(b))})"

    return ctx.check(rule, construct, f, loc)


def ident_arr(ctx, rule, construct, A, B, loc="", what=""):
    """Cellwise identity of two arrays as ONE obligation (reports the first differing cell)."""

    def f():
        if isinstance(A, Opaque) or isinstance(B, Opaque):
            return "inconclusive", "opaque array"
        a, b = np.asarray(A, dtype=object), np.asarray(B, dtype=object)
        if a.shape != b.shape:
            return False, f"{what}: shape {a.shape} != expected {b.shape}"
        # pass 1, cheap (numeric witnesses and a small algebra budget) over ALL cells: a definite difference anywhere takes precedence over a
        # cell that cannot be decided; pass 2 spends the full budget on the cells pass 1 left open and stops at the first one still open
        pending, todo = None, []
        for i in np.ndindex(*a.shape):
            x, y = a[i], b[i]
            if isinstance(x, Opaque) or isinstance(y, Opaque):
                pending = pending or ("inconclusive", f"opaque cell {i}")
                continue
            verdict, info = alg.decide(x, y, budget=20_000, seconds=3)
            if verdict == "differ":
                if _havoced(x) and not _havoced(y):
                    pending = pending or ("inconclusive", f"cell {list(i)} depends on an operation the interpreter could not follow (havoc): {short(x)}")
                    continue
                return False, f"{what + ': ' if what else ''}cell {list(i)}: extracted {short(x)} != expected {short(y)} (witness {info})"
            if verdict != "equal":
                todo.append(i)
        if pending is not None:
            return pending
        for i in todo:
            x, y = a[i], b[i]
            verdict, info = alg.decide(x, y)
            if verdict == "differ":
                return False, f"{what + ': ' if what else ''}cell {list(i)}: extracted {short(x)} != expected {short(y)} (witness {info})"
            if verdict != "equal":
                return "inconclusive", f"cell {i}: {info}"
        return True, ""

    return ctx.check(rule, construct, f, loc)


def zero(ctx, rule, construct, e, loc="", what=""):
    return ident(ctx, rule, construct, e, ZERO, loc, what)


def sym_matrix(name, n):
    m = symarr(name, (n, n))
    for i in range(n):
        for j in range(i):
            m[i, j] = m[j, i]
    return m


def enum(I, dotted, member):
    cv = I.resolve(dotted)
    if not isinstance(cv, ClassVal):
        raise AnalysisError(f"{dotted} is not a class")
    if member not in cv.members:
        raise AnchorMissing(f"enum member {dotted}.{member} not found")
    return cv.members[member]


def coeff(e, atom_e):
    """Coefficient (an E) of the degree-1 occurrence of a symbol in a linear form."""
    (a,) = alg.atoms_of(atom_e)
    return alg.derive(e, {a: ONE})


def arg_array_ids(values, depth=0, acc=None):
    """identities of every array reachable from the arguments of a call (lists, tuples, dictionaries and records included)"""
    acc = set() if acc is None else acc
    if depth > 4:
        return acc
    for v in values:
        if isinstance(v, np.ndarray):
            acc.add(id(v))
        elif isinstance(v, (list, tuple)):
            arg_array_ids(v, depth + 1, acc)
        elif isinstance(v, dict):
            arg_array_ids(list(v.values()), depth + 1, acc)
        elif hasattr(v, "attrs") and isinstance(getattr(v, "attrs"), dict):
            arg_array_ids(list(v.attrs.values()), depth + 1, acc)
    return acc


def dtype_rule(ctx, I, t0, arg_values, dotted, construct=None):
    """<Cxx>.dtype: no buffer allocated on the path of a numeric function takes its element type from an array the caller passed in."""
    ids = arg_array_ids(arg_values)
    inherited = [e for e in I.trace[t0:] if e.kind == "dtype-from" and e.data and any(i_ in ids for i_ in e.data)]
    if inherited:
        rule_d = f"{ctx.prop}.dtype"
        if rule_d not in ctx.rules_doc:
            ctx.rule(rule_d, "a public numeric function does not allocate a result buffer with the element type of an argument array (`dtype=x.dtype`, "
                             "`zeros_like(x)`, also of a view of it or of an array held by a record argument): for an integer-typed argument every "
                             "non-integral result stored in it is silently truncated")
        ctx.ob(rule_d, construct or dotted.split(".")[-1], False,
               f"{len(inherited)} buffer(s) take their element type from an argument (first at {inherited[0].loc})", inherited[0].loc or defloc(ctx, dotted))
    return bool(inherited)


def default_arg_writes(I, t0=0):
    """writes (array stores, in-place operators, out= targets, dictionary stores/updates, list appends) into an object that is the DEFAULT
    VALUE of a parameter: it was created once and is shared by every call, so what one call leaves in it the next call finds"""
    hits = []
    if not I.default_objects:
        return hits
    # (a dictionary store under a key built from the data of the call is a memo table keyed by its arguments: whether it is keyed well
    # enough is what the <Cxx>.history rule decides; it is not reported here)
    for e in I.trace[t0:]:
        if e.kind in ("store", "inplace", "dict-store", "dict-update", "dict-pop", "list-append", "list-mutate"):
            if e.kind == "dict-store" and len(e.data) > 2 and e.data[2] == "data-keyed":
                continue
            for d in e.data:
                if isinstance(d, int) and d in I.default_objects:
                    fn, pname, _ = I.default_objects[d]
                    hits.append((fn, pname, e.kind, e.loc))
    return hits


def default_arg_rule(ctx, I, t0, dotted, construct=None):
    hits = default_arg_writes(I, t0)
    if hits:
        rule = f"{ctx.prop}.default-args"
        if rule not in ctx.rules_doc:
            ctx.rule(rule, "no function on the interpreted path writes into the default value of one of its parameters (a mutable default is created "
                           "once at import and shared by all calls: a workspace, table or dictionary kept there carries state from one call to the next)")
        fn, pname, kind, loc_ = hits[0]
        ctx.ob(rule, construct or dotted.split(".")[-1], False,
               f"{len(hits)} write(s) into the default value of parameter `{pname}` of {fn} (first: {kind} at {loc_}): state shared by every call that omits the argument",
               loc_ or defloc(ctx, dotted))
    return bool(hits)


class Abort(Exception):
    """Raised after a failing obligation has been recorded when the rest of the check cannot proceed."""


# functions whose documented interface is to update their array arguments in place (and return them)
MUTATING_BY_CONTRACT = {"pydrex.utils.apply_gbs"}
_EXPLORED: set = set()
_HISTORY_DONE: set = set()


def _copy_args(a):
    if isinstance(a, np.ndarray):
        return a.copy()
    if isinstance(a, (list, tuple)):
        return type(a)(_copy_args(x) for x in a)
    if isinstance(a, dict):
        return {k: _copy_args(v) for k, v in a.items()}
    return a


def _like(I):
    """a fresh interpreter configured like I"""
    return Interp(I.program, externals=I.externals, stubs=I.stubs, cut_calls=I.cut_calls, perm_chooser=I.perm_chooser, max_depth=I.max_depth)


def _same_value(x, y):
    """equal as values (a cell may have been replaced by the let atom that stands for it)"""
    try:
        if isinstance(x, (E, int, float)) and isinstance(y, (E, int, float)):
            return alg.decide(x, y)[0] == "equal"
    except Exception:
        pass
    return False


def call_public(ctx, I, dotted, *args, **kw):
    """Interpret a public function on abstract inputs.  If the interpreted code raises on the generic
    path, that is itself a violation (the function raises for generic input)."""
    f = public(ctx, I, dotted)
    cases = kw.pop("__cases__", None)
    explore = kw.pop("__explore__", True)
    saved = _copy_args(args), _copy_args(kw)
    g0 = len(I.guards)
    t0_ = len(I.trace)
    u0_ = len(I.unsupported_log)
    try:
        out = I.call(f, tuple(args), kw)
        if dotted not in MUTATING_BY_CONTRACT:
            changed = [i for i, (a, b) in enumerate(zip(args, saved[0])) if isinstance(a, np.ndarray) and isinstance(b, np.ndarray)
                       and (a.shape != b.shape or any(keyof(x) != keyof(y) and not _same_value(x, y) for x, y in zip(a.flat, b.flat)))]
            if changed:
                rule_m = f"{ctx.prop}.args-untouched"
                if rule_m not in ctx.rules_doc:
                    ctx.rule(rule_m, "a public function that returns its result leaves the arrays it was given as they are (a caller that keeps using its "
                                     "arrays -- e.g. pole vectors after projecting them -- would otherwise see them rescaled)")
                ctx.ob(rule_m, dotted.split(".")[-1], False, f"argument array(s) {changed} were modified in place", defloc(ctx, dotted))
        dtype_rule(ctx, I, t0_, list(args) + list(kw.values()), dotted)
        default_arg_rule(ctx, I, t0_, dotted)
        if explore and (ctx.prop, dotted, keyof(saved[0])) not in _EXPLORED:
            _EXPLORED.add((ctx.prop, dotted, keyof(saved[0])))
            rule = f"{ctx.prop}.exit-paths"
            if rule not in ctx.rules_doc:
                ctx.rule(rule, "each data-dependent early-exit path of an interpreted public function (its own exits and those of the helpers it calls) returns what "
                               "the generic path returns on the region of the exit: the function is re-interpreted with that one exit taken and compared after "
                               "substituting what the exit condition says about the inputs (the generic path itself is held to the reference by the other rules)")

            def again(I_):
                return I_.call(public(ctx, I_, dotted), tuple(_copy_args(saved[0])), dict(_copy_args(saved[1])))
            explore_exits(ctx, rule, dotted.split(".")[-1], I, g0, lambda: _like(I), again, out, defloc(ctx, dotted), cases=cases)
            if (ctx.prop, dotted) not in _HISTORY_DONE:
                _HISTORY_DONE.add((ctx.prop, dotted))
                _history(ctx, I, dotted, saved, out)
        return out
    except RaiseSig as r:
        node = r.exc.node
        if r.exc.typename in ("IndexError", "TypeError", "AttributeError", "KeyError") and len(I.unsupported_log) > u0_:
            # an error of the kind that follows from a value the interpreter could not model (an unmodelled library call earlier in this very
            # call): not evidence about the program
            ctx.ob("generic-path-raises", dotted, "inconclusive",
                   f"{dotted} raises {r.exc.typename} at line {getattr(node, 'lineno', '?')} after unmodelled operations {[u[0] for u in I.unsupported_log[u0_:u0_ + 3]]}",
                   defloc(ctx, dotted))
            raise Abort()
        ctx.ob("generic-path-raises", dotted, False,
               f"{dotted} raises {r.exc.typename} on generic symbolic input (raise site line {getattr(node, 'lineno', '?')})",
               defloc(ctx, dotted))
        raise Abort()


def _rename_map(values):
    acc = set()
    for v in _flat_cells(values):
        if isinstance(v, E):
            acc |= {a for a in alg.atoms_of(v, deep=True) if a.kind in ("sym", "psym") and not (a.kind == "psym" and a.args[0] == "pi")}
    return {a: (alg.sym if a.kind == "sym" else alg.psym)(str(a.args[0]) + "'") for a in acc}


def _renamed(v, mp):
    if isinstance(v, np.ndarray):
        r = np.empty(v.shape, dtype=object)
        for i in np.ndindex(*v.shape):
            r[i] = _renamed(v[i], mp)
        return r
    if isinstance(v, (list, tuple)):
        return type(v)(_renamed(x, mp) for x in v)
    if isinstance(v, dict):
        return {k: _renamed(x, mp) for k, x in v.items()}
    if isinstance(v, E):
        return alg.subst(v, mp) if mp else v
    return v


def _copy_state(v, memo):
    if id(v) in memo:
        return memo[id(v)]
    if isinstance(v, dict):
        r = {}
        memo[id(v)] = r
        for k, x in v.items():
            r[k] = _copy_state(x, memo)
        return r
    if isinstance(v, list):
        r = []
        memo[id(v)] = r
        r.extend(_copy_state(x, memo) for x in v)
        return r
    if isinstance(v, set):
        return set(v)
    if isinstance(v, np.ndarray):
        return v.copy()
    return v


def _snapshot_state(program):
    """module-level containers of the interpreted program (what persists between calls)"""
    snap = {}
    for name, mod in program.modules.items():
        memo = {}
        snap[name] = {k: _copy_state(v, memo) for k, v in mod.globals_cache.items() if isinstance(v, (dict, list, set, np.ndarray))}
    return snap


def _restore_state(program, snap):
    for name, vals in snap.items():
        mod = program.modules.get(name)
        if mod is None:
            continue
        memo = {}
        for k, v in vals.items():
            cur = mod.globals_cache.get(k)
            new = _copy_state(v, memo)
            # keep the identity of the module-level object (functions may have captured it), replace its content
            if isinstance(cur, dict) and isinstance(new, dict):
                cur.clear()
                cur.update(new)
            elif isinstance(cur, list) and isinstance(new, list):
                cur[:] = new
            elif isinstance(cur, set) and isinstance(new, set):
                cur.clear()
                cur.update(new)
            elif isinstance(cur, np.ndarray) and isinstance(new, np.ndarray) and cur.shape == new.shape:
                cur[...] = new
            else:
                mod.globals_cache[k] = new
        for k in list(mod.globals_cache):
            if k.startswith("__memo__:") and k not in vals:
                del mod.globals_cache[k]


def _history(ctx, I, dotted, saved, out):
    """Call-history independence: module-level state of the interpreted program persists between calls, exactly as in a running process.
    After the call just made, the function is called again (i) with new argument objects holding different (renamed) symbols and (ii) with the
    SAME argument objects whose contents were overwritten by the renamed symbols; both must return the first result with the symbols renamed.
    A memo keyed by less than the whole input, or by object identity, fails this."""
    mp = _rename_map(list(saved[0]) + list(saved[1].values()))
    outc = _flat_cells(out)
    if not mp or not outc or not all(isinstance(c, (E, int, float)) and not isinstance(c, bool) for c in outc):
        return
    rule = f"{ctx.prop}.history"
    if rule not in ctx.rules_doc:
        ctx.rule(rule, "a public function returns a function of its arguments: called again in the same process with different values (in new objects, "
                       "and in the very same objects overwritten in place) it returns the first result with the values exchanged")
    expected = [_renamed(lift(c), mp) for c in outc]
    loc = defloc(ctx, dotted)
    for variant in ("new objects", "same objects overwritten in place"):
        a2 = _renamed(tuple(_copy_args(saved[0])), mp)
        k2 = _renamed(dict(_copy_args(saved[1])), mp)
        I2 = _like(I)
        if variant.startswith("same"):
            objs = tuple(_copy_args(saved[0]))
            if not any(isinstance(o, np.ndarray) for o in objs):
                continue
            try:
                I2.call(public(ctx, I2, dotted), objs, dict(_copy_args(saved[1])))
            except Exception:
                continue
            a3 = []
            for o, new in zip(objs, a2):
                if isinstance(o, np.ndarray) and isinstance(new, np.ndarray) and o.shape == new.shape:
                    o[...] = new
                    a3.append(o)
                else:
                    a3.append(new)
            a2 = tuple(a3)
        tag = f"{dotted.split('.')[-1]}:second call, {variant}"
        state = _snapshot_state(I.program)
        try:
            out2 = _flat_cells(I2.call(public(ctx, I2, dotted), a2, k2))
            if I2.exit_ids and variant.startswith("new"):
                # data-dependent exits met by the second call only (e.g. a look-up in a table filled by the first call): follow each of them
                # from the state the first call left behind
                after = _snapshot_state(I.program)

                def rerun(I_, a2=a2, k2=k2):
                    _restore_state(I.program, state)
                    return I_.call(public(ctx, I_, dotted), tuple(_copy_args(a2)), dict(_copy_args(k2)))
                explore_exits(ctx, rule, tag, I2, 0, lambda: _like(I), rerun, expected, loc, what="result of the second call",
                              skip={gl_ for _, gl_, _ in I.exit_ids})
                _restore_state(I.program, after)
        except RaiseSig as r:
            ctx.ob(rule, tag, False, f"the second call raises {r.exc.typename}", loc)
            continue
        except Exception as ex:      # outside the interpreted subset on the second call only: state-dependent behaviour we cannot follow
            ctx.ob(rule, tag, "inconclusive", f"second call not interpretable: {str(ex)[:100]}", loc)
            continue
        if len(out2) != len(expected):
            ctx.ob(rule, tag, False, f"{len(out2)} output cells, first call gave {len(expected)}", loc)
            continue

        def f(out2=out2):
            for i, (x, y) in enumerate(zip(out2, expected)):
                if isinstance(x, Opaque):
                    return "inconclusive", f"opaque cell {i}"
                verdict, info = alg.decide(x, y)
                if verdict == "differ":
                    return False, f"cell {i} of the second call is {short(x)}, expected {short(y)} (the first result with the inputs exchanged); witness {info}"
                if verdict != "equal":
                    return "inconclusive", f"cell {i}: {info}"
            return True, ""
        ctx.check(rule, tag, f, loc)


def _bare_sym(x):
    x = lift(x)
    if len(x.t) == 1:
        ((m, c),) = x.t.items()
        if len(m) == 1 and m[0][1] == 1 and c in (1, -1) and m[0][0].kind in ("sym", "psym"):
            return m[0][0]
    return None


def _zero_terms(X, out):
    """X >= 0 by construction and X <= tolerance: the symbols that are therefore (numerically) zero.  Returns False if X has a part whose
    vanishing says nothing about single symbols."""
    X = lift(X)
    ok = True
    for m, c in X.t.items():
        if not m:
            if c != 0:
                return False
            continue
        if c < 0:
            return False
        for a, ex in m:
            if a.kind in ("sym", "psym", "let") and isinstance(ex, int) and ex % 2 == 0:
                out[a] = ZERO
            elif a.kind == "abs":
                inner = a.args[0]
                b = inner if isinstance(inner, alg.Atom) else _bare_sym(inner)
                if b is not None and b.kind in ("sym", "psym", "let"):
                    out[b] = ZERO
                elif isinstance(inner, E):
                    # |c1*s + c0| squeezed to 0 for a single symbol s: s = -c0/c1
                    # |c1*s + rest| squeezed to 0 with s a symbol that occurs linearly with a constant coefficient and not in rest: s = -rest/c1
                    syms = sorted((x for x in alg.atoms_of(inner) if x.kind in ("sym", "psym") and x not in out), key=lambda a_: a_.id)
                    done = False
                    for s_ in syms:
                        c1 = alg.derive(inner, {s_: ONE})
                        rest = alg.subst(inner, {s_: ZERO})
                        if c1.is_const() and c1.cval() != 0 and s_ not in alg.atoms_of(rest, deep=True):
                            out[s_] = rest * lift(-1 / c1.cval())
                            done = True
                            break
                    if not done:
                        ok = False
                else:
                    ok = False
            elif a.kind == "fn:max" and isinstance(a.args[0], tuple):
                for el in a.args[0]:
                    if not _zero_terms(el, out):
                        ok = False
            elif a.kind in ("root", "fn:sqrt"):
                if not _zero_terms(a.args[0], out):
                    ok = False
            elif a.kind == "let":
                if not _zero_terms(a.defn, out):
                    ok = False
            else:
                ok = False
    return ok


TOL = alg.Fr(1, 10 ** 6)


def _is_tolerance(e):
    """a tolerance: a constant in [0, 1e-6], plus at most small multiples (<= 1e-4) of moduli (np.isclose: atol + rtol*|b|)"""
    e = lift(e)
    for m, c in e.t.items():
        if not m:
            if not (0 <= c <= TOL):
                return False
        else:
            if not (0 <= c <= alg.Fr(1, 10 ** 4)) or not all(a.kind == "abs" and isinstance(x, int) and x >= 1 for a, x in m):
                return False
    return True


def guard_substitution(g):
    """What an early-exit condition that HOLDS says about single input symbols: exact equalities sym == expr, and symbols squeezed below a
    tolerance <= 1e-6 (taken at 0, the centre of the region).  Returns {atom: E}; empty if the condition is not of that kind."""
    from ..values import Guard
    t = g.astuple() if isinstance(g, Guard) else g
    out = {}
    alg._guard_equalities(t, True, out)

    def walk(t, truth):
        if not (isinstance(t, tuple) and t and t[0] == "G"):
            return
        kind = t[1]
        if kind == "not":
            walk(t[2], not truth)
        elif kind == "and" and truth:
            for x in t[2:]:
                walk(x, True)
        elif kind == "or" and not truth:
            for x in t[2:]:
                walk(x, False)
        elif kind == "all" and truth and t[2] == "eqzero":
            for x in t[3]:
                b = _bare_sym(x)
                if b is not None:
                    out.setdefault(b, ZERO)
        elif kind == "cmp":
            op, x, y = t[2], t[3], t[4]
            if op == "between" and truth:
                lo, hi = y
                b = _bare_sym(x)
                if b is not None and abs(lo.cval()) <= TOL and abs(hi.cval()) <= TOL:
                    out.setdefault(b, ZERO)
                return
            if not (isinstance(x, E) and isinstance(y, E)):
                return
            if not truth:
                op = {"Lt": "GtE", "LtE": "Gt", "Gt": "LtE", "GtE": "Lt", "Eq": "NotEq", "NotEq": "Eq"}[op]
            small, big = None, None
            if op in ("Lt", "LtE") and _is_tolerance(y):
                small = x
            elif op in ("Gt", "GtE") and _is_tolerance(x):
                small = y
            elif op == "Eq" and y.is_const() and y.cval() == 0:
                small = x          # a sum of squares / moduli that is exactly zero
            elif op == "Eq" and x.is_const() and x.cval() == 0:
                small = y
            if small is not None:
                z = {}
                if _zero_terms(small, z):
                    for k_, v_ in z.items():
                        out.setdefault(k_, v_)
    walk(t, True)
    return out


def guard_substitutions(g):
    """A disjunction holds on the union of the regions of its disjuncts: one substitution per disjunct that says something about input
    symbols (each region is judged on its own).  Anything else: the single substitution of guard_substitution (possibly empty)."""
    from ..values import Guard
    t = g.astuple() if isinstance(g, Guard) else g
    if isinstance(t, tuple) and len(t) > 2 and t[0] == "G" and t[1] == "or":
        subs = [guard_substitution(x) for x in t[2:]]
        return [s_ for s_ in subs if s_]
    one = guard_substitution(g)
    return [one] if one else []


def exits_agree(ctx, rule, construct, I, g0, ref, loc, what="value returned early", cases=None):
    """Every data-dependent early return recorded by interpreter I since guard index g0 must equal the reference the generic path is held
    to, on the region where it is taken: both are compared after substituting what the exit condition says about the inputs.  Exits whose
    condition says nothing about single input symbols are listed as observations (not judged here)."""
    n = 0
    for g, outcome, gl, fn in I.guards[g0:]:
        if outcome[0] != "return":
            continue
        v = outcome[1]
        sub = guard_substitution(g)
        if not sub:
            ctx.observe(f"{construct}: early return at {gl} under {short(g, 80)} is not judged by {rule} (its condition is not an equality/tolerance on input symbols)")
            continue
        n += 1
        va, ra = np.asarray(v, dtype=object), np.asarray(ref, dtype=object)
        tag = f"{construct}:early return at {gl.split(' ')[0]}"
        if va.shape != ra.shape:
            ctx.ob(rule, tag, False, f"{what} has shape {va.shape}, the generic result {ra.shape}", gl)
            continue

        def f(va=va, ra=ra, sub=sub):
            # `cases`: what else the domain of the function says on that region (e.g. a rotation matrix without off-diagonal entries has
            # diagonal entries +-1): a list of further substitutions, all of which must agree
            for extra in (cases(sub) if cases is not None else [{}]):
                for i in np.ndindex(*va.shape):
                    x, y = va[i], ra[i]
                    if isinstance(x, Opaque) or isinstance(y, Opaque):
                        return "inconclusive", f"opaque cell {i}"
                    x, y = alg.subst(lift(x), sub), alg.subst(lift(y), sub)
                    if extra:
                        x, y = alg.subst(x, extra), alg.subst(y, extra)
                    verdict, info = alg.decide(x, y)
                    if verdict == "differ":
                        where = {**sub, **extra}
                        return False, (f"{what}, cell {list(i)}: {short(x)} != {short(y)} required on the region of the exit "
                                       f"({', '.join(str(k_.args[0]) + ' = ' + short(v_, 12) for k_, v_ in list(where.items())[:9])}; witness {info})")
                    if verdict != "equal":
                        return "inconclusive", f"cell {i}: {info}"
            return True, ""
        ctx.check(rule, tag, f, gl)
    return n


def _flat_cells(v):
    if isinstance(v, (tuple, list)):
        out = []
        for x in v:
            out.extend(_flat_cells(x))
        return out
    if isinstance(v, np.ndarray):
        return list(v.flat)
    return [v]


def explore_exits(ctx, rule, construct, generic, g0, new_interp, call, ref, loc, cases=None, limit=12, what="result", skip=None):
    """The reference that the generic path of a public function is held to must also hold on each of its data-dependent early-exit paths.
    The function is re-interpreted once per early exit met on the generic path (its own or a helper's), with that ONE exit taken instead of
    skipped, and the final result is compared with the reference after substituting what the exit condition says about the inputs
    (exact equalities; sums of squares / moduli that are zero or below a tolerance <= 1e-6).  Exits that raise, and exits whose condition is
    not of that kind, are listed as observations.  No feasibility reasoning: an exit path is interpreted, never searched for."""
    from ..values import Unsupported
    judged = 0
    refc = _flat_cells(ref)
    todo = []
    for gi, gl0, occ in generic.exit_ids:
        if gi < g0 or gi >= len(generic.guards):
            continue
        g_, outcome_, _, _ = generic.guards[gi]
        if outcome_[0] == "raise" or (skip and gl0 in skip):
            continue
        if guard_substitutions(g_):
            todo.append((gl0, occ))
        else:
            ctx.observe(f"{construct}: early exit at {gl0} under {short(g_, 80)} is not judged by {rule} (its condition is not an equality/tolerance on inputs)")
    for key in todo[:limit]:
        Ik = new_interp()
        Ik.force_exit = key
        try:
            outk = call(Ik)
        except RaiseSig as r:
            if Ik.forced is not None:
                ctx.observe(f"{construct}: the early exit at {Ik.forced[1]} raises {r.exc.typename} (not judged by {rule})")
            continue
        except (Unsupported, alg.AlgError, Abort, ZeroDivisionError) as ex:
            if Ik.forced is not None:
                ctx.observe(f"{construct}: the path through the early exit at {Ik.forced[1]} is outside the interpreted subset ({str(ex)[:80]})")
            continue
        if Ik.forced is None:
            continue
        g, gl, fn = Ik.forced
        subs = guard_substitutions(g)
        if not subs:
            continue
        outc = _flat_cells(outk)
        if len(outc) != len(refc):
            ctx.ob(rule, f"{construct}:path through the early exit at {gl}", False, f"{what} has {len(outc)} cells on this path, {len(refc)} on the generic path", gl)
            continue
        for si, sub in enumerate(subs):
            tag = f"{construct}:path through the early exit at {gl}" + (f" (region {si + 1} of {len(subs)})" if len(subs) > 1 else "")
            judged += 1

            def f(outc=outc, sub=sub):
                for extra in (cases(sub) if cases is not None else [{}]):
                    # a region on which the reference itself is undefined (a division by zero after the substitution: a singular point of
                    # the function) lies outside the domain: nothing is required of the exit there
                    try:
                        for y in refc:
                            if not isinstance(y, Opaque):
                                y2 = alg.subst(lift(y), sub)
                                if extra:
                                    alg.subst(y2, extra)
                    except ZeroDivisionError:
                        continue
                    for i, (x, y) in enumerate(zip(outc, refc)):
                        if isinstance(x, Opaque) or isinstance(y, Opaque):
                            return "inconclusive", f"opaque cell {i}"
                        try:
                            x2, y2 = alg.subst(lift(x), sub), alg.subst(lift(y), sub)
                            if extra:
                                x2, y2 = alg.subst(x2, extra), alg.subst(y2, extra)
                        except ZeroDivisionError:
                            continue
                        verdict, info = alg.decide(x2, y2)
                        if verdict == "differ":
                            where = {**sub, **extra}
                            return False, (f"{what}, cell {i}: {short(x2)} != {short(y2)} required on the region of the exit "
                                           f"({', '.join(short(E.atom(k_), 14) + ' = ' + short(v_, 12) for k_, v_ in list(where.items())[:9])}; witness {info})")
                        if verdict != "equal":
                            return "inconclusive", f"cell {i}: {info}"
                return True, ""
            ctx.check(rule, tag, f, gl)
    return judged


def func_calls(node):
    """All ast.Call nodes in a function body (excluding nested defs? no: including)."""
    return [n for n in ast.walk(node) if isinstance(n, ast.Call)]


# --------------------------------------------------------------------------- parallel cases

_PAR = {}


def _par_entry(i):
    from ..report import Ctx
    ctx0, worker, cases = _PAR["ctx"], _PAR["worker"], _PAR["cases"]
    sub = Ctx(ctx0.prop, ctx0.tier, ctx0.repo, ctx0.program, ctx0.seed)
    try:
        worker(sub, cases[i])
        err = None
    except Exception as ex:  # reported by the parent as an analysis error
        import traceback
        err = f"{type(ex).__name__}: {ex}\n{traceback.format_exc()}"
    obs = [(o.rule, o.construct, o.status, o.detail, o.loc, o.nontrivial, o.key) for o in sub.obs]
    return i, obs, sub.counters, sorted(sub.assumptions), sub.samples, err


def parallel_cases(ctx, worker, cases, jobs=None):
    """Run worker(subctx, case) for each case in forked processes; merge obligations in case order."""
    import multiprocessing as mp
    import os
    from ..report import Ob, AnalysisError
    jobs = jobs or int(os.environ.get("PDXSA_JOBS", "0")) or min(16, os.cpu_count() or 1)
    _PAR.update(ctx=ctx, worker=worker, cases=cases)
    if jobs <= 1 or len(cases) <= 1:
        results = [_par_entry(i) for i in range(len(cases))]
    else:
        with mp.get_context("fork").Pool(min(jobs, len(cases))) as pool:
            results = pool.map(_par_entry, range(len(cases)), chunksize=1)
    results.sort(key=lambda r: r[0])
    for i, obs, counters, assumptions, samples, err in results:
        if err:
            raise AnalysisError(f"case {cases[i]!r}: {err}")
        for t in obs:
            ctx.obs.append(Ob(*t))
        for k, v in counters.items():
            ctx.count(k, v)
        for a in assumptions:
            ctx.assume(a)
        for smp in samples:
            ctx.sample(smp)
