"""C02 — solver rates equal the published D-Rex equations (whole-function extraction vs reference)."""

from __future__ import annotations

import numpy as np

from .. import alg
from ..alg import E, lift, ZERO, ONE, INF, Inf
from ..interp import Interp, RaiseSig
from ..values import mkarr
from .common import ident, ident_arr, public, defloc, enum, short
from . import drex

LEVEL = "other"


def run(ctx):
    ctx.explanation = (
        "pydrex.core.derivatives is interpreted abstractly through its resolved callees with N symbolic grains for every "
        "(phase, fabric) in {olivine A-E, enstatite AB}, both dislocation-type regimes and every slip-activity ordering "
        "consistent with the CRSS table (infinite-CRSS systems sort first). The extracted (dA, df) normal forms must be "
        "identical to a reference model written independently in the checker from the published equations (invariants, "
        "relative slip rates with exponent n, Schmid tensor, least-squares softest slip rate with the corrected j+1 form, "
        "lattice spin, dislocation-density strain energy over the first three slip systems, migration law, yielding factor 3/10). "
        "Also: CRSS table and slip-system order vs OLIVINE_SLIP_SYSTEMS. Not decided: floating-point accuracy, JIT-vs-interpreted "
        "agreement, fastmath; that the transcription is the published model is trusted base.")
    ctx.trusted += ["reference model and CRSS table in pdxsa/checks/drex.py (transcribed from Kaminski & Ribe 2001, Kaminski et al. 2004, "
                    "Fraters & Billen 2021 and cross-read against tools/drex_forward_simpleshear.f90 DERIV)",
                    "NumPy/Numba reference semantics of the interpreted subset over the reals"]
    ctx.assume("identities hold over the reals; IEEE rounding, fastmath reassociation and the Numba compiler are not modelled")
    ctx.assume("vectorised NumPy primitives are uniform in the array length, so N generic grains represent every N")
    tables(ctx)
    Ns = (2,) if ctx.tier == "quick" else (1, 2, 3)
    ctx.rule("C02.guard-threshold", "every data-dependent early exit on the rate path is an exact-zero test or a tolerance no larger than the 1e-9 activity level "
                                    "that C02 excludes: a larger threshold replaces the published rates by the fallback on a set of inputs the property covers")
    ctx.rule("C02.rates", "derivatives(...) == reference D-Rex (dA_g, df_g) per fabric, regime, ordering, N (one obligation per output array)")
    loc = defloc(ctx, "pydrex.core.derivatives")
    nex = 0
    for fabric in drex.REF_CRSS:
        for regime in drex.DISLOCATION_REGIMES:
            for perm in drex.orderings(fabric):
                for N in Ns:
                    tag = f"{fabric}:{regime}:order={perm}:N={N}"
                    try:
                        I, inp, out = drex.extract(ctx, fabric, regime, perm, N)
                    except RaiseSig as r:
                        ctx.ob("C02.rates", tag, False, f"derivatives raises {r.exc.typename} on generic input", loc)
                        continue
                    nex += 1
                    if not (isinstance(out, tuple) and len(out) == 2):
                        ctx.ob("C02.rates", tag, False, f"returned {type(out).__name__}, expected (orientations_diff, fractions_diff)", loc)
                        continue
                    dA, df = out
                    if N == Ns[0]:
                        guard_thresholds(ctx, I, tag, loc)
                    rA, rf, _ = drex.reference(inp, fabric, regime, perm)
                    ident_arr(ctx, "C02.rates", tag + ":dA", dA, rA, loc, what="orientation rate")
                    ident_arr(ctx, "C02.rates", tag + ":df", df, rf, loc, what="volume-fraction rate")
                    if fabric == "olivine_A" and regime == "matrix_dislocation" and N == 2 and len(ctx.samples) < 3:
                        ctx.sample({"case": tag, "df[0]": short(df[0], 300), "dA[0,0,0] (one let level unfolded)":
                                    short(alg.unfold_once(lift(dA[0, 0, 0]))[0], 300)})
    ctx.count("extractions", nex)
    ctx.floor("C02.rates", 2 * 2 * (5 * 6 + 1) * len(Ns))
    for a in alg.ASSUMPTIONS:
        ctx.assume(a)


LIMIT = alg.Fr(1, 10 ** 9)


def guard_thresholds(ctx, I, tag, loc):
    from ..values import Guard

    def consts(g, acc):
        if isinstance(g, Guard):
            if g.kind == "cmp":
                op, a, b = g.args[0], g.args[1], g.args[2]
                if op == "between":
                    acc += [abs(x.cval()) for x in b if isinstance(x, E) and x.is_const()]
                else:
                    for x in (a, b):
                        if isinstance(x, E):
                            for m, c_ in x.t.items():
                                if m == ():
                                    acc.append(abs(c_))
            else:
                for a in g.args:
                    consts(a, acc)
        elif isinstance(g, (tuple, list)):
            for a in g:
                consts(a, acc)
    seen = set()
    for g, outcome, gloc, fn in I.guards:
        acc = []
        consts(g, acc)
        big = [c_ for c_ in acc if c_ > LIMIT]
        key = (gloc, fn)
        if key in seen:
            continue
        seen.add(key)
        ctx.ob("C02.guard-threshold", f"{tag}:{fn.split('.')[-1]}@{gloc.split(':')[-1]}", not big,
               f"early exit ({outcome[0]}) guarded by a tolerance of {float(max(big)) if big else 0:g} > 1e-9: inputs within that band get the fallback value instead of the published rates",
               gloc, key=("C02.guard-threshold", tag, gloc))


def tables(ctx):
    ctx.rule("C02.crss", "get_crss(phase, fabric) == documented CRSS row for each of the six supported fabrics")
    ctx.rule("C02.systems", "OLIVINE_SLIP_SYSTEMS[s] == (plane normal e_b, slip direction e_a) of reference system s (order agreement with get_crss)")
    I = Interp(ctx.program)
    f = public(ctx, I, "pydrex.core.get_crss")
    loc = defloc(ctx, "pydrex.core.get_crss")
    for fabric, row in drex.REF_CRSS.items():
        ph = enum(I, "pydrex.core.MineralPhase", drex.FABRIC_PHASE[fabric])
        fb = enum(I, "pydrex.core.MineralFabric", fabric)
        try:
            got = I.call(f, (ph, fb))
            ok = getattr(got, "shape", None) == (4,) and all(
                (isinstance(g, Inf) and isinstance(r, Inf)) or (not isinstance(g, Inf) and not isinstance(r, Inf) and lift(g) == lift(r))
                for g, r in zip(got, row))
            ctx.ob("C02.crss", f"get_crss({fabric})", ok, f"got {list(got)} expected {list(row)}", loc)
        except RaiseSig as r:
            ctx.ob("C02.crss", f"get_crss({fabric})", False, f"raises {r.exc.typename}", loc)
    ctx.floor("C02.crss", 6)
    loc2 = defloc(ctx, "pydrex.minerals.OLIVINE_SLIP_SYSTEMS")
    sys_ = I.resolve("pydrex.minerals.OLIVINE_SLIP_SYSTEMS")
    unit = {0: [1, 0, 0], 1: [0, 1, 0], 2: [0, 0, 1]}
    ok_len = isinstance(sys_, (tuple, list)) and len(sys_) == 4
    ctx.ob("C02.systems", "four slip systems", ok_len, f"{sys_!r}"[:200], loc2)
    if ok_len:
        for s, (lr, nr) in enumerate(drex.REF_SYSTEMS):
            plane, direction = sys_[s]
            ok = [int(x) for x in plane] == unit[nr] and [int(x) for x in direction] == unit[lr]
            ctx.ob("C02.systems", f"system {s}", ok, f"got (plane {list(plane)}, direction {list(direction)}), expected ({unit[nr]}, {unit[lr]})", loc2)
