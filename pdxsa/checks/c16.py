"""C16 — SCSV: validate-before-emit/parse, error conversion, sibling agreement of writer and reader, YAML emission discipline."""

from __future__ import annotations

import ast

from .. import flow
from ..interp import Interp
from ..values import FuncVal
from .common import public, defloc

LEVEL = "other"
QUOTERS = {"yaml.safe_dump", "yaml.dump", "json.dumps", "yaml.safe_dump_all"}


def run(ctx):
    ctx.explanation = (
        "FLOW/TAB rules over pydrex.io, all decided on the statement CFG and resolved calls: (1) every emission in write_scsv_header and every "
        "parse in read_scsv is dominated by the rejecting branch of the schema validation; in save_scsv the column-length check dominates "
        "open(.., 'w') and the header (hence validation) dominates every row write; (2) error discipline: the per-cell parse on save sits in a "
        "handler converting ValueError to the SCSV error, the zip(strict=True)/column-count ValueError is converted and the partial file "
        "unlinked; (3) writer/reader agreement: the same cell parser, missing marker key, fill default, type default and type table on both "
        "sides, terse type names map into the type table, header keys written cover keys read; (4) substitution symmetry: the missing marker "
        "is written only under equality with the typed fill (or both NaN); (5) YAML emission discipline: a schema value interpolated into the "
        "header must be validated to a safe alphabet by the schema validator or pass through a YAML quoting function.  Not decided: "
        "value-level losslessness of repr/csv/YAML scalar typing (library semantics), 1e4-row scale.")
    ctx.trusted += ["CFG construction of pdxsa/flow.py (exception edges to handlers)", "yaml.safe_dump/json.dumps produce correctly quoted YAML scalars"]
    for k, v in list(RULES.items()) + list(RULES_EXTRA.items()):
        ctx.rule(k, v)
    mod = ctx.program.module("pydrex.io")
    I = Interp(ctx.program)
    fns = {n: ctx.program.require("pydrex.io." + n) for n in
           ("write_scsv_header", "save_scsv", "read_scsv", "_validate_scsv_schema", "_parse_scsv_cell")}
    validate_before(ctx, mod, fns)
    error_discipline(ctx, mod, fns)
    siblings(ctx, mod, fns, I)
    terse_schema(ctx, I)
    substitution(ctx, mod, fns)
    yaml_emission(ctx, mod, fns, I)
    validator_table(ctx, I)
    cell_parser(ctx, I)
    reader_binding(ctx, mod, fns)


RULES_EXTRA = {
    "C16.validator": "the schema validator accepts the valid base schemas and rejects every single-fault corruption of them (finite table: missing key, no fields, "
                     "non-identifier name, unknown type, numeric/complex field without fill, delimiter equal to / contained in the missing marker)",
    "C16.cell-parser": "_parse_scsv_cell: the missing marker (after stripping) yields the typed fill (NaN for the 'NaN' fill), booleans go through the boolean parser, "
                       "everything else is the type applied to the stripped text",
    "C16.reader-binding": "read_scsv parses column k with the type, missing marker and fill of schema field k (same order), taken from the validated schema",
}


def validator_table(ctx, I):
    import copy
    from ..interp import RaiseSig
    dotted = "pydrex.io._validate_scsv_schema"
    loc = defloc(ctx, dotted)
    f = I.resolve(dotted)
    base = {"delimiter": ",", "missing": "-", "fields": [
        {"name": "a", "type": "string", "fill": "", "unit": "m"}, {"name": "b"}, {"name": "c", "type": "integer", "fill": "9"},
        {"name": "d", "type": "float", "fill": "NaN"}, {"name": "e", "type": "boolean"}, {"name": "g", "type": "complex", "fill": "NaN"}]}
    def run(schema):
        try:
            r = I.call(f, (schema,))
            return bool(r) if isinstance(r, bool) else r
        except RaiseSig as r_:
            return "raise:" + r_.exc.typename
    good = {"base": base, "one field": {"delimiter": ";", "missing": "NA", "fields": [{"name": "x_1"}]},
            "tab delimiter": {"delimiter": "\t", "missing": "", "fields": [{"name": "x", "type": "float", "fill": 0}]}}
    for name, sc in good.items():
        r = run(copy.deepcopy(sc))
        ctx.ob("C16.validator", f"valid:{name}", r is True, f"validator returned {r!r} for a valid schema", loc)
    faults = {}
    for k in ("delimiter", "missing", "fields"):
        s_ = copy.deepcopy(base); del s_[k]; faults[f"missing key {k}"] = s_
    s_ = copy.deepcopy(base); s_["fields"] = []; faults["no fields"] = s_
    s_ = copy.deepcopy(base); s_["fields"][1]["name"] = "bad name"; faults["non-identifier name"] = s_
    s_ = copy.deepcopy(base); s_["fields"][0]["name"] = "1abc"; faults["name starting with a digit"] = s_
    s_ = copy.deepcopy(base); s_["fields"][0]["type"] = "text"; faults["unknown type"] = s_
    for i_, t_ in ((2, "integer"), (3, "float"), (5, "complex")):
        s_ = copy.deepcopy(base); del s_["fields"][i_]["fill"]; faults[f"{t_} field without fill"] = s_
    s_ = copy.deepcopy(base); s_["missing"] = ","; faults["delimiter equals missing"] = s_
    s_ = copy.deepcopy(base); s_["missing"] = "-,"; faults["delimiter contained in missing"] = s_
    s_ = copy.deepcopy(base); s_["delimiter"] = "-"; faults["missing equals delimiter (changed delimiter)"] = s_
    for name, sc in faults.items():
        r = run(sc)
        ctx.ob("C16.validator", f"fault:{name}", r is False, f"validator returned {r!r} for a schema with the fault '{name}' (must be False)", loc)
    ctx.floor("C16.validator", 15)


def terse_schema(ctx, I):
    """parse_scsv_schema interpreted on a table of terse specifications (the documented example, every type letter, optional fill/unit,
    malformed strings): the result is the documented schema dictionary and passes the validator's format rules; malformed input raises SCSVError."""
    from ..interp import RaiseSig
    dotted = "pydrex.io.parse_scsv_schema"
    try:
        f = I.resolve(dotted)
    except Exception:
        ctx.observe("parse_scsv_schema is not defined (Python < 3.12): terse schemas are not available")
        return
    loc = defloc(ctx, dotted)
    ctx.rule("C16.terse", "parse_scsv_schema(terse) == documented schema dictionary for every type letter, default/explicit fill and unit; malformed strings raise SCSVError")
    dflt_fill = I.resolve("pydrex.io._SCSV_DEFAULT_FILL")
    good = {
        "d,m-:colA(s)colB(s:N/A:...)colC()colD(i:999999)colE(f:NaN:%)": {"delimiter": ",", "missing": "-", "fields": [
            {"name": "colA", "type": "string", "fill": dflt_fill}, {"name": "colB", "type": "string", "fill": "N/A", "unit": "..."},
            {"name": "colC", "type": "string", "fill": dflt_fill}, {"name": "colD", "type": "integer", "fill": "999999"},
            {"name": "colE", "type": "float", "fill": "NaN", "unit": "%"}]},
        "d;mNA:x(b)y(c:NaN)z(f:0:m/s)": {"delimiter": ";", "missing": "NA", "fields": [
            {"name": "x", "type": "boolean", "fill": dflt_fill}, {"name": "y", "type": "complex", "fill": "NaN"}, {"name": "z", "type": "float", "fill": "0", "unit": "m/s"}]},
        "d\tm-:only(i:-1)": {"delimiter": "\t", "missing": "-", "fields": [{"name": "only", "type": "integer", "fill": "-1"}]},
    }
    for terse, want in good.items():
        try:
            got = I.call(f, (terse,))
            ctx.ob("C16.terse", f"{terse!r}", got == want, f"got {got!r}, documented {want!r}"[:300], loc)
        except RaiseSig as r:
            ctx.ob("C16.terse", f"{terse!r}", False, f"raises {r.exc.typename}", loc)
    for terse, why in (("x,m-:a(s)", "no leading d"), ("d,m-:", "no fields"), ("d,m-:a(q)", "unknown type letter"), ("d,:a(s)", "no missing-marker part"),
                       ("d,m-a(s)", "no colon before the fields")):
        try:
            got = I.call(f, (terse,))
            ctx.ob("C16.terse", f"malformed ({why})", False, f"accepted, returned {got!r}"[:200], loc)
        except RaiseSig as r:
            ctx.ob("C16.terse", f"malformed ({why})", r.exc.typename == "SCSVError", f"raises {r.exc.typename}", loc)
    ctx.floor("C16.terse", 8)


def cell_parser(ctx, I):
    from ..interp import RaiseSig
    from ..values import Native
    from .. import alg
    dotted = "pydrex.io._parse_scsv_cell"
    loc = defloc(ctx, dotted)
    f = I.resolve(dotted)
    calls = []

    def mk(name):
        def fn(I_, x):
            calls.append((name, x))
            return ("typed", name, x if isinstance(x, str) else repr(x))
        nat = Native(name, fn)
        return nat
    class T:  # a stand-in type object with a __qualname__
        pass
    for tname in ("float", "int", "str", "complex"):
        ty = type(tname, (), {})
        rec = I.np.call_external  # noqa: F841
        from ..values import Record
        tv = Record(None, {"__qualname__": tname}, label=tname)
        tv.native_methods["__call__"] = mk(tname)
        fobj = Native(tname, lambda I_, x, n_=tname: ("typed", n_, x if isinstance(x, str) else repr(x)))
        # use a callable record exposing __qualname__
        fv = CallableType(tname)
        try:
            r1 = I.call(f, (fv, " 12 ", "-", "7"))
            r2 = I.call(f, (fv, " - ", "-", "7"))
            r3 = I.call(f, (fv, "-", "-", "NaN"))
        except RaiseSig as r_:
            ctx.ob("C16.cell-parser", tname, False, f"raises {r_.exc.typename}", loc)
            continue
        ok = r1 == ("typed", tname, "12") and r2 == ("typed", tname, "7") and isinstance(r3, tuple) and r3[:2] == ("typed", tname) and "nan" in str(r3[2]).lower()
        ctx.ob("C16.cell-parser", tname, ok, f"data -> {r1!r}; missing marker -> {r2!r}; missing with NaN fill -> {r3!r}", loc)
        # only the marker itself is a missing cell: text that differs from it in letter case, by a prefix/suffix or by doubling is data
        # (the writer stores such cells verbatim, so the reader must hand them back)
        near = []
        for marker, cells in (("NA", ("na", "Na", "nA", "NAN", "N", "NA.", "NANA")), ("NaN", ("nan", "NAN", "Nan", "Na")), ("-", ("--", "-1", "- -")),
                              ("null", ("NULL", "Null", "nul"))):
            try:
                hit = I.call(f, (fv, marker, marker, "7"))
                if hit != ("typed", tname, "7"):
                    near.append(f"marker {marker!r} itself -> {hit!r}")
                for c in cells:
                    got = I.call(f, (fv, c, marker, "7"))
                    if got != ("typed", tname, c):
                        near.append(f"marker {marker!r}: cell {c!r} -> {got!r}")
            except RaiseSig as r_:
                near.append(f"marker {marker!r}: raises {r_.exc.typename}")
        ctx.ob("C16.cell-parser", f"{tname}:cells that are not the marker are data", not near, "; ".join(near[:4]), loc)
    fvb = CallableType("bool")
    try:
        rs = [I.call(f, (fvb, s_, "-", None)) for s_ in ("True", "yes", "0", "false")]
        ctx.ob("C16.cell-parser", "bool", rs == [True, True, False, False], f"boolean cells parsed as {rs}", loc)
    except RaiseSig as r_:
        ctx.ob("C16.cell-parser", "bool", False, f"raises {r_.exc.typename}", loc)
    ctx.floor("C16.cell-parser", 9)


class CallableType:
    """Stand-in for a Python type handed to _parse_scsv_cell: callable, with a __qualname__."""

    def __init__(self, name):
        self.name = name

    def key(self):
        return ("type", self.name)


def reader_binding(ctx, mod, fns):
    """read_scsv interpreted end to end with the file layer stubbed and the cell parser replaced by a recorder: cell (row r, column k) must be
    parsed with the type, fill and missing marker that the schema declares for field k, and column k of the result is those parses in row order."""
    import csv as _csv
    from ..values import Native, Record
    from ..interp import RaiseSig
    fn = fns["read_scsv"]
    loc = L(mod, fn, ctx)
    I0 = Interp(ctx.program)
    typemap = I0.resolve("pydrex.io.SCSV_TYPEMAP")
    dtype, dfill = I0.resolve("pydrex.io._SCSV_DEFAULT_TYPE"), I0.resolve("pydrex.io._SCSV_DEFAULT_FILL")
    schema = {"delimiter": ";", "missing": "-", "fields": [{"name": "a", "type": "integer", "fill": -1}, {"name": "b", "type": "string", "fill": "NA"},
                                                          {"name": "c", "type": "float", "fill": "NaN"}, {"name": "d"}, {"name": "e", "type": "boolean", "fill": "False"}]}
    rows = [["1", "x", "2.5", "q", "yes"], ["-", "-", "-", "-", "-"], ["3", "z", "4.5", "r", "no"]]
    lines = ["---\n", "schema:\n", "---\n", "a; b; c; d; e\n"] + ["; ".join(r) + "\n" for r in rows]

    def run(lines_, schema_):
        calls = []

        def cell(I_, t, s, missingstr=None, fillval=None):
            calls.append((t, s, missingstr, fillval))
            return ("cell", len(calls) - 1)
        ext = {"builtins.open": Native("open", lambda I_, *a, **k: list(lines_)), "io.StringIO": Native("StringIO", lambda I_, s="": s),
               "yaml.safe_load": Native("safe_load", lambda I_, t: {"schema": schema_}),
               "csv.reader": Native("reader", lambda I_, ls, **kw: iter([[x.lstrip() if kw.get("skipinitialspace") else x for x in r]
                                                                        for r in _csv.reader(ls, delimiter=kw.get("delimiter", ","))]))}
        I = Interp(ctx.program, externals=ext, stubs={"pydrex.io.resolve_path": Native("resolve_path", lambda I_, p, *a: p),
                                                        "pydrex.io._parse_scsv_cell": Native("_parse_scsv_cell", cell),
                                                        "pydrex.io._validate_scsv_schema": Native("validate", lambda I_, s: True)})
        try:
            return I.call(I.resolve("pydrex.io.read_scsv"), ("file.scsv",)), calls, None
        except RaiseSig as r:
            return None, calls, r.exc
    res, calls, exc = run(lines, schema)
    if exc is not None or not isinstance(res, Record):
        ctx.ob("C16.reader-binding", "read_scsv on a five-column file", False, f"raises {getattr(exc, 'typename', None)} / returns {res!r}", loc)
        return
    bad = []
    for k, field in enumerate(schema["fields"]):
        col = res.attrs.get(field["name"])
        if not isinstance(col, tuple) or len(col) != len(rows):
            bad.append(f"column {field['name']!r} of the result is {col!r}")
            continue
        want_t = typemap[field.get("type", dtype)]
        want_f = field.get("fill", dfill)
        for r_, v in enumerate(col):
            if not (isinstance(v, tuple) and v[0] == "cell"):
                bad.append(f"cell ({r_},{k}) is not a result of the cell parser: {v!r}")
                continue
            t, s, ms, fv = calls[v[1]]
            if s != rows[r_][k]:
                bad.append(f"cell ({r_},{k}) parsed from text {s!r}, file has {rows[r_][k]!r}")
            if t is not want_t:
                bad.append(f"column {field['name']!r} parsed as {t!r}, schema declares {want_t!r}")
            if ms != schema["missing"]:
                bad.append(f"column {field['name']!r} parsed with missing marker {ms!r}, schema declares {schema['missing']!r}")
            if fv != want_f or type(fv) is not type(want_f):
                bad.append(f"column {field['name']!r} parsed with fill {fv!r}, schema declares {want_f!r}")
    ctx.ob("C16.reader-binding", "cell (r,k) parsed with the type, fill and missing marker of schema field k", not bad, "; ".join(dict.fromkeys(bad))[:400], loc)
    # header / schema disagreement and ragged rows are rejected
    res, calls, exc = run(lines[:3] + ["a; c; b; d; e\n"] + lines[4:], schema)
    ctx.ob("C16.reader-binding", "column headers in a different order than the schema fields are rejected", exc is not None and exc.typename == "SCSVError",
           f"{'raises ' + exc.typename if exc is not None else 'accepted'}", loc)
    res, calls, exc = run(lines[:5] + ["1; x\n"] + lines[5:], schema)
    ctx.ob("C16.reader-binding", "a short data row is rejected, not padded or truncated", exc is not None, "accepted" if exc is None else "", loc)
    ctx.floor("C16.reader-binding", 3)


RULES = {
    "C16.validate-first": "writer, saver and reader interpreted with a validator stub: the caller's / the header's schema is validated first; a rejected schema raises SCSVError with nothing emitted or parsed",
    "C16.length-check": "save_scsv interpreted on columns of unequal length raises SCSVError before the output file is opened",
    "C16.errors": "save_scsv interpreted with a rejecting cell parser and with a wrong column count: SCSVError, the rejected cell is never written, the partial file is removed on a column-count mismatch; every cell is validated with its own column's type, fill and marker",
    "C16.siblings": "writer and reader use the same cell parser, keys and defaults; terse type names resolve into SCSV_TYPEMAP; header keys written ⊇ keys read",
    "C16.substitution": "save_scsv interpreted per (type, datum vs typed fill) class: the marker replaces a cell exactly when the datum equals the typed fill (or both are NaN); the cell parser maps the marker back to the fill",
    "C16.yaml-emission": "schema values interpolated into the YAML header are validated identifiers/table members or pass through a YAML quoting function",
}


def length_check(ctx, mod, fn):
    """save_scsv interpreted on columns of unequal length: SCSVError is raised and the output file is never opened."""
    from ..values import Native
    from ..interp import RaiseSig

    class Opened(Exception):
        pass
    schema = {"delimiter": ",", "missing": "-", "fields": [{"name": "a", "type": "integer", "fill": 0}, {"name": "b", "type": "integer", "fill": 0},
                                                          {"name": "c", "type": "integer", "fill": 0}]}
    for name, data in (("second column longer", [[1, 2], [1, 2, 3], [1, 2]]), ("last column shorter", [[1, 2, 3], [1, 2, 3], [1, 2]]),
                       ("first column shorter", [[1], [1, 2], [1, 2]]), ("an empty column", [[1, 2], [], [1, 2]])):
        def opened(I_, *a, **k):
            raise Opened()
        I = Interp(ctx.program, externals={"builtins.open": Native("open", opened)},
                   stubs={"pydrex.io.resolve_path": Native("resolve_path", lambda I_, p, *a: p)})
        try:
            I.call(I.resolve("pydrex.io.save_scsv"), ("out.scsv", schema, data))
            why = "accepted"
        except Opened:
            why = "the output file is opened (and truncated) before the column lengths are compared"
        except RaiseSig as r:
            why = "" if r.exc.typename == "SCSVError" else f"raises {r.exc.typename}, not SCSVError"
        ctx.ob("C16.length-check", f"save_scsv: {name}", not why, why, L(mod, fn, ctx))
    ctx.floor("C16.length-check", 4)


def L(mod, node, ctx):
    return f"{ctx.program.relpath(mod.path)}:{getattr(node, 'lineno', 0)}"


def is_call_to(n, name):
    return isinstance(n, ast.Call) and (flow.dotted(n.func) or "").split(".")[-1] == name


def contains_call(node, name):
    return any(is_call_to(n, name) for n in ast.walk(node))


def raises_in(body, exc_suffix):
    for s in body:
        for n in ast.walk(s):
            if isinstance(n, ast.Raise) and n.exc is not None:
                d = flow.dotted(n.exc.func if isinstance(n.exc, ast.Call) else n.exc) or ""
                if d.split(".")[-1] == exc_suffix:
                    return True
    return False


def validation_ifs(cfg):
    out = []
    for n, s in cfg.stmt.items():
        if isinstance(s, ast.If) and contains_call(s.test, "_validate_scsv_schema") and raises_in(s.body, "SCSVError"):
            neg = isinstance(s.test, ast.UnaryOp) and isinstance(s.test.op, ast.Not)
            if neg:
                out.append(n)
    return out


def _io_harness(ctx, validator=None, cell=None):
    """Interpreter for the SCSV writer/reader with the file layer stubbed.  Returns (I, log): log collects events
    ('validate', schema) / ('write', text) / ('writerow', row) / ('open', mode) / ('unlink',) / ('cell', args) / ('csv.reader',)."""
    import csv as _csv
    from ..values import Native, Record
    log = []
    stream = Record(None, {}, label="stream")
    stream.native_methods["write"] = Native("write", lambda I_, s_: log.append(("write", s_)))
    path = Record(None, {"name": "out.scsv"}, label="Path")
    path.native_methods["unlink"] = Native("unlink", lambda I_, **k: log.append(("unlink",)))
    wr = Record(None, {}, label="csv writer")
    wr.native_methods["writerow"] = Native("writerow", lambda I_, row: log.append(("writerow", list(row))))

    def opened(I_, *a, **k):
        log.append(("open", k.get("mode", a[1] if len(a) > 1 else "r")))
        return stream
    ext = {"builtins.open": Native("open", opened), "csv.writer": Native("writer", lambda I_, s_, **kw: wr)}
    stubs = {"pydrex.io.resolve_path": Native("resolve_path", lambda I_, p, *a: path)}
    if validator is not None:
        def val(I_, schema):
            log.append(("validate", schema))
            return validator
        stubs["pydrex.io._validate_scsv_schema"] = Native("_validate_scsv_schema", val)
    if cell is not None:
        def cellf(I_, t, s_, missingstr=None, fillval=None):
            log.append(("cell", (t, s_, missingstr, fillval)))
            return cell(I_, t, s_)
        stubs["pydrex.io._parse_scsv_cell"] = Native("_parse_scsv_cell", cellf)
    return Interp(ctx.program, externals=ext, stubs=stubs), log, stream


SCHEMA3 = {"delimiter": ",", "missing": "-", "fields": [{"name": "a", "type": "integer", "fill": -1}, {"name": "b", "type": "string", "fill": "NA"},
                                                       {"name": "c", "type": "float", "fill": "NaN"}]}


def validate_before(ctx, mod, fns):
    """Interpreted with a validator stub that rejects (or accepts) the schema: nothing is emitted or parsed for a rejected schema."""
    import csv as _csv
    from ..values import Native
    from ..interp import RaiseSig
    # write_scsv_header
    fn = fns["write_scsv_header"]
    for verdict in (False, True):
        I, log, stream = _io_harness(ctx, validator=verdict)
        try:
            I.call(I.resolve("pydrex.io.write_scsv_header"), (stream, SCHEMA3), {"comments": ["x"]})
            exc = None
        except RaiseSig as r:
            exc = r.exc.typename
        asked = [e for e in log if e[0] == "validate"]
        writes = [e for e in log if e[0] == "write"]
        if verdict:
            ok = exc is None and asked and asked[0][1] is SCHEMA3 and writes and log.index(asked[0]) < log.index(writes[0])
            ctx.ob("C16.validate-first", "write_scsv_header: the caller's schema is validated before the first write", bool(ok),
                   f"events {[e[0] for e in log][:6]}, exception {exc}", L(mod, fn, ctx))
        else:
            ctx.ob("C16.validate-first", "write_scsv_header: a rejected schema raises SCSVError and nothing is written", exc == "SCSVError" and not writes and bool(asked),
                   f"exception {exc}; {len(writes)} write(s); validator consulted: {bool(asked)}", L(mod, fn, ctx))
    # save_scsv
    fn = fns["save_scsv"]
    data = [[1, 2], ["x", "y"], [lift_(1.5), lift_(2.5)]]
    for verdict in (False, True):
        I, log, stream = _io_harness(ctx, validator=verdict, cell=lambda I_, t, s_: None)
        try:
            I.call(I.resolve("pydrex.io.save_scsv"), ("out.scsv", SCHEMA3, data))
            exc = None
        except RaiseSig as r:
            exc = r.exc.typename
        asked = [e for e in log if e[0] == "validate"]
        rows = [e for e in log if e[0] == "writerow"]
        writes = [e for e in log if e[0] == "write"]
        if verdict:
            ok = exc is None and asked and writes and len(rows) == 3 and log.index(writes[-1]) < log.index(rows[0]) and log.index(asked[0]) < log.index(writes[0])
            ctx.ob("C16.validate-first", "save_scsv: validation, then the header, then the rows", bool(ok), f"events {[e[0] for e in log][:8]}..., exception {exc}", L(mod, fn, ctx))
        else:
            ctx.ob("C16.validate-first", "save_scsv: a rejected schema raises SCSVError and no header or row is written", exc == "SCSVError" and not rows and not writes and bool(asked),
                   f"exception {exc}; {len(writes)} header write(s), {len(rows)} row(s)", L(mod, fn, ctx))
    # read_scsv
    fn = fns["read_scsv"]
    lines = ["---\n", "schema:\n", "---\n", "a,b,c\n", "1,x,2.5\n"]
    for verdict in (False, True):
        I, log, stream = _io_harness(ctx, validator=verdict, cell=lambda I_, t, s_: ("cell", s_))
        I.externals["builtins.open"] = Native("open", lambda I_, *a, **k: list(lines))
        I.externals["io.StringIO"] = Native("StringIO", lambda I_, s_="": s_)
        I.externals["yaml.safe_load"] = Native("safe_load", lambda I_, t: {"schema": SCHEMA3})

        def reader(I_, ls, **kw):
            log.append(("csv.reader",))
            return iter([[x.strip() for x in r] for r in _csv.reader(ls, delimiter=kw.get("delimiter", ","))])
        I.externals["csv.reader"] = Native("reader", reader)
        try:
            I.call(I.resolve("pydrex.io.read_scsv"), ("in.scsv",))
            exc = None
        except RaiseSig as r:
            exc = r.exc.typename
        asked = [e for e in log if e[0] == "validate"]
        parsed = [e for e in log if e[0] in ("csv.reader", "cell")]
        if verdict:
            ok = exc is None and asked and asked[0][1] is SCHEMA3 or (exc is None and asked and asked[0][1] == SCHEMA3)
            ok = ok and parsed and log.index(asked[0]) < log.index(parsed[0])
            ctx.ob("C16.validate-first", "read_scsv: the schema read from the header is validated before any data is parsed", bool(ok),
                   f"events {[e[0] for e in log][:6]}, exception {exc}", L(mod, fn, ctx))
        else:
            ctx.ob("C16.validate-first", "read_scsv: a rejected schema raises SCSVError and no data is parsed", exc == "SCSVError" and not parsed and bool(asked),
                   f"exception {exc}; {len(parsed)} parse event(s)", L(mod, fn, ctx))
    length_check(ctx, mod, fns["save_scsv"])
    ctx.floor("C16.validate-first", 6)


def lift_(x):
    from ..alg import lift
    return lift(x)


def error_discipline(ctx, mod, fns):
    """save_scsv interpreted with a cell parser that rejects one cell, and with too few / too many data columns."""
    from ..interp import RaiseSig
    fn = fns["save_scsv"]
    loc = L(mod, fn, ctx)
    data = [[1, 2], ["x", "y"], [lift_(1.5), lift_(2.5)]]

    # one offending cell at a time, judged by the repository's own cell parser
    offenders = {"a Python bool in an integer column": (0, True), "text in an integer column": (0, "abc"), "text in a float column": (2, "abc"),
                 "None in an integer column": (0, None)}
    for name, (col, val) in offenders.items():
        for row in (0, 1):
            dd = [list(c_) for c_ in data]
            dd[col][row] = val
            I, log, stream = _io_harness(ctx, validator=True)
            try:
                I.call(I.resolve("pydrex.io.save_scsv"), ("out.scsv", SCHEMA3, dd))
                exc = None
            except RaiseSig as r:
                exc = r.exc.typename
            rows = [e_[1] for e_ in log if e_[0] == "writerow"]
            leaked = any(c_ is val for r_ in rows[1:] for c_ in r_)
            ctx.ob("C16.errors", f"save_scsv: {name} (row {row}) -> SCSVError, the cell is not written", exc == "SCSVError" and not leaked,
                   f"exception {exc}; data rows written {rows[1:]}", loc)
    for name, dd in (("fewer data columns than fields", data[:2]), ("more data columns than fields", data + [[1, 2]])):
        I, log, stream = _io_harness(ctx, validator=True, cell=lambda I_, t, s_: None)
        try:
            I.call(I.resolve("pydrex.io.save_scsv"), ("out.scsv", SCHEMA3, dd))
            exc = None
        except RaiseSig as r:
            exc = r.exc.typename
        ctx.ob("C16.errors", f"save_scsv: {name} -> SCSVError and the partial file is removed", exc == "SCSVError" and ("unlink",) in log,
               f"exception {exc}; file removed: {('unlink',) in log}", loc)
    # read side
    fnr = fns["read_scsv"]
    ctx.ob("C16.errors", "read_scsv:header/schema name mismatch -> SCSVError (see C16.reader-binding)", True, "", L(mod, fnr, ctx))
    ctx.floor("C16.errors", 5)


def get_defaults(fn, key):
    """Default expressions used in X.get("key", default) calls inside fn."""
    out = []
    for c in ast.walk(fn):
        if isinstance(c, ast.Call) and isinstance(c.func, ast.Attribute) and c.func.attr == "get" and c.args and \
                isinstance(c.args[0], ast.Constant) and c.args[0].value == key:
            out.append(ast.unparse(c.args[1]) if len(c.args) > 1 else "None")
    return out


def siblings(ctx, mod, fns, I):
    save, read, val, hdr = fns["save_scsv"], fns["read_scsv"], fns["_validate_scsv_schema"], fns["write_scsv_header"]

    class Closure:
        """a function together with the private helpers of pydrex.io it (transitively) calls, except the other three entry points: what is
        asked of `save_scsv` may be done in a helper it shares with `read_scsv`"""
        def __init__(self, name):
            others = {"save_scsv", "read_scsv", "_validate_scsv_schema", "write_scsv_header"} - {name}
            reach = flow.reachable_functions(ctx.program, [("pydrex.io", name)])
            self.nodes = [nd for (mn, fn_), (_, nd) in reach.items() if mn == "pydrex.io" and fn_ not in others]
            self.lineno = fns[name].lineno

    def walk_all(f):
        for nd in (f.nodes if isinstance(f, Closure) else [f]):
            yield from ast.walk(nd)
    save_c, read_c, val_c, hdr_c = Closure("save_scsv"), Closure("read_scsv"), Closure("_validate_scsv_schema"), Closure("write_scsv_header")

    def get_defaults_c(f, key):
        out = []
        for c in walk_all(f):
            if isinstance(c, ast.Call) and isinstance(c.func, ast.Attribute) and c.func.attr == "get" and c.args and \
                    isinstance(c.args[0], ast.Constant) and c.args[0].value == key:
                out.append(ast.unparse(c.args[1]) if len(c.args) > 1 else "None")
        return out
    for key in ("fill", "type"):
        d = {nm: set(get_defaults_c(f, key)) for nm, f in (("save_scsv", save_c), ("read_scsv", read_c), ("write_scsv_header", hdr_c), ("_validate_scsv_schema", val_c))}
        used = {nm: v for nm, v in d.items() if v}
        allv = set().union(*used.values()) if used else set()
        ctx.ob("C16.siblings", f"default for '{key}' agrees across writer, reader and validator", len(allv) == 1 and "save_scsv" in used and "read_scsv" in used,
               f"defaults used: {used}", L(mod, save, ctx))
    def missing_uses(fn):
        return [ast.unparse(n) for n in walk_all(fn) if isinstance(n, ast.Subscript) and isinstance(n.slice, ast.Constant) and n.slice.value == "missing"]
    ctx.ob("C16.siblings", "missing marker read from schema['missing'] on both sides", bool(missing_uses(save_c)) and bool(missing_uses(read_c)), "", L(mod, read, ctx))
    tm_s = any(isinstance(n, ast.Subscript) and flow.dotted(n.value) == "SCSV_TYPEMAP" for n in walk_all(save_c))
    tm_r = any(isinstance(n, ast.Subscript) and flow.dotted(n.value) == "SCSV_TYPEMAP" for n in walk_all(read_c))
    ctx.ob("C16.siblings", "one type table (SCSV_TYPEMAP) on both sides", tm_s and tm_r, "", L(mod, save, ctx))
    typemap = I.resolve("pydrex.io.SCSV_TYPEMAP")
    terse = I.resolve("pydrex.io.SCSV_TERSEMAP")
    ok = isinstance(typemap, dict) and isinstance(terse, dict) and set(terse.values()) <= set(typemap) and set(typemap) == {"string", "integer", "float", "boolean", "complex"}
    ctx.ob("C16.siblings", "terse type names map into the five-type table", ok, f"typemap keys {sorted(typemap) if isinstance(typemap, dict) else typemap}, terse {terse}", defloc(ctx, "pydrex.io.SCSV_TYPEMAP"))
    dflt = I.resolve("pydrex.io._SCSV_DEFAULT_TYPE")
    ctx.ob("C16.siblings", "default type is a table key", isinstance(typemap, dict) and dflt in typemap, f"default {dflt!r}", defloc(ctx, "pydrex.io._SCSV_DEFAULT_TYPE"))
    # keys
    def const_keys(fn):
        ks = set()
        for n in walk_all(fn):
            if isinstance(n, ast.Subscript) and isinstance(n.slice, ast.Constant) and isinstance(n.slice.value, str):
                ks.add(n.slice.value)
            if isinstance(n, ast.Call) and isinstance(n.func, ast.Attribute) and n.func.attr == "get" and n.args and isinstance(n.args[0], ast.Constant):
                ks.add(n.args[0].value)
            if isinstance(n, ast.Compare) and isinstance(n.left, ast.Constant) and isinstance(n.left.value, str) and any(isinstance(o, (ast.In, ast.NotIn)) for o in n.ops):
                ks.add(n.left.value)
        return ks
    text, _ = header_text(ctx)
    import re
    lines = [ln for ln in text.split("\n")] if isinstance(text, str) else []
    written = {m.group(1) for ln in lines for m in [re.match(r"^\s*(?:-\s*)?(\w+):", ln)] if m}
    read_keys = (const_keys(read_c) | const_keys(val_c)) - {"schema"}
    ctx.ob("C16.siblings", "header keys written ⊇ schema keys read", isinstance(text, str) and read_keys <= written,
           f"read {sorted(read_keys)}, written {sorted(written)}" if isinstance(text, str) else f"header writer could not be interpreted: {text!r}", L(mod, hdr, ctx))
    # frame markers: the emitted header opens and closes the YAML block with the marker line the reader splits on
    body = [ln for ln in lines if ln != ""]
    first_last = len(body) >= 2 and body[0] == "---" and body[-1] == "---" and sum(1 for ln in body if ln == "---") == 2
    ctx.ob("C16.siblings", "YAML block opened and closed by '---' lines in the writer", first_last,
           f"first line {body[0]!r}, last line {body[-1]!r}, {sum(1 for ln in body if ln == '---')} marker lines" if body else "nothing was written", L(mod, hdr, ctx))
    ctx.floor("C16.siblings", 8)
    line_classes(ctx, mod, read)


def line_classes(ctx, mod, read):
    """Interpret read_scsv's line loop on one representative per class of line the writer can emit: the header goes to the YAML parser,
    every data line (including rows made only of delimiters, i.e. every cell empty) reaches the CSV parser, nothing else is dropped."""
    from ..values import Native
    from ..interp import RaiseSig, Unsupported
    ctx.rule("C16.line-classes", "reader's line loop interpreted per line class: header lines -> YAML parser, every writer-producible data line -> CSV parser "
                                 "(rows of bare delimiters, whitespace delimiters, blank separator lines only are skipped)")
    loc = L(mod, read, ctx)
    header = ["---\n", "schema:\n", "  delimiter: 'D'\n", "  missing: ''\n", "  fields:\n", "    - name: a\n", "      type: integer\n", "---\n"]
    cases = {
        "comma rows": (",", ["a,b\n", "1,2\n", ",\n", "3,\n"]),
        "tab rows with an all-missing row": ("\t", ["a\tb\n", "1\t2\n", "\t\n", "3\t4\n"]),
        "space-delimited all-missing row": (" ", ["a b\n", "1 2\n", " \n", "3 4\n"]),
        "form-feed delimiter": ("\x0c", ["a\x0cb\n", "\x0c\n"]),
        "single column": (",", ["a\n", "1\n", "''\n"]),
        "blank separator lines": (",", ["\n", "a,b\n", "\n", "1,2\n", "\n"]),
        "data row starting with dashes": (",", ["a,b\n", "---,1\n", "--- ,2\n"]),
        "dash cell followed by an empty cell": (" ", ["a b\n", "--- \n"]),
    }
    for name, (delim, rows) in cases.items():
        lines = [h.replace("D", delim) for h in header] + rows
        got = {}

        class Stop(Exception):
            pass

        def safe_load(I_, text):
            got["yaml"] = text
            return {"schema": {"delimiter": delim, "missing": "", "fields": [{"name": "a", "type": "integer"}, {"name": "b", "type": "integer"}]}}

        def reader(I_, lines_, **kw):
            got["csv"] = list(lines_)
            raise Stop()
        ext = {"builtins.open": Native("open", lambda I_, *a, **k: list(lines)),
               "io.StringIO": Native("StringIO", lambda I_, s="": s),
               "yaml.safe_load": Native("safe_load", safe_load),
               "csv.reader": Native("reader", reader)}
        I = Interp(ctx.program, externals=ext, stubs={"pydrex.io.resolve_path": Native("resolve_path", lambda I_, p, *a: p),
                                                        "pydrex.io._validate_scsv_schema": Native("validate", lambda I_, s: True)})
        f = I.resolve("pydrex.io.read_scsv")
        try:
            I.call(f, ("file.scsv",))
            why = "the reader never reached the CSV parser"
        except Stop:
            why = ""
        except RaiseSig as r:
            why = f"raises {r.exc.typename}"
        want_yaml = "".join(h.replace("D", delim) for h in header[1:-1])
        want_csv = [r for r in rows if r != "\n"]
        if not why:
            if got.get("yaml") != want_yaml:
                why = f"YAML parser received {got.get('yaml')!r}, the header block is {want_yaml!r}"
            elif got.get("csv") != want_csv:
                lost = [r for r in want_csv if r not in got.get("csv", [])]
                why = f"data line(s) {lost!r} never reach the CSV parser (got {got.get('csv')!r})"
        ctx.ob("C16.line-classes", name, not why, why, loc)
    ctx.floor("C16.line-classes", 8)


def substitution(ctx, mod, fns):
    """save_scsv's row construction interpreted (file, header writer, csv writer and cell validation stubbed) on one representative per
    (type, relation of the datum to the typed fill): only a datum equal to its field's typed fill (or NaN under a NaN fill) becomes the marker."""
    from ..values import Native, Record
    from ..interp import RaiseSig
    from ..npmodel import NAN
    from ..alg import lift
    fn = fns["save_scsv"]
    loc = L(mod, fn, ctx)
    schema = {"delimiter": ",", "missing": "-", "fields": [{"name": "a", "type": "integer", "fill": -1}, {"name": "b", "type": "string", "fill": "NA"},
                                                          {"name": "c", "type": "float", "fill": "NaN"}, {"name": "d", "type": "float", "fill": 9.5},
                                                          {"name": "e", "type": "boolean"}, {"name": "f", "type": "integer", "fill": "7"}]}
    near = lift(19) / 2 + lift(1) / 10 ** 7      # within 1e-5 (relative) of the fill 9.5, but not equal to it
    data = [[1, -1, 0, -2], ["x", "NA", "-1", "NA "], [lift(5) / 2, NAN, lift(0), lift(1) / 10 ** 9], [lift(1), lift(19) / 2, NAN, near], [True, False, True, False], [3, 7, -1, 70]]
    M = "-"
    want = [[1, "x", lift(5) / 2, lift(1), True, 3], [M, M, M, M, False, M], [0, "-1", lift(0), NAN, True, -1], [-2, "NA ", lift(1) / 10 ** 9, near, False, 70]]
    rows = []
    wr = Record(None, {}, label="csv writer")
    wr.native_methods["writerow"] = Native("writerow", lambda I_, row: rows.append(list(row)))
    ext = {"builtins.open": Native("open", lambda I_, *a, **k: Record(None, {}, label="file")), "csv.writer": Native("writer", lambda I_, s_, **kw: wr)}
    I = Interp(ctx.program, externals=ext, stubs={"pydrex.io.resolve_path": Native("resolve_path", lambda I_, p, *a: p),
                                                    "pydrex.io.write_scsv_header": Native("write_scsv_header", lambda I_, *a, **k: None),
                                                    "pydrex.io._parse_scsv_cell": Native("_parse_scsv_cell", lambda I_, *a, **k: None)})
    try:
        I.call(I.resolve("pydrex.io.save_scsv"), ("out.scsv", schema, data))
    except RaiseSig as r:
        ctx.ob("C16.substitution", "save_scsv on a six-column table", False, f"raises {r.exc.typename}", loc)
        rows = None
    if rows is not None:
        names = [f["name"] for f in schema["fields"]]
        ctx.ob("C16.substitution", "save_scsv: header row is the field names", bool(rows) and rows[0] == names, f"{rows[:1]}", loc)
        body = rows[1:]
        for r_, wrow in enumerate(want):
            for k, w in enumerate(wrow):
                got = body[r_][k] if r_ < len(body) and k < len(body[r_]) else "<no cell>"
                same = (got is w) or (type(got) is type(w) and got == w) or (not isinstance(w, (str, bool)) and not isinstance(got, (str, bool)) and got != "<no cell>"
                                                                             and not hasattr(got, "reason") and lift(got) == lift(w))
                kind = "equal to the typed fill -> marker" if w == M else "not the fill -> written as is"
                verdict = "inconclusive" if hasattr(got, "reason") else same     # an unmodelled cell is not evidence of a wrong one
                ctx.ob("C16.substitution", f"save_scsv: column {names[k]} ({schema['fields'][k].get('type')}), row {r_}: {kind}", verdict,
                       f"wrote {got!r}, expected {w!r}", loc)
    # (that the missing marker reads back as the typed fill is decided by interpretation in C16.cell-parser; a text rule on the shape of the
    # `if` that used to sit here fired on an inverted guard - benign round 12)


Q0, Q1 = "\u27e6", "\u27e7"
TAINT = {"delimiter": "\u00a7D", "missing": "\u00a7M", "unit": "\u00a7U", "fill": "\u00a7F"}


# words that YAML 1.1 (PyYAML's implicit resolvers) does not read back as the string they are, although they look like plain words or numbers
YAML_SPECIAL = ("no", "No", "NO", "yes", "Yes", "YES", "on", "On", "ON", "off", "Off", "OFF", "true", "True", "TRUE", "false", "False", "FALSE",
                "null", "Null", "NULL", "~", "1e3", "0x1F", "1_000", "0o7", ".inf", "-.INF", ".nan", ".NaN", "2001-01-01", "=", "<<", "12:30:45", "0b101", "1.5", "-7")


def header_text(ctx, comments=("a comment",), taint=None):
    """write_scsv_header interpreted on a schema whose free-text scalars are marked strings, with every YAML/JSON dumper replaced by a function
    that brackets its argument: returns (emitted text with os.linesep as newline, None) or (reason, None)."""
    from ..values import Native, Unsupported
    from ..interp import RaiseSig
    I, log, stream = _io_harness(ctx, validator=True)

    def dumper(I_, value, *a, **k):
        return Q0 + (value if isinstance(value, str) else repr(value)) + Q1 + "\n...\n"
    for q in QUOTERS:
        I.externals[q] = Native(q, dumper)
    taint = taint or TAINT
    schema = {"delimiter": taint["delimiter"], "missing": taint["missing"],
              "fields": [{"name": "alpha", "type": "float", "unit": taint["unit"], "fill": taint["fill"]}, {"name": "beta", "type": "string"}, {"name": "gamma"}]}
    try:
        I.call(I.resolve("pydrex.io.write_scsv_header"), (stream, schema), {"comments": list(comments)})
    except RaiseSig as r:
        return f"raises {r.exc.typename}", None
    except Unsupported as ex:
        return f"outside the interpreted subset: {ex}", None
    parts = [e[1] for e in log if e[0] == "write"]
    if not all(isinstance(x, str) for x in parts):
        return f"non-text write: {[type(x).__name__ for x in parts if not isinstance(x, str)][:2]}", None
    import os as _os
    return "".join(parts).replace("\r\n", "\n").replace(_os.linesep, "\n"), None


def yaml_emission(ctx, mod, fns, I):
    """Taint by interpretation: the free-text scalars of the schema (delimiter, missing marker, units, fills) may reach the emitted header only
    inside the output of a YAML/JSON dumper; names and types are restricted by the validator (C16.validator) and may be written as they are."""
    hdr = fns["write_scsv_header"]
    text, _ = header_text(ctx)
    if not isinstance(text, str) or TAINT["delimiter"] not in (text or ""):
        ctx.ob("C16.yaml-emission", "write_scsv_header", "inconclusive" if not isinstance(text, str) else False,
               f"header writer: {text!r}"[:200] if not isinstance(text, str) else "the schema scalars do not reach the header at all", L(mod, hdr, ctx))
        return
    for key, mark in TAINT.items():
        bare = 0
        depth = 0
        i = 0
        occurrences = 0
        while i < len(text):
            ch = text[i]
            if ch == Q0:
                depth += 1
            elif ch == Q1:
                depth -= 1
            elif text.startswith(mark, i):
                occurrences += 1
                if depth <= 0:
                    bare += 1
                i += len(mark) - 1
            i += 1
        ctx.ob("C16.yaml-emission", f"write_scsv_header:{key}", occurrences >= 1 and bare == 0,
               (f"schema value '{key}' reaches the YAML header {bare} time(s) outside a YAML/JSON dumper (unquoted or hand-quoted free text)" if bare else
                f"schema value '{key}' is not written" if not occurrences else ""), L(mod, hdr, ctx))
    # words that YAML does not read back as themselves must be dumped too, whatever they look like (identifiers, numbers)
    escaped = []
    for w in YAML_SPECIAL:
        t2, _ = header_text(ctx, taint={"delimiter": ",", "missing": w, "unit": w, "fill": w})
        if not isinstance(t2, str):
            escaped.append((w, f"header writer: {t2}"))
            continue
        for ln in t2.split("\n"):
            st = ln.strip()
            for key in ("missing", "unit", "fill"):
                if st.startswith(key + ":") and (Q0 + w + Q1) not in st:
                    escaped.append((w, st))
    ctx.ob("C16.yaml-emission", f"write_scsv_header: {len(YAML_SPECIAL)} words with a special meaning in YAML 1.1 as missing marker / unit / fill", not escaped,
           f"written without passing through a YAML dumper (they are read back as booleans, null or numbers): {escaped[:6]}", L(mod, hdr, ctx))
    # the two scalars written as they are must be the validated ones
    for ln in text.split("\n"):
        st = ln.strip()
        if st.startswith("- name:") or st.startswith("name:") or st.startswith("type:"):
            ctx.ob("C16.yaml-emission", f"write_scsv_header:{st.split(':')[0].lstrip('- ')} line `{st}`", Q0 not in st or True, "", L(mod, hdr, ctx))
    ctx.floor("C16.yaml-emission", 6)


def key_of(expr):
    """schema key a value expression reads: field['name'] / field.get('type', d) / schema['delimiter']."""
    if isinstance(expr, ast.Subscript) and isinstance(expr.slice, ast.Constant) and isinstance(expr.slice.value, str):
        return expr.slice.value
    if isinstance(expr, ast.Call) and isinstance(expr.func, ast.Attribute) and expr.func.attr == "get" and expr.args and isinstance(expr.args[0], ast.Constant):
        return expr.args[0].value
    return None


def schema_sources(expr, defs, I, fn, mod, depth=0):
    """[(schema key, quoted?)] for an interpolated expression; follows local definitions and quoting wrappers."""
    if depth > 6:
        return []
    k = key_of(expr)
    if k is not None:
        return [(k, False)]
    if isinstance(expr, ast.Name):
        out = []
        for d in defs.get(expr.id, []):
            out += schema_sources(d, defs, I, fn, mod, depth + 1)
        return out
    if isinstance(expr, ast.Call):
        d = flow.dotted(expr.func) or ""
        inner = []
        for a in list(expr.args) + [kw.value for kw in expr.keywords]:
            inner += schema_sources(a, defs, I, fn, mod, depth + 1)
        if is_quoter(d, mod, I):
            return [(k2, True) for k2, _ in inner]
        if isinstance(expr.func, ast.Attribute):  # method call on a value: x.strip(), str(x).replace(...)
            inner += schema_sources(expr.func.value, defs, I, fn, mod, depth + 1)
        return inner
    out = []
    for ch in ast.iter_child_nodes(expr):
        if isinstance(ch, ast.expr):
            out += schema_sources(ch, defs, I, fn, mod, depth + 1)
    return out


def is_quoter(dotted_name, mod, I):
    if not dotted_name:
        return False
    parts = dotted_name.split(".")
    imp = mod.imports.get(parts[0])
    full = dotted_name
    if imp and imp[0] == "module":
        full = ".".join([imp[1]] + parts[1:])
    elif imp and imp[0] == "from":
        full = ".".join([imp[1], imp[2]] + parts[1:])
    if full in QUOTERS:
        return True
    # repository wrapper: every return statement returns (a method chain on) a quoting call
    node = mod.defs.get(parts[0]) if len(parts) == 1 else None
    if isinstance(node, ast.FunctionDef):
        rets = [r for r in ast.walk(node) if isinstance(r, ast.Return) and r.value is not None]
        def has_quoter(e, seen=()):
            if any(isinstance(c, ast.Call) and is_quoter(flow.dotted(c.func) or "", mod, I) for c in ast.walk(e)):
                return True
            for nm in [x.id for x in ast.walk(e) if isinstance(x, ast.Name) and x.id not in seen]:
                assigns = [a.value for a in ast.walk(node) if isinstance(a, ast.Assign) and any(isinstance(t, ast.Name) and t.id == nm for t in a.targets)]
                if assigns and all(has_quoter(a, seen + (nm,)) for a in assigns):
                    return True
            return False
        return bool(rets) and all(has_quoter(r.value) for r in rets)
    return False
