"""C10 — Voigt average == volume-weighted mean of rotated single-crystal stiffnesses."""

from __future__ import annotations

import itertools

import numpy as np

from .. import alg
from ..alg import E, lift, ZERO, ONE
from ..interp import Interp, RaiseSig
from ..values import symarr, Record, ClassVal, IntSym, Unsupported
from .common import public, defloc, short, ident_arr, sym_matrix, enum, explore_exits, dtype_rule
from .c11 import voigt_index
from . import driver

LEVEL = "other"


def ref_average(minerals, assemblage, fractions, C, nsteps, N):
    """Reference: sum_m phi_phase(m) sum_g f Voigt(rot(C_phase(m), A^T)), written independently."""
    out = np.empty((nsteps, 6, 6), dtype=object)
    pairs = {}
    for p, q in itertools.product(range(3), repeat=2):
        pairs.setdefault(voigt_index(p, q), []).append((p, q))
    for i in range(nsteps):
        acc = np.empty((6, 6), dtype=object)
        acc.fill(ZERO)
        for m in minerals:
            ph = m.attrs["phase"].name
            phi = fractions[[a for a in assemblage].index(ph)]
            M = C[ph]
            for g in range(N):
                A = m.attrs["orientations"][i][g]
                f = m.attrs["fractions"][i][g]
                T = np.empty((3, 3, 3, 3), dtype=object)
                for a, b, c, d in itertools.product(range(3), repeat=4):
                    T[a, b, c, d] = M[voigt_index(a, b), voigt_index(c, d)]
                rot = np.empty((3, 3, 3, 3), dtype=object)
                for ii, jj, kk, ll in itertools.product(range(3), repeat=4):
                    v = ZERO
                    for a, b in itertools.product(range(3), repeat=2):
                        rab = A[a, ii] * A[b, jj]            # R = A^T  =>  R[i,a] = A[a,i]
                        for c, d in itertools.product(range(3), repeat=2):
                            t = T[a, b, c, d]
                            if t.t:
                                v = v + rab * A[c, kk] * A[d, ll] * t
                    rot[ii, jj, kk, ll] = alg.let(v)
                V = np.empty((6, 6), dtype=object)
                for I_, J_ in itertools.product(range(6), repeat=2):
                    cs = [rot[p, q, r, s] for (p, q) in pairs[I_] for (r, s) in pairs[J_]]
                    V[I_, J_] = sum(cs, ZERO) / len(cs)
                V = (V + V.T) / 2
                acc = acc + V * f * phi
        out[i] = acc
    return out


def run(ctx):
    ctx.explanation = (
        "minerals.voigt_averages is interpreted on abstract minerals (symbolic orientations and volumes, two snapshots) with symbolic symmetric "
        "6x6 stiffnesses for both phases supplied through a StiffnessTensors record whose __iter__ is the repository's, for the assemblages "
        "(ol), (en), (ol,en), (en,ol).  Every cell of the result must equal the reference sum_m phi_phase(m) sum_g f_g Voigt(rot(C_phase(m), "
        "A_g^T)) written independently in the checker; plus symmetry, invariance under reordering minerals and under simultaneous permutation "
        "of (assemblage, fractions), the aligned single grain case, and rejection of inconsistent inputs with ValueError.  Texture-independent "
        "moduli and co-rotation follow from the verified tensor law (C11).  Nothing numeric beyond rounding is left undecided.")
    ctx.trusted += ["reference tensor law and Voigt map in pdxsa/checks/c10.py, c11.py", "NumPy semantics of the interpreted subset"]
    ctx.rule("C10.average", "voigt_averages(...)[i] == reference volume-weighted sum of rotated stiffnesses (all 36 cells, per snapshot)")
    ctx.rule("C10.symmetric", "the averaged 6x6 matrix is symmetric")
    ctx.rule("C10.order", "result unchanged by reordering the mineral list and by simultaneously permuting assemblage and fractions")
    ctx.rule("C10.aligned", "one aligned grain (A = I, f = 1, phi = 1) returns the single-crystal matrix; several aligned grains with general volumes f_g and phase "
             "fraction phi return phi * (sum_g f_g) * C; an aligned grain next to a generic one contributes phi * f * C")
    ctx.rule("C10.exit-paths", "the reference average also holds on every data-dependent early-exit path of voigt_averages and its helpers (each exit forced in "
             "turn, the reference restricted to the region the exit condition describes)")
    ctx.rule("C10.reject", "unequal grain counts / snapshot counts raise ValueError")
    ctx.rule("C10.history", "the result is a function of the arguments of the call: a later call in the same process with the same objects holding new "
             "contents (stiffness record mutated in place, minerals with new snapshots), or with new objects, still equals the reference")
    dotted = "pydrex.minerals.voigt_averages"
    loc = defloc(ctx, dotted)
    I = Interp(ctx.program)
    f = public(ctx, I, dotted)
    st_cls = public(ctx, I, "pydrex.minerals.StiffnessTensors")
    C = {"olivine": sym_matrix("Col", 6), "enstatite": sym_matrix("Cen", 6)}
    st = Record(st_cls, {"olivine": C["olivine"], "enstatite": C["enstatite"]})
    N, nsteps = (1, 2) if ctx.tier == "quick" else (2, 3)
    fab = {"olivine": "olivine_A", "enstatite": "enstatite_AB"}
    p, q = alg.psym("phiA"), alg.psym("phiB")
    configs = [(("olivine",), (p,), None), (("enstatite",), (p,), None), (("olivine", "enstatite"), (p, q), None), (("enstatite", "olivine"), (q, p), None),
               # grains of exactly zero volume (consumed grains) at the head / in the middle of a snapshot: their weight is 0, every other
               # grain keeps its own weight
               (("olivine",), (p,), "zero-volume grains")]
    results = {}
    N0 = N
    for assemblage, fr, variant in configs:
        N = 3 if variant else N0
        ms = [driver.make_mineral(I, ph, fab[ph], "matrix_dislocation", N, label=ph[:2] + ("z" if variant else ""), nsnap=nsteps, symbolic_n=False) for ph in assemblage]
        if variant:
            for m in ms:
                for k, fsnap in enumerate(m.attrs["fractions"]):
                    fsnap[(k + 1) % N] = ZERO
        # the remaining volumes are strictly positive on this path (so that a `fractions > 0` selection is decidable)
        for m in ms:
            for fsnap in m.attrs["fractions"]:
                I.facts_nonzero.extend(lift(x) for x in fsnap if lift(x) != ZERO)
        tag = f"assemblage={assemblage}" + (f":{variant}" if variant else "")
        phs = [enum(I, "pydrex.core.MineralPhase", a) for a in assemblage]
        try:
            t0 = len(I.trace)
            out = I.call(f, (ms, list(phs), list(fr), st))
            dtype_rule(ctx, I, t0, [ms, st], dotted, construct=tag)
        except RaiseSig as r:
            ctx.ob("C10.average", tag, False, f"raises {r.exc.typename} (line {getattr(r.exc.node, 'lineno', '?')})", loc)
            continue
        ref = ref_average(ms, assemblage, fr, C, nsteps, N)
        ident_arr(ctx, "C10.average", tag, out, ref, loc, what="averaged stiffness")
        if isinstance(out, np.ndarray) and out.shape == (nsteps, 6, 6):
            ident_arr(ctx, "C10.symmetric", tag, out, out.transpose(0, 2, 1), loc)
        if variant:
            continue
        results[assemblage] = (out, ms)
        if len(assemblage) == 2:
            try:
                out2 = I.call(f, (ms[::-1], list(phs), list(fr), st))
                ident_arr(ctx, "C10.order", tag + ":minerals reversed", out2, out, loc)
            except RaiseSig as r:
                ctx.ob("C10.order", tag + ":minerals reversed", False, f"raises {r.exc.typename}", loc)
    a, b = results.get(("olivine", "enstatite")), results.get(("enstatite", "olivine"))
    if a and b:
        # same minerals (labels ol/en produce the same symbols), permuted assemblage+fractions
        ident_arr(ctx, "C10.order", "simultaneous permutation of assemblage and fractions", a[0], b[0], loc)
    ctx.floor("C10.average", 4)
    # call-history independence: module-level state of the interpreted program persists between the calls above and these
    a_ms = results.get(("olivine", "enstatite"))
    if a_ms:
        ms = a_ms[1]
        phs = [enum(I, "pydrex.core.MineralPhase", a) for a in ("olivine", "enstatite")]
        C2 = {"olivine": sym_matrix("Dol", 6), "enstatite": sym_matrix("Den", 6)}
        for label in ("same stiffness record, new contents", "new stiffness record", "same minerals, new snapshots"):
            if label.startswith("same stiffness"):
                st.attrs["olivine"], st.attrs["enstatite"] = C2["olivine"], C2["enstatite"]
                st_k, C_k = st, C2
            elif label.startswith("new stiffness"):
                C_k = {"olivine": sym_matrix("Eol", 6), "enstatite": sym_matrix("Een", 6)}
                st_k = Record(st_cls, dict(C_k))
            else:
                st_k, C_k = st, C2
                for m in ms:
                    fresh = driver.make_mineral(I, m.attrs["phase"].name, fab[m.attrs["phase"].name], "matrix_dislocation", N0,
                                                label="h" + m.attrs["phase"].name[:2], nsnap=nsteps, symbolic_n=False)
                    m.attrs["orientations"], m.attrs["fractions"] = fresh.attrs["orientations"], fresh.attrs["fractions"]
                    I.facts_nonzero.extend(lift(x) for fsnap in m.attrs["fractions"] for x in fsnap)
            try:
                out = I.call(f, (ms, list(phs), [p, q], st_k))
                ident_arr(ctx, "C10.history", label, out, ref_average(ms, ("olivine", "enstatite"), (p, q), C_k, nsteps, N0), loc, what="averaged stiffness")
            except RaiseSig as r:
                ctx.ob("C10.history", label, False, f"raises {r.exc.typename}", loc)
            except (Unsupported, alg.AlgError) as ex:
                ctx.ob("C10.history", label, "inconclusive", f"outside the interpreted subset: {str(ex)[:120]}", loc)
        st.attrs["olivine"], st.attrs["enstatite"] = C["olivine"], C["enstatite"]
    ctx.floor("C10.history", 3)
    # aligned grain
    for ph in ("olivine", "enstatite"):
        m = driver.make_mineral(I, ph, fab[ph], "matrix_dislocation", 1, label="al", nsnap=1, symbolic_n=False)
        m.attrs["orientations"] = [I.np.np_eye(3).reshape(1, 3, 3)]
        m.attrs["fractions"] = [np.array([ONE], dtype=object)]
        try:
            out = I.call(f, ([m], [enum(I, "pydrex.core.MineralPhase", ph)], [ONE], st))
            ident_arr(ctx, "C10.aligned", ph, out[0], C[ph], loc)
        except RaiseSig as r:
            ctx.ob("C10.aligned", ph, False, f"raises {r.exc.typename}", loc)
    # several aligned grains with general volumes; an aligned grain next to a generic one
    for ph in ("olivine", "enstatite"):
        for variant in ("all aligned", "first aligned", "last aligned"):
            m = driver.make_mineral(I, ph, fab[ph], "matrix_dislocation", 3, label="am", nsnap=1, symbolic_n=False)
            aligned = {"all aligned": (0, 1, 2), "first aligned": (0,), "last aligned": (2,)}[variant]
            for g in aligned:
                m.attrs["orientations"][0][g] = I.np.np_eye(3)
            I.facts_nonzero.extend(lift(x) for fsnap in m.attrs["fractions"] for x in fsnap)      # volumes are strictly positive here
            try:
                out = I.call(f, ([m], [enum(I, "pydrex.core.MineralPhase", ph)], [p], st))
                ident_arr(ctx, "C10.aligned", f"{ph}:{variant}, general volumes", out, ref_average([m], (ph,), (p,), C, 1, 3), loc, what="averaged stiffness")
            except RaiseSig as r:
                ctx.ob("C10.aligned", f"{ph}:{variant}, general volumes", False, f"raises {r.exc.typename}", loc)
            except (Unsupported, alg.AlgError) as ex:
                ctx.ob("C10.aligned", f"{ph}:{variant}, general volumes", "inconclusive", f"outside the interpreted subset: {str(ex)[:120]}", loc)
    ctx.floor("C10.aligned", 8)
    # early-exit paths of the average and its helpers
    def build(I_):
        ms_ = [driver.make_mineral(I_, ph, fab[ph], "matrix_dislocation", 2, label="x" + ph[:2], nsnap=1, symbolic_n=False) for ph in ("olivine", "enstatite")]
        st_ = Record(public(ctx, I_, "pydrex.minerals.StiffnessTensors"), {"olivine": C["olivine"], "enstatite": C["enstatite"]})
        for m in ms_:
            for fsnap in m.attrs["fractions"]:
                I_.facts_nonzero.extend(lift(x) for x in fsnap)
        return ms_, [enum(I_, "pydrex.core.MineralPhase", a) for a in ("olivine", "enstatite")], st_
    Ig = Interp(ctx.program)
    ms_g, phs_g, st_g = build(Ig)
    try:
        Ig.call(public(ctx, Ig, dotted), (ms_g, phs_g, [p, q], st_g))
        ref_g = ref_average(ms_g, ("olivine", "enstatite"), (p, q), C, 1, 2)

        def again(I_):
            ms_, phs_, st_ = build(I_)
            return I_.call(public(ctx, I_, dotted), (ms_, phs_, [p, q], st_))
        nj = explore_exits(ctx, "C10.exit-paths", "voigt_averages(ol+en, 2 grains)", Ig, 0, lambda: Interp(ctx.program), again, ref_g, loc, what="averaged stiffness")
        ctx.count("early-exit paths judged", nj)
    except RaiseSig as r:
        ctx.ob("C10.exit-paths", "generic call", False, f"raises {r.exc.typename}", loc)
    except (Unsupported, alg.AlgError) as ex:
        ctx.ob("C10.exit-paths", "generic call", "inconclusive", f"outside the interpreted subset: {str(ex)[:120]}", loc)
    # rejection
    def bad(kind):
        m1 = driver.make_mineral(I, "olivine", "olivine_A", "matrix_dislocation", 2, label="b1", nsnap=2, symbolic_n=False)
        m2 = driver.make_mineral(I, "enstatite", "enstatite_AB", "matrix_dislocation", 3 if kind == "grains" else 2, label="b2",
                                 nsnap=3 if kind == "snapshots" else 2, symbolic_n=False)
        if kind == "fractions":
            m2.attrs["fractions"] = m2.attrs["fractions"][:1]
        if kind == "fractions-first":
            m1.attrs["fractions"] = m1.attrs["fractions"][:1]
        return [m1, m2]
    def bad3(kind):
        ms = bad(kind)
        ok = driver.make_mineral(I, "olivine", "olivine_A", "matrix_dislocation", 2, label="b0", nsnap=2, symbolic_n=False)
        return [ok, ms[0], ms[1]]     # the inconsistent mineral is the THIRD one
    for kind in ("grains", "snapshots", "fractions", "fractions-first", "3:grains", "3:snapshots", "3:fractions"):
        phs = [enum(I, "pydrex.core.MineralPhase", a) for a in ("olivine", "enstatite")]
        try:
            I.call(f, (bad3(kind[2:]) if kind.startswith("3:") else bad(kind), phs, [p, q], st))
            ctx.ob("C10.reject", kind, False, "inconsistent minerals were accepted", loc)
        except RaiseSig as r:
            ctx.ob("C10.reject", kind, r.exc.typename == "ValueError", f"raised {r.exc.typename}", loc)
    ctx.floor("C10.reject", 7)
