"""C03 — rates conserve the texture manifold: form properties of the extracted rates + division guards."""

from __future__ import annotations

import numpy as np

from .. import alg
from ..alg import E, lift, ZERO, ONE, INF, Inf, Abs
from ..interp import Interp, RaiseSig
from ..values import Guard, Opaque
from .common import ident, ident_arr, public, defloc, short
from . import drex

LEVEL = "other"


def run(ctx):
    ctx.explanation = (
        "On the same whole-function extraction of pydrex.core.derivatives as C02 (all fabrics x both dislocation-type regimes x all "
        "orderings), properties of the extracted forms are decided without a reference: (skew) dA_g = A_g·S with one S for all rows and "
        "S+S^T == 0; (conserve) sum_g df_g == 0 under sum f == 1; (dead) df_g == 0 at f_g = 0; (linear) df is homogeneous of degree one in "
        "M* and in phi, which occur nowhere else, and dA is free of M*, phi, f; (mean-field) df_g = phi M* f_g R_g with R_g - R_h free of f, "
        "so a grain grows iff its own energy term is below the f-weighted mean; (guards) every division on the path has a denominator "
        "that is a non-zero constant/CRSS cell, a positive parameter, or is excluded from zero by a dominating guard, including the "
        "ordering-selected invariant. Not decided: overflow of pow/exp for extreme parameters; n_grains up to 1e5 (memory/time).")
    ctx.trusted += ["NumPy/Numba reference semantics over the reals", "Numba raises ZeroDivisionError on scalar float division by zero (error_model='python')"]
    ctx.assume("deformation_exponent n > 0 (documented physical range [2,5])")
    for r in ("skew", "conserve", "dead", "linear", "meanfield", "div-guard", "noslip-branch", "exit-paths"):
        ctx.rule("C03." + r, RULES[r])
    loc = defloc(ctx, "pydrex.core.derivatives")
    Ns = (2,) if ctx.tier == "quick" else (1, 2, 3)
    for fabric in drex.REF_CRSS:
        for regime in drex.DISLOCATION_REGIMES:
            for perm in drex.orderings(fabric):
                for N in Ns:
                    tag = f"{fabric}:{regime}:order={perm}:N={N}"
                    try:
                        I, inp, out = drex.extract(ctx, fabric, regime, perm, N)
                    except RaiseSig as r:
                        ctx.ob("C03.div-guard", tag, False, f"derivatives raises {r.exc.typename} on generic input (line {getattr(r.exc.node, 'lineno', '?')})", loc)
                        continue
                    dA, df = out
                    form_properties(ctx, tag, inp, dA, df, loc)
                    if N == Ns[0]:
                        guards(ctx, fabric, regime, perm, I, loc, inp)
                    if N == Ns[0] and perm == drex.orderings(fabric)[0]:
                        exit_paths(ctx, fabric, regime, perm, N, I, loc)
    n_cases = 2 * (5 * 6 + 1) * len(Ns)
    ctx.floor("C03.skew", n_cases)
    ctx.floor("C03.conserve", n_cases)
    ctx.floor("C03.div-guard", 2 * 31 * 4)
    ctx.floor("C03.exit-paths", 60)


RULES = {
    "skew": "dA_g[p,q] == sum_s A_g[p,s]·S_g[s,q] with the same S_g for p=0,1,2 and S_g + S_g^T == 0 (S read off as shallow coefficients)",
    "conserve": "sum_g df_g == 0 after substituting f_{N-1} = 1 - sum of the others",
    "dead": "df_g with f_g := 0 is identically 0",
    "linear": "every monomial of df_g carries M*^1·phi^1, neither occurs inside any atom; dA has no (deep) dependence on M*, phi, f",
    "meanfield": "df_g == phi·M*·f_g·R_g with R_g - R_h independent of f for all g,h",
    "div-guard": "each division site reachable from derivatives: denominator is a non-zero constant / CRSS cell / positive parameter, or a "
                 "dominating guard excludes zero; an ordering-selected denominator needs 'not all ordering keys zero' to be implied by a dominating guard",
    "exit-paths": "skew, conserve and dead also hold on the paths through each data-dependent early exit of the rate computation (forced for the first grain only, and for every grain)",
    "noslip-branch": "the branch taken when no slip can be resolved returns a rate of the form orientation·S with S skew (zero included) and a constant energy",
}


def exit_paths(ctx, fabric, regime, perm, N, generic, loc):
    """The invariants of the generic path must also hold when a data-dependent early exit on the rate path is taken: each exit location met
    on the generic path is forced for its first occurrence only (one grain leaves early, the others do not) and for every occurrence."""
    from ..values import Unsupported
    locs = []
    for gi, gl, occ in generic.exit_ids:
        g_, outcome_, _, _ = generic.guards[gi]
        if outcome_[0] != "raise" and gl not in locs:
            locs.append(gl)
    for gl in locs:
        for occ in (0, N - 1, "*") if N > 1 else (0,):
            who = {0: "by the first grain only", N - 1: "by the last grain only", "*": "by every grain"}[occ]
            tag = f"{fabric}:{regime}:order={perm}:N={N}:early exit at {gl.split('/')[-1]} taken {who}"
            try:
                I, inp, out = drex.extract(ctx, fabric, regime, perm, N, setup=lambda I_: setattr(I_, "force_exit", (gl, occ)))
            except RaiseSig as r:
                ctx.ob("C03.exit-paths", tag, False, f"derivatives raises {r.exc.typename} when the exit is taken (line {getattr(r.exc.node, 'lineno', '?')})", gl)
                continue
            except (Unsupported, alg.AlgError, drex.AnalysisError) as ex:
                ctx.ob("C03.exit-paths", tag, "inconclusive", f"outside the interpreted subset: {str(ex)[:120]}", gl)
                continue
            if I.forced is None:
                continue
            dA, df = out
            form_properties(ctx, tag, inp, dA, df, gl, as_rule="C03.exit-paths")


def shallow_derive(e, atom):
    """d e / d atom treating let atoms as opaque constants."""
    memo = {a: ZERO for a in alg.atoms_of(e) if a.kind == "let"}
    return alg.derive(e, {atom: ONE}, memo)


def form_properties(ctx, tag, inp, dA, df, loc, as_rule=None):
    """as_rule: record skew / conserve / dead under that one rule (paths through forced early exits), skip the rules on the generic form"""
    N = inp.N
    A = inp.A
    if as_rule is not None:
        real_ctx = ctx

        class _Sub:
            def check(self, rule, tag_, fn, loc_):
                return real_ctx.check(as_rule, f"{tag_}:{rule.split('.')[-1]}", fn, loc_)
        ctx = _Sub()

    def skew():
        for g in range(N):
            S_ref = None
            for p in range(3):
                S = np.empty((3, 3), dtype=object)
                for q in range(3):
                    cellv = alg.unfold_once(lift(dA[g, p, q]))[0] if lift(dA[g, p, q]).is_monomial() else lift(dA[g, p, q])
                    # strip a possible constant factor·let wrapper (yielding regime): unfold until explicit A cells show
                    for _ in range(3):
                        if any(a.kind == "sym" and str(a.args[0]).startswith("A[") for a in alg.atoms_of(cellv)):
                            break
                        cellv, ch = alg.unfold_once(cellv)
                        if not ch:
                            break
                    recon = ZERO
                    for s in range(3):
                        (atom,) = alg.atoms_of(A[g, p, s])
                        c = shallow_derive(cellv, atom)
                        S[s, q] = c
                        recon = recon + A[g, p, s] * c
                    v, info = alg.decide(cellv, recon)
                    if v != "equal":
                        return (False if v == "differ" else "inconclusive"), f"grain {g} cell [{p},{q}] is not linear in row {p} of A: {short(cellv)}"
                if S_ref is None:
                    S_ref = S
                    for s in range(3):
                        for q in range(3):
                            v, info = alg.decide(S[s, q] + S[q, s], ZERO)
                            if v != "equal":
                                return (False if v == "differ" else "inconclusive"), f"grain {g}: spin not skew: S[{s},{q}]+S[{q},{s}] = {short(S[s, q] + S[q, s])}"
                else:
                    for s in range(3):
                        for q in range(3):
                            v, info = alg.decide(S[s, q], S_ref[s, q])
                            if v != "equal":
                                return (False if v == "differ" else "inconclusive"), f"grain {g}: row {p} rotates with a different spin than row 0"
        return True, ""
    ctx.check("C03.skew", tag, skew, loc)

    fat = [list(alg.atoms_of(x))[0] for x in inp.f]

    def conserve():
        tot = sum((lift(x) for x in df), ZERO)
        last = ONE - sum((inp.f[g] for g in range(N - 1)), ZERO)
        tot = alg.subst(tot, {fat[N - 1]: last})
        v, info = alg.decide(tot, ZERO)
        return (True, "") if v == "equal" else ((False if v == "differ" else "inconclusive"), f"sum df = {short(tot)} ({info})")
    ctx.check("C03.conserve", tag, conserve, loc)

    def dead():
        for g in range(N):
            z = alg.subst(lift(df[g]), {fat[g]: ZERO})
            if not z.is_zero():
                return False, f"df[{g}] at f[{g}]=0 is {short(z)}"
        return True, ""
    ctx.check("C03.dead", tag, dead, loc)
    if as_rule is not None:
        return

    (Ma,) = alg.atoms_of(inp.M)
    (Pa,) = alg.atoms_of(inp.phi)

    def linear():
        for g in range(N):
            e = lift(df[g])
            for m in e.t:
                d = dict(m)
                if d.get(Ma) != 1 or d.get(Pa) != 1:
                    return False, f"df[{g}] has a monomial without M*^1·phi^1: {short(E({m: e.t[m]}))}"
                for a, x in m:
                    if a not in (Ma, Pa) and ({Ma, Pa} & alg.atoms_of(E.atom(a), deep=True)):
                        return False, f"M*/phi occurs inside atom {a!r}"
        bad = {Ma, Pa, *fat}
        for c in dA.flat:
            if bad & alg.atoms_of(lift(c), deep=True):
                return False, f"orientation rate depends on M*, phi or f: {short(c)}"
        return True, ""
    ctx.check("C03.linear", tag, linear, loc)

    def meanfield():
        R = []
        for g in range(N):
            q = lift(df[g]) / (inp.phi * inp.M * inp.f[g])
            for m in q.t:
                for a, x in m:
                    if isinstance(x, int) and x < 0 and a in (Ma, Pa, fat[g]):
                        return False, f"df[{g}] is not divisible by phi·M*·f[{g}]"
            R.append(q)
        for g in range(1, N):
            if set(fat) & alg.atoms_of(R[g] - R[0], deep=True):
                return False, f"R[{g}]-R[0] depends on volume fractions: {short(R[g] - R[0])}"
        return True, ""
    ctx.check("C03.meanfield", tag, meanfield, loc)


def skew_form(dA, Ag, prefix="A["):
    """dA (3x3) == Ag · S with one S for all rows and S + S^T == 0 (S read off as shallow coefficients)."""
    S_ref = None
    for p in range(3):
        S = np.empty((3, 3), dtype=object)
        for q in range(3):
            cellv = lift(dA[p, q])
            for _ in range(3):
                if not cellv.t or any(a.kind == "sym" and str(a.args[0]).startswith(prefix) for a in alg.atoms_of(cellv)):
                    break
                cellv, ch = alg.unfold_once(cellv)
                if not ch:
                    break
            recon = ZERO
            for s_ in range(3):
                (atom,) = alg.atoms_of(Ag[p, s_])
                c = shallow_derive(cellv, atom)
                S[s_, q] = c
                recon = recon + Ag[p, s_] * c
            v, info = alg.decide(cellv, recon)
            if v != "equal":
                return False, f"cell [{p},{q}] = {short(cellv, 80)} is not the orientation row composed with a spin"
        if S_ref is None:
            S_ref = S
            for a in range(3):
                for b in range(3):
                    if alg.decide(S[a, b] + S[b, a], ZERO)[0] != "equal":
                        return False, f"spin not skew: S[{a},{b}]+S[{b},{a}] = {short(S[a, b] + S[b, a], 80)}"
        else:
            for a in range(3):
                for b in range(3):
                    if alg.decide(S[a, b], S_ref[a, b])[0] != "equal":
                        return False, f"row {p} rotates with a different spin than row 0"
    return True, ""


def guards(ctx, fabric, regime, perm, I, loc, inp=None):
    """Judge every division recorded on the interpreted path."""
    tagp = f"{fabric}:{regime}:order={perm}"
    seen = set()
    for den, dloc, func, nz, facts in I.divisions:
        for role, d in denominators(den):
            key = (dloc, role, d.key() if hasattr(d, "key") else repr(d))
            if key in seen:
                continue
            seen.add(key)
            ok, why = judge(d, nz, facts)
            construct = f"{tagp}:{func.split('.')[-1]}:{role_name(d, facts)}"
            ctx.ob("C03.div-guard", construct, ok, f"denominator {short(d)} at {dloc}: {why}", dloc, key=("C03.div-guard", construct, dloc))
    # the no-slip early exits must return zeros
    for g, out, gloc, fn in I.guards:
        if g.kind == "all" and out[0] == "return":
            v = out[1]
            if not (isinstance(v, tuple) and len(v) == 2 and isinstance(v[0], np.ndarray) and v[0].shape == (3, 3)):
                # a helper with another contract (rate written into a buffer of the caller ...): what the exit leaves behind is decided on
                # the result of `derivatives` by C03.exit-paths, not on the value returned here
                ctx.observe(f"{tagp}: the early exit at {gloc} does not return (rate, energy); judged by C03.exit-paths on the result of derivatives")
                continue
            okz, why = False, f"no-slip branch returns {v!r}"[:200]
            if True:
                en_ok = isinstance(v[1], E) and (v[1].is_const())
                if all(lift(c).is_zero() for c in v[0].flat):
                    okz, why = en_ok, "zero rotation, constant energy" if en_ok else "energy of a grain without slip is not a constant"
                elif inp is not None:
                    res = [skew_form(v[0], inp.A[g]) for g in range(inp.N)]
                    okz = en_ok and any(r[0] for r in res)
                    why = "orientation composed with a skew spin" if okz else "rate returned for a grain without slip is not its orientation composed with a skew spin: " + res[0][1]
            ctx.ob("C03.noslip-branch", f"{tagp}:{fn.split('.')[-1]}", okz, why, gloc)


def denominators(den):
    if isinstance(den, np.ndarray):
        out = []
        for i, c in enumerate(den.flat):
            out.append((f"cell{i}", c))
        return out
    return [("scalar", den)]


def role_name(d, facts):
    if isinstance(d, Inf):
        return "crss-cell(inf)"
    d = lift(d)
    if d.is_const():
        return f"const({d.cval()})"
    for f in facts:
        if f[0] == "perm":
            keys, perm = f[1], f[2]
            if related(keys[perm[-1]], d):
                return "ordering-selected-max"
    ats = alg.atoms_of(d)
    if len(d.t) == 1 and all(a.kind == "psym" for a in ats):
        return "param(" + ",".join(sorted(str(a) for a in ats)) + ")"
    return "expr#" + str(abs(hash(d.key())) % 100000)


def related(key, d):
    """key == c·|d| for a positive constant c (the ordering key of invariant d)."""
    key = lift(key)
    if key.is_zero():
        return False
    q = key / Abs(d)
    return q.is_const() and q.cval() > 0


def implies_nonzero(w, k):
    """w != 0  ==>  k != 0, decided structurally: k == c·|w| or k == c·w (c != 0 constant)."""
    w, k = lift(w), lift(k)
    if k.is_zero():
        return False
    for cand in (Abs(w), w):
        if cand.is_zero():
            continue
        q = k / cand
        if q.is_const() and q.cval() != 0:
            return True
    return False


def judge(d, nonzero, facts):
    if isinstance(d, Inf):
        return True, "infinite CRSS cell (x/inf = 0)"
    if isinstance(d, Opaque):
        return "inconclusive", "opaque denominator"
    d = lift(d)
    if d.is_zero():
        return False, "denominator is identically zero"
    if d.is_const():
        return True, "non-zero constant"
    ats = alg.atoms_of(d)
    if len(d.t) == 1 and all(a.pos for a in ats) and all(a.kind in ("psym", "pc") for a in ats):
        return True, "positive parameter (documented range)"
    for z in nonzero:
        z = lift(z)
        if z == d or z == -d:
            return True, "a dominating guard excludes zero for this expression"
        q = z / d
        if q.is_const() and q.cval() != 0:
            return True, "a dominating guard excludes zero for a constant multiple of this expression"
        if z == Abs(d):
            return True, "a dominating guard bounds |denominator| away from zero"
    # ordering-selected denominator
    perms = [f for f in facts if f[0] == "perm"]
    naz = [f for f in facts if f[0] == "notallzero"]
    for pf in perms:
        keys, perm = pf[1], pf[2]
        m = perm[-1]
        if not related(keys[m], d):
            continue
        fail_msg = None
        for nf in naz:
            W = nf[1]
            if not any(implies_nonzero(w, k) for w in W for k in keys):
                continue  # a guard about some other vector (another grain)
            ok = True
            culprit = None
            for w in W:
                w = lift(w)
                if w.is_zero():
                    continue
                if not any(implies_nonzero(w, k) for k in keys):
                    ok = False
                    culprit = w
                    break
            if ok:
                return True, "selected by the activity ordering as the maximal key, and a dominating guard excludes 'all keys zero'"
            fail_msg = ("selected by the activity ordering, but the dominating guard only excludes 'all of " + short(tuple(W), 80) +
                        " zero': " + short(culprit, 60) + " can be the only non-zero entry while every ordering key is zero "
                        "(its slip system has infinite CRSS and no finite-CRSS system shares its invariant), so the selected invariant may be 0 -> ZeroDivisionError")
        if fail_msg:
            return False, fail_msg
        return False, "selected by the activity ordering and no dominating guard excludes an all-zero key vector"
    return False, "no dominating guard excludes zero for this runtime quantity"
