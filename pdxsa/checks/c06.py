"""C06 — the returned deformation gradient is the solver's solution of dF/dt = L(t, x(t))·F."""

from __future__ import annotations

import numpy as np

from .. import alg
from ..alg import E, lift, ZERO, ONE
from ..interp import Interp, RaiseSig
from ..values import symarr, Native, Record, ClassVal, keyof
from .common import public, defloc, short, ident_arr
from . import driver

LEVEL = "other"


def run(ctx):
    ctx.explanation = (
        "From the abstract interpretation of update_orientations with a stub solver: the F block of the right-hand side equals "
        "L(t, x(t))·F(y) with L evaluated at get_position(t) for the same t, F read row-major from y[:9] and not rescaled; the solver is "
        "started at the pathline start with y_start[:9] = the caller's F and stopped at the pathline end; the value returned is the "
        "solver's own final y[:9] (untouched by the GBS write-back); neither depends on phase, fabric, regime, grain count, texture or "
        "parameters (deep dependence sets); update_all passes its own deformation_gradient to every mineral and returns the last result. "
        "Not decided: the quantitative error bound, det F = exp(int tr L), split-interval equality (solver accuracy).")
    ctx.trusted += ["stub model of scipy.integrate.LSODA", "NumPy semantics of the interpreted subset"]
    ctx.rule("C06.rhs", "rhs[:9] == (L(t, x(t)) @ y[:9].reshape(3,3)).flatten() — operand order, same t, row-major, unscaled")
    ctx.rule("C06.wiring", "LSODA(t0 = pathline start, y0[:9] = caller's F, t_bound = pathline end); result == final solver.y[:9].reshape(3,3)")
    ctx.rule("C06.independent", "the F block of the RHS and the returned F have no (deep) dependence on texture cells, parameters or mineral fields")
    ctx.rule("C06.no-shortcut", "update_orientations has no data-dependent return that skips the integration, except under a condition that is exactly "
                                "`start time == end time` (an interval of positive length whose F is returned unintegrated is not a solution of dF/dt = L.F; "
                                "a closeness test relative to the absolute time skips arbitrarily long intervals late on a pathline)")
    ctx.rule("C06.callback-arrays", "no in-place write reaches an array returned by get_velocity_gradient / get_position (a callable may hand out the same stored "
                                    "array every time; rescaling it in place changes L for every later evaluation, so F no longer solves dF/dt = L.F)")
    ctx.rule("C06.update_all", "update_all hands its own deformation_gradient to every mineral's update and returns the last call's result")
    mloc = ctx.program.loc(ctx.program.module("pydrex.minerals"), ctx.program.require_method("pydrex.minerals.Mineral", "update_orientations")) + " (update_orientations)"
    cases = [("olivine", "olivine_A", "matrix_dislocation"), ("enstatite", "enstatite_AB", "matrix_dislocation"),
             ("olivine", "olivine_C", "frictional_yielding"), ("olivine", "olivine_A", "matrix_diffusion"),
             ("olivine", "olivine_B", "min_viscosity")]
    if ctx.tier == "thorough":
        cases = [(("enstatite" if f.startswith("enstatite") else "olivine"), f, r)
                 for f in ("olivine_A", "olivine_B", "olivine_C", "olivine_D", "olivine_E", "enstatite_AB")
                 for r in ("matrix_dislocation", "frictional_yielding", "matrix_diffusion", "min_viscosity", "max_viscosity")]
    for N in ((2, 3) if ctx.tier == "quick" else (1, 2, 3, 4)):
        for phase, fabric, regime in cases:
            tag = f"{phase}:{fabric}:{regime}:N={N}"
            R = driver.run_update(ctx, phase=phase, fabric=fabric, regime=regime, N=N,
                                  assemblage=("olivine", "enstatite"))
            if R.exc is not None:
                ctx.ob("C06.rhs", tag, False, f"update raises {R.exc!r} on the generic path", mloc)
                continue
            one(ctx, R, tag, mloc)
            if N == 2:
                shortcuts(ctx, R, tag, mloc)
                w = driver.callback_array_writes(R)
                ctx.ob("C06.callback-arrays", tag, not w, f"in-place writes into arrays returned by the user's callables: {w[:4]}", mloc)
    ctx.floor("C06.rhs", 10)
    ctx.floor("C06.no-shortcut", 4)
    update_all(ctx)


def one(ctx, R, tag, loc):
    N = R.N
    t, y, res = R.rhs_calls[0]
    F = y[:9].reshape(3, 3)
    L = R.Lfun.fn(R.I, t, R.xfun.fn(R.I, t))
    ref = (L @ F).flatten()
    got = np.array([alg.unfold_all(lift(c)) for c in res[:9]], dtype=object) if isinstance(res, np.ndarray) else res
    ident_arr(ctx, "C06.rhs", tag, got, ref, loc, what="dF/dt block")
    # the same on every data-dependent early return of the right-hand side met in that evaluation (vanishing strain rate ...): whatever
    # happens to the texture there, the deformation gradient still follows L.F
    seen = set()
    for g, o, gl, fn in (R.rhs_conditions[0][0] if R.rhs_conditions else []):
        if fn.endswith("eval_rhs") and o[0] == "return" and gl not in seen:
            seen.add(gl)
            v = o[1]
            etag = f"{tag}:early return at {gl.split(':')[-1]}"
            if not (isinstance(v, np.ndarray) and v.shape == y.shape):
                ctx.ob("C06.rhs", etag, False, f"the early return hands the solver {type(v).__name__} of shape {getattr(v, 'shape', None)}, the state has {y.shape}", gl)
                continue
            gotv = np.array([alg.unfold_all(lift(c)) for c in v[:9]], dtype=object)
            ident_arr(ctx, "C06.rhs", etag, gotv, ref, gl, what="dF/dt block on the early return")
    s = R.solver
    ok = lift(s.attrs["t0"]) == R.t0 and lift(s.attrs["t_bound"]) == R.t1 and all(lift(a) == lift(b) for a, b in zip(s.attrs["y0"][:9], R.F0.flat))
    ctx.ob("C06.wiring", tag + ":start", ok, f"t0={s.attrs['t0']!r} t_bound={s.attrs['t_bound']!r} y0[:9]={list(s.attrs['y0'][:9])}"[:200], loc)
    Yfin = symarr(f"Y{R.steps}", (10 * N + 9,))
    okr = isinstance(R.result, np.ndarray) and R.result.shape == (3, 3) and all(
        alg.unfold_all(lift(a)) == lift(b) for a, b in zip(R.result.flat, Yfin[:9]))
    ctx.ob("C06.wiring", tag + ":result", okr, f"returned {R.result!r}"[:200], loc)
    # independence
    bad = set()
    for c in list(R.A0_saved.flat) + list(R.f0_saved.flat):
        bad |= alg.atoms_of(c)
    for k, v in R.params.items():
        if isinstance(v, E):
            bad |= alg.atoms_of(v)
        elif isinstance(v, tuple):
            for x in v:
                if isinstance(x, E):
                    bad |= alg.atoms_of(x)
    bad |= alg.atoms_of(R.mineral.attrs["n_grains"].expr)
    tex = {a for c in y[9:] for a in alg.atoms_of(c)}
    dep = set()
    for c in got[:9]:
        dep |= alg.atoms_of(lift(c), deep=True)
    for c in (R.result.flat if isinstance(R.result, np.ndarray) else []):
        dep |= alg.atoms_of(alg.unfold_all(lift(c)), deep=True)
    hit = dep & (bad | tex)
    ctx.ob("C06.independent", tag, not hit, f"F depends on {sorted(map(repr, hit))[:6]}", loc)


def shortcuts(ctx, R, tag, loc):
    """early returns of update_orientations itself (not of its callbacks) that are taken before any solver step"""
    first_step = R.step_marks[0] if R.step_marks else 0
    n = 0
    for (gi, gl, occ) in R.I.exit_ids:
        if gi >= len(R.I.guards):
            continue
        g, outcome, gloc, fn = R.I.guards[gi]
        if not fn.endswith("update_orientations") or outcome[0] != "return":
            continue
        n += 1
        t = g.astuple()
        dt = lift(R.t1) - lift(R.t0)
        exact = (isinstance(t, tuple) and len(t) == 5 and t[1] == "cmp" and t[2] == "Eq" and isinstance(t[3], E) and isinstance(t[4], E)
                 and (lift(t[3]) - lift(t[4]) in (dt, ZERO - dt)))
        ctx.ob("C06.no-shortcut", f"{tag}:return at {gloc}", exact,
               f"update_orientations returns without integrating under {short(g, 120)}" + ("" if exact else
               ": this is not the exact condition start == end, so intervals of positive length are returned with their F unintegrated"), gloc)
    ctx.ob("C06.no-shortcut", f"{tag}:data-dependent returns before the solver", True, f"{n} found, all judged above", loc)


def update_all(ctx):
    dotted = "pydrex.minerals.update_all"
    loc = defloc(ctx, dotted)
    calls = []

    def upd_stub(I_, self, *a, **kw):
        calls.append((self, a, kw))
        return symarr(f"Fret{len(calls)}", (3, 3))
    I = Interp(ctx.program, stubs={"pydrex.minerals.Mineral.update_orientations": Native("update_orientations", upd_stub)})
    f = public(ctx, I, dotted)
    ms = [driver.make_mineral(I, "olivine", "olivine_A", "matrix_dislocation", 2, label="m0"),
          driver.make_mineral(I, "enstatite", "enstatite_AB", "matrix_dislocation", 2, label="m1"),
          driver.make_mineral(I, "olivine", "olivine_B", "matrix_dislocation", 2, label="m2")]
    params = driver.make_params(I, ("olivine", "enstatite"))
    F0 = symarr("F0", (3, 3))
    Lf, xf = Native("L", lambda *a: None), Native("x", lambda *a: None)
    path = (alg.sym("ta"), alg.sym("tb"), xf)
    try:
        out = I.call(f, (ms, params, F0, Lf, path), {"rtol": alg.psym("rtol_user"), "max_step": alg.psym("hmax")})
    except RaiseSig as r:
        ctx.ob("C06.update_all", "call", False, f"raises {r.exc.typename}", loc)
        return

    def arg(c, name, pos):
        self, a, kw = c
        return kw.get(name, a[pos] if len(a) > pos else None)
    ok_n = [c[0] for c in calls] == ms
    ctx.ob("C06.update_all", "one update per mineral, in order", ok_n, f"{len(calls)} calls for {len(ms)} minerals", loc)
    ctx.ob("C06.update_all", "common starting F", all(arg(c, "deformation_gradient", 1) is F0 for c in calls),
           "every mineral must receive the caller's deformation_gradient (F is independent of the phase)", loc)
    ctx.ob("C06.update_all", "same velocity-gradient callable and pathline", all(arg(c, "get_velocity_gradient", 2) is Lf
                                                                              and arg(c, "pathline", 3) is path for c in calls), "", loc)
    kws = [{k: keyof(v) for k, v in c[2].items() if k not in ("params", "deformation_gradient", "get_velocity_gradient", "pathline", "get_regime")} for c in calls]
    ctx.ob("C06.update_all", "every mineral receives the caller's solver options", all(k == kws[0] for k in kws) and set(kws[0]) == {"rtol", "max_step"},
           f"extra keyword arguments per call: {[sorted(k) for k in kws]}", loc)
    last = symarr(f"Fret{len(calls)}", (3, 3))
    ctx.ob("C06.update_all", "returns the last update's F", isinstance(out, np.ndarray) and all(a == b for a, b in zip(out.flat, last.flat)),
           f"returned {out!r}"[:120], loc)
    ctx.observe("update_all([]) raises UnboundLocalError (outside the property's quantifier: at least one mineral)")
    ctx.floor("C06.update_all", 5)
