"""C17 — mineral persistence: save/load/from_file round trip through a perfect key-value store, checks before I/O."""

from __future__ import annotations

import numpy as np

from .. import alg
from ..alg import E, lift, ZERO, ONE
from ..interp import Interp, RaiseSig
from ..values import symarr, Record, ClassVal, Native, Opaque, EnumMember, ExtRef, IntSym, keyof
from .common import public, defloc, short, enum
from . import driver

LEVEL = "other"
IO_KINDS = ("io",)


class Store:
    """Perfect archive model: what save writes under a key is what load reads under that key."""

    def __init__(self):
        self.files = {}     # filename -> {key: array}
        self.names = {}     # filename -> member names as written (np.savez adds ".npy", a plain ZipFile.open(name, "w") does not)
        self.events = []    # ordered I/O events


def make_interp(ctx, store):
    def resolve_path(I_, path, refdir=None):
        store.events.append(("resolve_path", path))
        I_.emit("io", ("resolve_path", path))
        return path

    def savez(I_, filename, *a, **data):
        store.events.append(("savez", filename, tuple(data)))
        I_.emit("io", ("savez", filename))
        store.files[filename] = dict(data)   # np.savez replaces the file
        store.names[filename] = [k + ".npy" for k in data]
        return None

    def zipfile(I_, filename, mode="r", **kw):
        store.events.append(("ZipFile", filename, mode))
        I_.emit("io", ("ZipFile", filename, mode))
        z = Record(None, {"filename": filename, "mode": mode}, label="ZipFile")
        if mode == "w":
            store.files[filename] = {}
            store.names[filename] = []
        store.files.setdefault(filename, {})
        store.names.setdefault(filename, [])

        def zopen(I2, name, m="r", **k2):
            store.events.append(("zip.open", filename, name, m))
            fh = Record(None, {"name": name}, label="ZipMember")

            def write(I3, payload):
                store.events.append(("zip.write", filename, name))
                arr = payload[1] if isinstance(payload, tuple) and payload and payload[0] == "__npy__" else payload
                store.files[filename][name[:-4] if name.endswith(".npy") else name] = arr
                store.names[filename].append(name)
                return None
            fh.native_methods["write"] = Native("write", write)
            fh.native_methods["close"] = Native("close", lambda I3: None)
            return fh
        z.native_methods["open"] = Native("open", zopen)
        z.native_methods["close"] = Native("close", lambda I2: None)
        z.native_methods["namelist"] = Native("namelist", lambda I2: list(store.names[filename]))
        return z

    def bytesio(I_, *a):
        b = Record(None, {"content": None}, label="BytesIO")
        b.native_methods["getvalue"] = Native("getvalue", lambda I2: b.attrs["content"])
        b.native_methods["close"] = Native("close", lambda I2: None)
        return b

    def npsave(I_, buf, arr, **kw):
        if isinstance(buf, Record) and buf.label == "ZipMember":
            # np.save straight into the open archive member
            return I_.call(buf.native_methods["write"], (("__npy__", arr),))
        if isinstance(buf, Record):
            buf.attrs["content"] = ("__npy__", arr)
        else:
            store.events.append(("np.save", buf))
            I_.emit("io", ("np.save", buf))
        return None

    def npload(I_, filename, **kw):
        store.events.append(("np.load", filename))
        I_.emit("io", ("np.load", filename))
        if filename not in store.files:
            from ..interp import RaiseSig as RS
            from ..values import ExcVal
            raise RS(ExcVal("FileNotFoundError"))
        rec = Record(None, dict(store.files[filename]), label="NpzFile")
        rec.native_methods["keys"] = Native("keys", lambda I2: list(store.files[filename]))
        rec.native_methods["close"] = Native("close", lambda I2: None)
        rec.attrs_files = list(store.files[filename])
        return rec
    ext = {"numpy.savez": Native("savez", savez), "zipfile.ZipFile": Native("ZipFile", zipfile), "io.BytesIO": Native("BytesIO", bytesio),
           "numpy.save": Native("save", npsave), "numpy.load": Native("load", npload)}
    I = Interp(ctx.program, externals=ext, stubs={"pydrex.io.resolve_path": Native("resolve_path", resolve_path)})
    return I


def same_cells(a, b):
    return isinstance(a, np.ndarray) and isinstance(b, np.ndarray) and a.shape == b.shape and all(lift(x) == lift(y) for x, y in zip(a.flat, b.flat))


def ordinal(v):
    if isinstance(v, EnumMember):
        return v.value
    if isinstance(v, E) and v.is_int():
        return int(v.cval())
    if isinstance(v, (int, IntSym)):
        return int(v)
    return None


def run(ctx):
    ctx.explanation = (
        "Mineral.save, Mineral.load and Mineral.from_file are interpreted with the file layer replaced by a perfect key-value store "
        "(np.savez / ZipFile(mode).open(name).write / np.load), for whole-file saves and for several postfixes written to one archive in "
        "different orders.  Decided: every key written is the key read (templates incl. postfix), the meta triple is packed and unpacked in "
        "the same order into the same three fields, fractions/orientations come back cell-for-cell through stack/list only (no arithmetic; "
        "dtype/astype use is restricted to the uint8 meta array whose ordinals all fit), n_grains is recovered, load and from_file agree, the "
        "postfix path opens the archive in append mode and writes one member per key, corrupt state and non-NPZ names raise ValueError "
        "before any I/O event.  Not decided: bit-exactness of np.save/np.load themselves; the zip layer with duplicate postfixes.")
    ctx.trusted += ["perfect-store model of numpy.savez / zipfile / numpy.load", "NumPy stack/list semantics"]
    for k, v in RULES.items():
        ctx.rule(k, v)
    mmod = ctx.program.module("pydrex.minerals")
    sloc = ctx.program.loc(mmod, ctx.program.require_method("pydrex.minerals.Mineral", "save")) + " (save)"
    lloc = ctx.program.loc(mmod, ctx.program.require_method("pydrex.minerals.Mineral", "load")) + " (load)"
    floc = ctx.program.loc(mmod, ctx.program.require_method("pydrex.minerals.Mineral", "from_file")) + " (from_file)"
    cases = [("olivine", "olivine_A", "matrix_dislocation"), ("enstatite", "enstatite_AB", "frictional_yielding"), ("olivine", "olivine_E", "max_viscosity")]
    # ---- whole-file round trip and postfix round trips in one archive, loaded in reverse order
    for postfixes in ((None,), ("a",), ("p1", "p2", "p3"), ("7", "x_y"), ("1", "run_1", "2", "2_1"), ("run_1", "1"), ("a_b", "b", "a"),
                      ("-1", "1"), ("12.5", "125", "1.25"), ("run-1/ol", "run1ol"), ("a b", "ab"), ("A", "a"),
                      # postfixes that are falsy but not None (the empty string; integer labels from an enumeration) saved AFTER another mineral
                      ("a", "", "b"), (1, 0, 2), ("x", 0)):
        store = Store()
        I = make_interp(ctx, store)
        fname = "/data/out.npz"
        ms = []
        seen_members = set()

        def verify(pf, m, prefix, I=None, fname=None):
            I = I_cur[0] if I is None else I
            fname = "/data/out.npz" if fname is None else fname
            for how in ("from_file", "load"):
                tag = f"{prefix}:{how}:postfix={pf}"
                try:
                    if how == "from_file":
                        cls = public(ctx, I, "pydrex.minerals.Mineral")
                        got = I.call(I.getattr(cls, "from_file"), (fname,) if pf is None else (fname, pf))
                    else:
                        got = driver.make_mineral(I, "olivine", "olivine_B", "matrix_diffusion", 5, label="tgt", nsnap=1, symbolic_n=False)
                        I.call(I.getattr(got, "load"), (fname,) if pf is None else (fname, pf))
                except RaiseSig as r:
                    ctx.ob("C17.roundtrip", tag, False, f"{how} raises {r.exc.typename} (line {getattr(r.exc.node, 'lineno', '?')})", floc if how == "from_file" else lloc)
                    continue
                bad = []
                for fld in ("phase", "fabric", "regime"):
                    if ordinal(got.attrs.get(fld)) != ordinal(m.attrs[fld]):
                        bad.append(f"{fld}: {got.attrs.get(fld)!r} != {m.attrs[fld]!r}")
                for fld in ("fractions", "orientations"):
                    a, b = got.attrs.get(fld), m.attrs[fld]
                    if not (isinstance(a, list) and len(a) == len(b) and all(same_cells(x, y) for x, y in zip(a, b))):
                        bad.append(f"{fld} differ")
                if how == "from_file" and ordinal(got.attrs.get("n_grains")) != ordinal(m.attrs["n_grains"]):
                    bad.append(f"n_grains {got.attrs.get('n_grains')!r} != {m.attrs['n_grains']!r}")
                ctx.ob("C17.roundtrip", tag, not bad, "; ".join(bad), floc if how == "from_file" else lloc)
        I_cur = [I]
        for i, pf in enumerate(postfixes):
            ph, fb, rg = cases[i % len(cases)]
            m = driver.make_mineral(I, ph, fb, rg, 4 + i, label=f"s{i}", nsnap=(2, 3, 7)[i % 3], symbolic_n=False)
            ms.append(m)
            e0 = len(store.events)
            try:
                I.call(I.getattr(m, "save"), (fname,) if pf is None else (fname, pf))
            except RaiseSig as r:
                ctx.ob("C17.roundtrip", f"save postfix={pf}", False, f"save raises {r.exc.typename}", sloc)
                continue
            ev = store.events[e0:]
            if pf is not None:
                zf = [e for e in ev if e[0] == "ZipFile"]
                ctx.ob("C17.append-mode", f"postfix={pf}", len(zf) == 1 and zf[0][2] == "a", f"archive opened as {zf}", sloc)
                names = sorted(e[2] for e in ev if e[0] == "zip.open")
                # three members, one per key, whose names are not used by any other postfix of this archive (the naming is one-to-one)
                keys_ok = sorted(n.split("_")[0] for n in names) == ["fractions", "meta", "orientations"]
                clash = sorted(set(names) & seen_members)
                seen_members.update(names)
                ctx.ob("C17.members", f"postfix={pf}", keys_ok and not clash and len([e for e in ev if e[0] == 'zip.write']) == 3,
                       f"members written {names}" + (f"; {clash} already hold the mineral saved under another postfix" if clash else ""), sloc)
            else:
                ctx.ob("C17.members", "whole file", any(e[0] == "savez" and sorted(e[2]) == ["fractions", "meta", "orientations"] for e in ev),
                       f"events {ev}", sloc)
            if postfixes in (("p1", "p2", "p3"), ("a", "", "b"), (None,)):
                # interleaved history: everything saved so far is read back before the next mineral is saved into the same archive
                for j in range(i + 1):
                    verify(postfixes[j], ms[j], f"postfixes={postfixes}:after save {i + 1}")
        for i in reversed(range(len(postfixes))):
            verify(postfixes[i], ms[i], f"postfixes={postfixes}")
    ctx.floor("C17.roundtrip", 14)
    # ---- dtype discipline
    I = make_interp(ctx, Store())
    for en in ("MineralPhase", "MineralFabric", "DeformationRegime"):
        cls = I.resolve("pydrex.core." + en)
        vals = [m.value for m in cls.members.values()]
        ctx.ob("C17.uint8", en, all(isinstance(v, int) and 0 <= v <= 255 for v in vals), f"ordinals {vals} must fit uint8", defloc(ctx, "pydrex.core." + en))
    import ast
    from .. import flow
    for meth in ("save", "load", "from_file"):
        fn = ctx.program.require_method("pydrex.minerals.Mineral", meth)
        casts = []
        for n in ast.walk(fn):
            if isinstance(n, ast.Call):
                d = flow.dotted(n.func) or (n.func.attr if isinstance(n.func, ast.Attribute) else "")
                if d.split(".")[-1] in ("astype", "round", "around", "float32", "float16", "asarray", "rint", "trunc"):
                    casts.append((d, n.lineno))
                for kw in n.keywords:
                    if kw.arg == "dtype":
                        tgt = ast.unparse(n.args[0]) if n.args else ""
                        if "fractions" in tgt or "orientations" in tgt:
                            casts.append((f"dtype on {tgt}", n.lineno))
        ctx.ob("C17.lossless", meth, not casts, f"conversions on the persistence path: {casts}", ctx.program.loc(mmod, fn))
    # ---- rejection before I/O
    for kind in ("snapshot-count", "grain-count", "later volume snapshot of another size", "later orientation snapshot of another size"):
        store = Store()
        I = make_interp(ctx, store)
        m = driver.make_mineral(I, "olivine", "olivine_A", "matrix_dislocation", 2, label="c", nsnap=3 if kind.startswith("later") else 2, symbolic_n=False)
        if kind == "snapshot-count":
            m.attrs["fractions"] = m.attrs["fractions"][:1]
        elif kind == "grain-count":
            m.attrs["n_grains"] = 3
        elif kind.startswith("later volume"):
            m.attrs["fractions"][-1] = symarr("c.fx", (3,))
        else:
            m.attrs["orientations"][1] = symarr("c.Ax", (1, 3, 3))
        for pf in (None, "z"):
            store.events.clear()
            try:
                I.call(I.getattr(m, "save"), ("/data/c.npz",) if pf is None else ("/data/c.npz", pf))
                ctx.ob("C17.reject", f"save:{kind}:postfix={pf}", False, "corrupt state was written", sloc)
            except RaiseSig as r:
                ctx.ob("C17.reject", f"save:{kind}:postfix={pf}", r.exc.typename == "ValueError" and not store.events,
                       f"raised {r.exc.typename}; I/O events before the raise: {store.events}", sloc)
    for how in ("load", "from_file"):
        for bad in ("/data/c.txt", "/data/c.npy", "/data/c.npz.bak", "/data/npz", "/data/c.npz.scsv"):
            store = Store()
            I = make_interp(ctx, store)
            try:
                if how == "load":
                    m = driver.make_mineral(I, "olivine", "olivine_A", "matrix_dislocation", 2, label="c", nsnap=1, symbolic_n=False)
                    I.call(I.getattr(m, "load"), (bad,))
                else:
                    I.call(I.getattr(public(ctx, I, "pydrex.minerals.Mineral"), "from_file"), (bad,))
                ctx.ob("C17.reject", f"{how}:{bad.split('/')[-1]}", False, "non-NPZ filename accepted", lloc)
            except RaiseSig as r:
                ctx.ob("C17.reject", f"{how}:{bad.split('/')[-1]}", r.exc.typename == "ValueError" and not store.events, f"raised {r.exc.typename}; events {store.events}", lloc)
    ctx.floor("C17.reject", 16)


RULES = {
    "C17.roundtrip": "save then load/from_file through a perfect store restores phase, fabric, regime, n_grains and every snapshot cell-for-cell (whole file; several postfixes in one archive, loaded in reverse order)",
    "C17.append-mode": "the postfix path opens the archive with mode 'a'",
    "C17.members": "exactly three members (meta/fractions/orientations + postfix) are written, one write each, under names no other postfix of the archive uses",
    "C17.uint8": "all enum ordinals stored in the uint8 meta array are within 0..255",
    "C17.lossless": "no dtype/rounding conversion is applied to fractions/orientations on the save/load path",
    "C17.reject": "corrupt state and non-NPZ filenames raise ValueError before any I/O event",
}
