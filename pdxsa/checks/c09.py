"""C09 — grain-boundary sliding: apply_gbs equals the reference (select form) and is wired correctly."""

from __future__ import annotations

import numpy as np

from .. import alg
from ..alg import E, lift, ZERO, ONE
from ..interp import Interp, RaiseSig
from ..values import symarr, Guard, IntSym
from .common import public, defloc, short, ident_arr, call_public, Abort
from . import driver

LEVEL = "other"


def sel(c, a, b):
    a, b = lift(a), lift(b)
    return a if a == b else alg.Fn("select", c.astuple(), a, b)


def run(ctx):
    ctx.explanation = (
        "ALG: utils.apply_gbs interpreted on N symbolic grains (symbolic threshold chi and grain-count symbol n) equals the reference "
        "A'_g = select(f_g < chi/n, prev_g, A_g), S_g = select(f_g < chi/n, chi/n, f_g), f'_g = S_g / sum_h S_h — strict comparison, the same "
        "threshold expression for mask and floor, reference orientation from the fourth argument.  Driver: perform_step passes the "
        "clipped/normalised solver state, params['gbs_threshold'], the snapshot stored at the start of the update (self.orientations[-1], "
        "which by C01 is unchanged during the update) and n_grains; the result is written back to y[9:] in packing order and the stored "
        "snapshot is extract_vars of that state.  Derived, not separately computed: the kernel identity gives S_g = max(f_g, chi/n); the wiring "
        "rule gives sum_g f_g = 1 and f_g >= 0 for the fractions handed in; hence sum_g S_g <= sum_g f_g + n*chi/n = 1 + chi (max(a,b) <= a+b for "
        "a,b >= 0) and every stored fraction S_g / sum S >= chi/(n(1+chi)); S is a monotone function of f, so the volume ordering is preserved; "
        "with chi = 0 the strict '<' leaves every non-negative volume unfloored.  Not decided: floating-point ties at the threshold.")
    ctx.trusted += ["NumPy boolean-mask load/store pairing (modelled cellwise along axis 0)", "stub model of LSODA"]
    ctx.rule("C09.kernel", "apply_gbs(A, f, chi, prev, n) == reference select form (orientations and renormalised floored fractions)")
    ctx.rule("C09.wiring", "perform_step: arguments of apply_gbs and the write-back of its result into solver.y[9:]")
    dotted = "pydrex.utils.apply_gbs"
    loc = defloc(ctx, dotted)
    for N in ((2, 3) if ctx.tier == "quick" else (1, 2, 3, 4)):
        I = Interp(ctx.program)
        A, P, f = symarr("A", (N, 3, 3)), symarr("P", (N, 3, 3)), symarr("f", (N,))
        chi = alg.psym("chi")
        n = IntSym(N, alg.psym("n"))
        try:
            out = call_public(ctx, I, dotted, A.copy(), f.copy(), chi, P.copy(), n)
        except Abort:
            continue
        thr = chi / n.expr
        conds = [Guard("cmp", "Lt", f[g], thr) for g in range(N)]
        S = [sel(conds[g], thr, f[g]) for g in range(N)]
        tot = sum(S, ZERO)
        refA = np.empty((N, 3, 3), dtype=object)
        for g in range(N):
            for i in range(3):
                for j in range(3):
                    refA[g, i, j] = sel(conds[g], P[g, i, j], A[g, i, j])
        reff = np.array([S[g] / tot for g in range(N)], dtype=object)
        if not (isinstance(out, tuple) and len(out) == 2):
            ctx.ob("C09.kernel", f"N={N}", False, f"returned {out!r}"[:100], loc)
            continue
        ident_arr(ctx, "C09.kernel", f"N={N}:orientations", out[0], refA, loc, what="frozen/unfrozen orientation")
        ident_arr(ctx, "C09.kernel", f"N={N}:fractions", out[1], reff, loc, what="floored and renormalised volume")
        ctx.sample({"N": N, "f'[0]": short(out[1][0], 240)})
    ctx.floor("C09.kernel", 4)
    wiring(ctx)


def wiring(ctx):
    mloc = ctx.program.loc(ctx.program.module("pydrex.minerals"), ctx.program.require_method("pydrex.minerals.Mineral", "update_orientations")) + " (update_orientations)"
    N = 2
    R = driver.run_update(ctx, N=N, nsteps=2)
    if R.exc is not None:
        ctx.ob("C09.wiring", "update", False, f"raises {R.exc!r}", mloc)
        return
    ctx.ob("C09.wiring", "apply_gbs called once per solver step", len(R.gbs_calls) == R.steps, f"{len(R.gbs_calls)} calls for {R.steps} steps", mloc)
    # the sliding step is unconditional: no data-dependent early exit of the step function, and it also runs at the boundary parameter values
    exits = [(g, o, gloc, fn) for g, o, gloc, fn in R.I.guards if fn.split(".")[-1] == "perform_step"]
    ctx.ob("C09.wiring", "no data-dependent early exit in the solver-step function", not exits,
           "; ".join(f"{gloc}: leaves the step ({o[0]}) when {g!r}"[:160] for g, o, gloc, fn in exits[:2]) +
           " — grains below the threshold would then be neither floored nor frozen", exits[0][2] if exits else mloc)
    for name, kw in (("M* = 0", {"gbm_mobility": ZERO}), ("chi = 0", {"gbs_threshold": ZERO}), ("lambda* = 0", {"nucleation_efficiency": ZERO}),
                     ("chi = 0.9", {"gbs_threshold": lift(9) / 10})):
        Rv = driver.run_update(ctx, N=N, nsteps=2, param_overrides=kw)
        ctx.ob("C09.wiring", f"apply_gbs called once per solver step ({name})", Rv.exc is None and len(Rv.gbs_calls) == Rv.steps and
               all(lift((dict(zip(["orientations", "fractions", "gbs_threshold"], a)) | k_).get("gbs_threshold")) == Rv.params["gbs_threshold"] for a, k_, _ in Rv.gbs_calls),
               f"{len(Rv.gbs_calls)} calls for {Rv.steps} steps" if Rv.exc is None else f"raises {Rv.exc!r}", mloc)
    for k, (args, kw, live) in enumerate(R.gbs_calls, 1):
        names = ["orientations", "fractions", "gbs_threshold", "orientations_prev", "n_grains"]
        a = dict(zip(names, args))
        a.update(kw)
        live_a = dict(zip(names, live))
        Y = symarr(f"Y{k}", (10 * N + 9,))
        # orientations: clip(Y[9+i], -1, 1); fractions: clip(Y[..],0)/sum
        okA = isinstance(a.get("orientations"), np.ndarray) and a["orientations"].shape == (N, 3, 3) and all(
            alg.unfold_all(lift(c)) == alg.Fn("clip", Y[9 + i], lift(-1), lift(1)) for i, c in enumerate(a["orientations"].flat))
        ctx.ob("C09.wiring", f"step {k}: orientations argument is the clipped solver state", okA, short(a.get("orientations"), 120), mloc)
        cl = [alg.Fn("clip", Y[9 + 9 * N + g], lift(0), "none") for g in range(N)]
        tot = sum(cl, ZERO)
        okf = isinstance(a.get("fractions"), np.ndarray) and a["fractions"].shape == (N,) and all(
            alg.decide(alg.unfold_all(lift(c)), cl[g] / tot)[0] == "equal" for g, c in enumerate(a["fractions"]))
        ctx.ob("C09.wiring", f"step {k}: fractions argument is the clipped, normalised solver state", okf, short(a.get("fractions"), 120), mloc)
        ctx.ob("C09.wiring", f"step {k}: threshold is params['gbs_threshold']", lift(a.get("gbs_threshold")) == R.params["gbs_threshold"], short(a.get("gbs_threshold")), mloc)
        ctx.ob("C09.wiring", f"step {k}: reference orientations are the snapshot at the start of the update",
               live_a.get("orientations_prev") is R.A0, "orientations_prev must be self.orientations[-1] (unchanged during the update by C01)", mloc)
        ng = a.get("n_grains")
        ctx.ob("C09.wiring", f"step {k}: grain count", isinstance(ng, IntSym) and ng.value == N and ng.expr == R.mineral.attrs["n_grains"].expr, repr(ng), mloc)
    # the same reference in every accepted regime, whether the regime comes from the mineral's field or from the callback (and whatever the
    # field holds while a callback is in charge)
    from ..values import Native
    from .common import enum
    scenarios = [(f"regime field {rg}", {"regime": rg}) for rg in ("frictional_yielding", "matrix_diffusion", "min_viscosity", "max_viscosity")]
    for field, cb in (("min_viscosity", "matrix_dislocation"), ("max_viscosity", "frictional_yielding"), ("matrix_dislocation", "min_viscosity"), ("matrix_diffusion", "matrix_dislocation")):
        scenarios.append((f"regime field {field}, callback reports {cb}",
                          {"regime": field, "get_regime": Native("get_regime", lambda I_, t, x, cb=cb: enum(I_, "pydrex.core.DeformationRegime", cb))}))
    for label, kw in scenarios:
        Rs = driver.run_update(ctx, N=N, nsteps=2, **kw)
        if Rs.exc is not None:
            ctx.ob("C09.wiring", f"{label}: update", False, f"raises {Rs.exc!r}", mloc)
            continue
        okn = len(Rs.gbs_calls) == Rs.steps
        okr = all(len(live) > 3 and live[3] is Rs.A0 for _a, _k, live in Rs.gbs_calls) if Rs.gbs_calls else False
        if Rs.gbs_calls and not okr:
            # keyword call
            okr = all((dict(zip(["orientations", "fractions", "gbs_threshold", "orientations_prev", "n_grains"], live)) | k_).get("orientations_prev") is Rs.A0
                      for _a, k_, live in Rs.gbs_calls)
        ctx.ob("C09.wiring", f"{label}: one sliding step per solver step, reference = snapshot at the start of the update", okn and okr,
               f"{len(Rs.gbs_calls)} calls for {Rs.steps} steps; reference is the start-of-update snapshot: {okr}", mloc)
    # write-back: final solver.y[9:] == hstack(gbs orientations, gbs fractions) of the last step
    yfin = R.solver.attrs["y"]
    k = R.steps
    I2 = Interp(ctx.program)
    A_in = np.array([alg.Fn("clip", symarr(f"Y{k}", (10 * N + 9,))[9 + i], lift(-1), lift(1)) for i in range(9 * N)], dtype=object).reshape(N, 3, 3)
    cl = [alg.Fn("clip", symarr(f"Y{k}", (10 * N + 9,))[9 + 9 * N + g], lift(0), "none") for g in range(N)]
    f_in = np.array([c / sum(cl, ZERO) for c in cl], dtype=object)
    gbs = public(ctx, I2, "pydrex.utils.apply_gbs")
    exp = I2.call(gbs, (A_in, f_in, R.params["gbs_threshold"], R.A0_saved.copy(), R.mineral.attrs["n_grains"]))
    expv = list(exp[0].flat) + list(exp[1].flat)
    okw = len(yfin) == 10 * N + 9 and all(alg.decide(alg.unfold_all(lift(a)), alg.unfold_all(lift(b)))[0] == "equal" for a, b in zip(yfin[9:], expv))
    ctx.ob("C09.wiring", "write-back: y[9:] = [orientations | fractions] returned by apply_gbs", okw, "", mloc)
    # stored snapshot = extract_vars of the written-back state
    snapA = R.mineral.attrs["orientations"][-1]
    oks = all(alg.decide(alg.unfold_all(lift(a)), alg.Fn("clip", alg.unfold_all(lift(b)), lift(-1), lift(1)))[0] == "equal"
              for a, b in zip(snapA.flat, expv[: 9 * N]))
    ctx.ob("C09.wiring", "stored orientations are read back from the written-back solver state", oks, "", mloc)
    ctx.floor("C09.wiring", 8)
