"""Abstract interpretation of Mineral.update_orientations / update_all with stub models
(solver stub, symbolic callables, abstract Mineral record) — DESIGN.md 2.2.6."""

from __future__ import annotations

import numpy as np

from .. import alg
from ..alg import E, lift, ZERO, ONE
from ..interp import Interp, RaiseSig
from ..values import (symarr, mkarr, Native, Record, Opaque, IntSym, FuncVal, ClassVal, EnumMember, keyof, cells)
from .common import public, enum
from ..program import AnchorMissing
from ..report import AnalysisError

PARAM_SYMS = ("stress_exponent", "deformation_exponent", "gbm_mobility", "gbs_threshold", "nucleation_efficiency")


class Run:
    pass


def make_mineral(I, phase, fabric, regime, N, label="m", nsnap=1, symbolic_n=True):
    cls = I.resolve("pydrex.minerals.Mineral")
    if not isinstance(cls, ClassVal):
        raise AnchorMissing("pydrex.minerals.Mineral is not a class")
    rec = Record(cls, {})
    rec.attrs["phase"] = enum(I, "pydrex.core.MineralPhase", phase)
    rec.attrs["fabric"] = enum(I, "pydrex.core.MineralFabric", fabric)
    rec.attrs["regime"] = enum(I, "pydrex.core.DeformationRegime", regime)
    rec.attrs["n_grains"] = IntSym(N, alg.psym("ngrains")) if symbolic_n else N
    rec.attrs["orientations"] = [symarr(f"{label}.A{k}", (N, 3, 3)) for k in range(nsnap)]
    rec.attrs["fractions"] = [symarr(f"{label}.f{k}", (N,), positive=True) for k in range(nsnap)]
    rec.attrs["seed"] = None
    rec.attrs["lband"] = None
    rec.attrs["uband"] = None
    return rec


def make_params(I, assemblage=("olivine",), fractions=None):
    dp = I.resolve("pydrex.core.DefaultParams")
    names = [f[0] for f in I.dataclass_fields(dp)]
    params = {}
    for n in names:
        params[n] = alg.psym("P." + n)
    params["phase_assemblage"] = tuple(enum(I, "pydrex.core.MineralPhase", p) for p in assemblage)
    params["phase_fractions"] = tuple(fractions) if fractions is not None else tuple(alg.psym(f"phi{i}") for i in range(len(assemblage)))
    params["initial_olivine_fabric"] = enum(I, "pydrex.core.MineralFabric", "olivine_A")
    return params


def run_update(ctx, phase="olivine", fabric="olivine_A", regime="matrix_dislocation", N=2, nsteps=2, fail_at=None,
               assemblage=("olivine",), stub_derivatives=True, get_regime=None, kwargs=None, phase_fractions=None, nsnap=2, param_overrides=None,
               mineral_patch=None):
    """Interpret one Mineral.update_orientations call. Returns a Run with everything recorded."""
    R = Run()
    R.N = N
    R.rhs_calls = []       # (t, y array, result)
    R.rhs_conditions = []  # per rhs call: (early-exit guards, joined branch conditions) met during that evaluation
    R.deriv_calls = []     # kwargs of core.derivatives calls
    R.gbs_calls = []       # args of utils.apply_gbs calls
    R.solver = None
    R.steps = 0
    R.step_marks = []      # trace index at each solver.step()
    R.exc = None

    def derivatives_stub(I_, *a, **kw):
        R.deriv_calls.append((a, kw))
        k = len(R.deriv_calls)
        n = int(kw.get("n_grains", N))
        return (symarr(f"dA{k}", (n, 3, 3)), symarr(f"df{k}", (n,)))

    def lsoda(I_, fun, t0, y0, t_bound, **kw):
        s = Record(None, {}, label="LSODA")
        s.attrs.update(fun=fun, t0=t0, y0=y0, t_bound=t_bound, kwargs=kw, status="running",
                       y=np.array(list(y0.flat), dtype=object), step_size=alg.psym("h"))
        R.solver = s

        def step(I2):
            R.steps += 1
            k = R.steps
            R.step_marks.append(len(I2.trace))
            I2.emit("solver-step", (k,))
            tk = alg.sym(f"t{k}")
            yk = symarr(f"Yq{k}", s.attrs["y"].shape)
            g0, b0 = len(I2.guards), len(I2.branches)
            res = I2.call(fun, (tk, yk))
            if not (isinstance(res, np.ndarray) and res.size == yk.size):
                # SciPy refuses a right-hand side that does not return one rate per state variable
                from ..values import ExcVal
                raise RaiseSig(ExcVal("RuntimeError", args=("The size of the array returned by func does not match the size of y0",)))
            R.rhs_calls.append((tk, yk, res))
            R.rhs_conditions.append((list(I2.guards[g0:]), list(I2.branches[b0:])))
            if fail_at is not None and k == fail_at:
                s.attrs["status"] = "failed"
                return "solver failure message"
            s.attrs["y"] = symarr(f"Y{k}", s.attrs["y"].shape)
            s.attrs["status"] = "finished" if k >= nsteps else "running"
            return None
        s.native_methods["step"] = Native("LSODA.step", step)
        return s

    stubs = {}
    if stub_derivatives:
        stubs["pydrex.core.derivatives"] = Native("derivatives", derivatives_stub)
    def chooser(keys):
        zeros = [i for i, k in enumerate(keys) if lift(k).is_zero()]
        return tuple(zeros + [i for i in range(len(keys)) if i not in zeros])
    I = Interp(ctx.program, externals={"scipy.integrate.LSODA": Native("LSODA", lsoda)}, stubs=stubs, perm_chooser=chooser)
    real_gbs = public(ctx, I, "pydrex.utils.apply_gbs")

    def gbs_wrapper(I_, *a, **kw):
        R.gbs_calls.append((tuple(x.copy() if isinstance(x, np.ndarray) else x for x in a), dict(kw), a))
        return I_.call_function(real_gbs, a, kw)
    I.stubs["pydrex.utils.apply_gbs"] = Native("apply_gbs", gbs_wrapper)

    R.I = I
    m = make_mineral(I, phase, fabric, regime, N, nsnap=nsnap)
    if mineral_patch is not None:
        mineral_patch(m)
    R.mineral = m
    R.nsnap = nsnap
    R.A0 = m.attrs["orientations"][-1]
    R.f0 = m.attrs["fractions"][-1]
    R.older = [(a, a.copy()) for a in m.attrs["orientations"][:-1]] + [(a, a.copy()) for a in m.attrs["fractions"][:-1]]
    R.A0_saved = R.A0.copy()
    R.f0_saved = R.f0.copy()
    R.hist_ids = {id(m.attrs["orientations"]): "orientations", id(m.attrs["fractions"]): "fractions"}
    R.params = make_params(I, assemblage, phase_fractions)
    for k_, v_ in (param_overrides or {}).items():
        R.params[k_] = v_
    R.F0 = symarr("F0", (3, 3))
    R.t0, R.t1 = alg.sym("tstart"), alg.sym("tend")

    R.callback_arrays = []      # every array handed to the update by a user callable (kept alive: their identities must stay unique)

    def Lfun(I_, t, x):
        a_ = mkarr([[alg.Fn("L", lift(t), tuple(lift(c) for c in x.flat), i, j) for j in range(3)] for i in range(3)])
        R.callback_arrays.append(("get_velocity_gradient", a_, a_.copy(), len(I_.trace)))
        return a_

    def xfun(I_, t):
        a_ = mkarr([alg.Fn("x", lift(t), k) for k in range(3)])
        R.callback_arrays.append(("get_position", a_, a_.copy(), len(I_.trace)))
        return a_
    R.Lfun, R.xfun = Native("get_velocity_gradient", Lfun), Native("get_position", xfun)
    upd = I.getattr(m, "update_orientations")
    kw = dict(kwargs or {})
    if get_regime is not None:
        kw["get_regime"] = get_regime
    try:
        R.result = I.call(upd, (R.params, R.F0, R.Lfun, (R.t0, R.t1, R.xfun)), kw)
    except RaiseSig as r:
        R.exc = r.exc
        R.result = None
    return R


def callback_array_writes(R):
    """In-place writes into arrays that a user callable returned (the callable may return the same stored array on every call, so such a
    write changes the user's velocity-gradient history): list of (callable, kind of event, location)."""
    ids = {id(a): (name, born) for name, a, _, born in R.callback_arrays}
    out = []
    for k, e in enumerate(R.I.trace):
        if e.kind in ("store", "inplace"):
            # (an identity seen in an event that precedes the creation of the array belonged to a temporary that has died since)
            hit = [d for d in e.data if isinstance(d, int) and d in ids and k >= ids[d][1]]
            if hit:
                out.append((ids[hit[0]][0], e.kind, e.loc))
    for name, a, saved, _born in R.callback_arrays:
        if any(keyof(x) != keyof(y) for x, y in zip(a.flat, saved.flat)):
            out.append((name, "contents changed", ""))
    return out


def history_mutations(R, start=0):
    """Trace events that mutate the mineral's history lists (or rebind them) from trace index start."""
    out = []
    for i, e in enumerate(R.I.trace[start:], start):
        if e.kind.startswith("list-") and e.data and e.data[0] in R.hist_ids:
            out.append((i, e.kind, R.hist_ids[e.data[0]], e))
        elif e.kind == "setattr" and e.data[0] is R.mineral and e.data[1] in ("orientations", "fractions"):
            out.append((i, "rebind", e.data[1], e))
        elif e.kind == "delattr" and e.data[0] is R.mineral and e.data[1] in ("orientations", "fractions"):
            out.append((i, "delete", e.data[1], e))
    return out


def degree(e, base, memo=None):
    """Homogeneity degree of a normal form w.r.t. atoms with assigned degrees (dict Atom -> Fraction);
    returns None if inhomogeneous/unknown.  Library facts: eigvalsh/max/norm/abs are positively homogeneous of
    degree 1 in their argument; svd.S degree 1, svd.U/Vh degree 0."""
    from fractions import Fraction as Fr
    memo = {} if memo is None else memo

    def datom(a):
        if a in memo:
            return memo[a]
        k = a.kind
        if a in base:
            r = Fr(base[a])
        elif k in ("sym", "psym", "pc", "euler"):
            r = Fr(0)
        elif k == "let":
            r = degree(a.defn, base, memo)
        elif k == "poly":
            r = degree(a.args[0], base, memo)
        elif k == "root" or k == "fn:sqrt":
            d = degree(a.args[0], base, memo)
            r = None if d is None else d / 2
        elif k == "abs":
            inner = a.args[0]
            r = datom(inner) if isinstance(inner, alg.Atom) else degree(inner, base, memo)
        elif k in ("fn:eigvalsh", "fn:max", "fn:min", "fn:svd.S"):
            ds = {degree(c, base, memo) for c in a.args[0] if not lift(c).is_zero()}
            r = ds.pop() if len(ds) == 1 else (Fr(0) if not ds else None)
        elif k in ("fn:svd.U", "fn:svd.Vh", "fn:eigh.vec"):
            ds = {degree(c, base, memo) for c in a.args[0] if not lift(c).is_zero()}
            r = Fr(0) if len(ds) <= 1 and None not in ds else None
        elif k == "fn:clip":
            d = degree(a.args[0], base, memo)
            r = d if d == 0 else None
        elif k == "fn:select":
            d1, d2 = degree(a.args[1], base, memo), degree(a.args[2], base, memo)
            r = d1 if d1 == d2 else (d1 if lift(a.args[2]).is_zero() else (d2 if lift(a.args[1]).is_zero() else None))
        else:
            # uninterpreted: degree 0 iff all arguments have degree 0
            acc = set()
            for g in a.args:
                alg._arg_atoms(g, acc)
            r = Fr(0) if all(datom(b) == 0 for b in acc) else None
        memo[a] = r
        return r

    e = lift(e)
    if not e.t:
        return Fr(0)
    degs = set()
    for m in e.t:
        d = Fr(0)
        for a, x in m:
            da = datom(a)
            if da is None:
                return None
            if isinstance(x, int):
                d += da * x
            else:
                if da != 0:
                    return None
        degs.add(d)
    return degs.pop() if len(degs) == 1 else None


STARTS = []   # (t0, t_bound, y0) of every solver created by the last run_update_all


def run_update_all(ctx, mineral_specs, assemblage, fractions, N=2):
    """Interpret pydrex.minerals.update_all with real update_orientations bodies, a stub solver per call and the rate
    kernel replaced by a recorder.  Returns (list of (phase name, volume_fraction recorded), result, exception)."""
    rec = []
    state = {"n": 0}
    del STARTS[:]

    def derivatives_stub(I_, *a, **kw):
        rec.append((kw.get("phase"), kw.get("volume_fraction"), kw))
        n = int(kw.get("n_grains", N))
        k = len(rec)
        return (symarr(f"dA{k}", (n, 3, 3)), symarr(f"df{k}", (n,)))

    def lsoda(I_, fun, t0, y0, t_bound, **kw):
        s = Record(None, {}, label="LSODA")
        state["n"] += 1
        sid = state["n"]
        s.attrs.update(fun=fun, t0=t0, y0=y0, t_bound=t_bound, kwargs=kw, status="running", y=np.array(list(y0.flat), dtype=object))
        STARTS.append((t0, t_bound, np.array(list(y0.flat), dtype=object)))
        steps = {"k": 0}

        def step(I2):
            steps["k"] += 1
            tk = alg.sym(f"t{sid}_{steps['k']}")
            I2.call(fun, (tk, symarr(f"Yq{sid}_{steps['k']}", s.attrs["y"].shape)))
            s.attrs["y"] = symarr(f"Y{sid}_{steps['k']}", s.attrs["y"].shape)
            s.attrs["status"] = "finished"
            return None
        s.native_methods["step"] = Native("LSODA.step", step)
        return s

    def chooser(keys):
        zeros = [i for i, k in enumerate(keys) if lift(k).is_zero()]
        return tuple(zeros + [i for i in range(len(keys)) if i not in zeros])
    I = Interp(ctx.program, externals={"scipy.integrate.LSODA": Native("LSODA", lsoda)},
               stubs={"pydrex.core.derivatives": Native("derivatives", derivatives_stub)}, perm_chooser=chooser)
    ms = [make_mineral(I, ph, fb, rg, N, label=f"u{i}") for i, (ph, fb, rg) in enumerate(mineral_specs)]
    params = make_params(I, assemblage, fractions)
    F0 = symarr("F0", (3, 3))
    Lf = Native("get_velocity_gradient", lambda I_, t, x: mkarr([[alg.Fn("L", lift(t), tuple(lift(c) for c in x.flat), i, j) for j in range(3)] for i in range(3)]))
    xf = Native("get_position", lambda I_, t: mkarr([alg.Fn("x", lift(t), k) for k in range(3)]))
    f = public(ctx, I, "pydrex.minerals.update_all")
    try:
        out = I.call(f, (ms, params, F0, Lf, (alg.sym("ta"), alg.sym("tb"), xf)))
        return rec, out, None
    except RaiseSig as r:
        return rec, None, r.exc
