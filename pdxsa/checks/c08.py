"""C08 — multiphase: own-phase volume factor, permutation invariance, no hidden shared state, determinism."""

from __future__ import annotations

import ast
import itertools

import numpy as np

from .. import alg
from ..alg import E, lift, ZERO, ONE
from ..interp import Interp, RaiseSig
from ..values import symarr, keyof
from .common import public, defloc, short
from . import driver, drex
from .. import flow

LEVEL = "other"


def run(ctx):
    ctx.explanation = (
        "Driver interpretation for the assemblages (ol), (en), (ol,en), (en,ol) with symbolic phase fractions and the mineral's phase ranging "
        "over the assemblage: the volume_fraction argument recorded at the core.derivatives call is the fraction at the position of the "
        "mineral's OWN phase and no other phase-fraction symbol reaches any argument; the recorded argument tuples for ((ol,en),(p,q)) and "
        "((en,ol),(q,p)) coincide (permutation invariance); by C03 the factor enters only as phi*M*.  FLOW: no function executed on the update "
        "path writes module globals, class attributes or mutable defaults (effect scan of every interpreted function), and no RNG / clock / "
        "environment source is reached (determinism).  update_all's argument passing is C06.  Not decided: bit-identity of two runs "
        "(determinism of LSODA and Numba is library behaviour).")
    ctx.trusted += ["stub model of LSODA", "AST effect scan covers the functions the abstract run actually executed (all arms of eval_rhs for the configurations listed)"]
    ctx.rule("C08.own-phase", "volume_fraction handed to derivatives == phase_fractions[position of the mineral's own phase]")
    ctx.rule("C08.no-foreign", "no other phase-fraction symbol occurs (deeply) in any argument of the derivatives call or in the returned rate vector except through that argument")
    ctx.rule("C08.permute", "simultaneously permuting assemblage and fractions leaves every derivatives argument unchanged")
    ctx.rule("C08.no-shared-state", "no interpreted function on the update path writes module-level / class-level state; closure state of one update is not shared")
    ctx.rule("C08.deterministic", "no RNG, clock or environment read is reachable on the update path")
    mloc = ctx.program.loc(ctx.program.module("pydrex.minerals"), ctx.program.require_method("pydrex.minerals.Mineral", "update_orientations")) + " (update_orientations)"
    p, q = alg.psym("phiA"), alg.psym("phiB")
    fab = {"olivine": "olivine_A", "enstatite": "enstatite_AB"}
    recs = {}
    from ..alg import ZERO as _Z, ONE as _O
    # (the last two: a phase that is listed but occupies no volume evolves like a single-phase mineral with zero mobility - it still rotates)
    for assemblage, fr in ((("olivine",), (p,)), (("enstatite",), (p,)), (("olivine", "enstatite"), (p, q)), (("enstatite", "olivine"), (q, p)),
                           (("olivine", "enstatite"), (_O, _Z)), (("olivine", "enstatite"), (_Z, _O))):
        for phase in assemblage:
            tag = f"assemblage={assemblage}:mineral={phase}" + (f":fractions={tuple(str(x) for x in fr)}" if any(x.is_const() for x in fr) else "")
            R = driver.run_update(ctx, phase=phase, fabric=fab[phase], N=2, assemblage=assemblage, phase_fractions=fr)
            if R.exc is not None or not R.deriv_calls:
                ctx.ob("C08.own-phase", tag, False, f"update raised {R.exc!r} / no derivatives call", mloc)
                continue
            own = fr[assemblage.index(phase)]
            others = [x for i, x in enumerate(fr) if i != assemblage.index(phase)]
            for k, (a, kw) in enumerate(R.deriv_calls):
                vf = kw.get("volume_fraction")
                ctx.ob("C08.own-phase", f"{tag}:call{k}", isinstance(vf, E) and vf == own, f"volume_fraction = {short(vf)}, own phase fraction = {short(own)}", mloc)
                dep = set()
                for name, v in kw.items():
                    for c in (v.flat if isinstance(v, np.ndarray) else [v]):
                        if isinstance(c, E):
                            dep |= alg.atoms_of(alg.unfold_all(c), deep=True)
                foreign = set()
                for o in others:
                    foreign |= alg.atoms_of(o)
                ctx.ob("C08.no-foreign", f"{tag}:call{k}", not (dep & foreign), f"foreign fraction symbols reaching derivatives: {sorted(map(repr, dep & foreign))}", mloc)
                own_at = alg.atoms_of(own)
                leak = []
                for name, v in kw.items():
                    if name == "volume_fraction":
                        continue
                    for c_ in (v.flat if isinstance(v, np.ndarray) else [v]):
                        if isinstance(c_, E) and (alg.atoms_of(alg.unfold_all(c_), deep=True) & own_at):
                            leak.append(name)
                            break
                ctx.ob("C08.no-foreign", f"{tag}:call{k}:own fraction enters only as the volume factor", not leak,
                       f"the phase fraction also reaches the argument(s) {leak}", mloc)
            if not any(x.is_const() for x in fr):          # (the boundary cases above are not part of the permutation comparison)
                recs[(assemblage, phase)] = R.deriv_calls[0][1]
    for phase in ("olivine", "enstatite"):
        a, b = recs.get((("olivine", "enstatite"), phase)), recs.get((("enstatite", "olivine"), phase))
        if a is None or b is None:
            continue
        diff = [k for k in a if keyof(_u(a[k])) != keyof(_u(b.get(k)))]
        ctx.ob("C08.permute", f"mineral={phase}", not diff, f"arguments that change under the permutation: {diff}", mloc)
    # the same through the published parameter record: a record declared with the phases in any order hands each phase its own fraction
    from ..interp import Interp, RaiseSig
    from .common import public, enum
    I = Interp(ctx.program)
    try:
        cv = public(ctx, I, "pydrex.core.DefaultParams")
    except Exception:
        cv = None
    if cv is not None:
        rloc = ctx.program.loc(ctx.program.module("pydrex.core"), cv.node) if hasattr(cv, "node") else mloc
        members = {n: enum(I, "pydrex.core.MineralPhase", n) for n in ("olivine", "enstatite")}
        for assemblage, fr in ((("olivine", "enstatite"), (p, q)), (("enstatite", "olivine"), (q, p))):
            tag = f"parameter record declared with assemblage={assemblage}"
            try:
                rec = I.call(cv, (), {"phase_assemblage": tuple(members[a] for a in assemblage), "phase_fractions": tuple(fr)})
                d = I.call(I.getattr(rec, "as_dict", None), ())
                pa, pf = list(d["phase_assemblage"]), list(d["phase_fractions"])
                bad = []
                for a, f_ in zip(assemblage, fr):
                    pos = [i for i, m in enumerate(pa) if m == members[a]]
                    got = pf[pos[0]] if len(pos) == 1 and pos[0] < len(pf) else None
                    if not (isinstance(got, E) and got == f_):
                        bad.append(f"{a}: declared {short(f_)}, the record pairs it with {short(got) if got is not None else 'nothing'}")
                ctx.ob("C08.own-phase", tag, not bad, "; ".join(bad), rloc)
            except RaiseSig as r:
                ctx.ob("C08.own-phase", tag, False, f"raises {r.exc.typename}", rloc)
            except Exception as ex:
                if type(ex).__name__ not in ("Unsupported", "AlgError", "KeyError"):
                    raise
                ctx.ob("C08.own-phase", tag, "inconclusive", f"outside the interpreted subset: {str(ex)[:100]}", rloc)
    ctx.floor("C08.own-phase", 6)
    ctx.floor("C08.permute", 2)
    bulk(ctx, p, q)
    shared_state(ctx, mloc)
    distinct_histories(ctx, mloc)


def bulk(ctx, p, q):
    """Through update_all: every mineral gets its own phase fraction whatever the order of the mineral list."""
    ctx.rule("C08.bulk", "update_all: the volume factor recorded for each mineral is the fraction of its own phase, for mineral lists in assemblage order, reversed, and single-mineral subsets")
    loc = defloc(ctx, "pydrex.minerals.update_all")
    spec = {"olivine": ("olivine", "olivine_A", "matrix_dislocation"), "enstatite": ("enstatite", "enstatite_AB", "matrix_dislocation")}
    frac = {"olivine": p, "enstatite": q}
    for assemblage in (("olivine", "enstatite"), ("enstatite", "olivine")):
        frs = tuple(frac[a] for a in assemblage)
        for order in (("olivine", "enstatite"), ("enstatite", "olivine"), ("enstatite",), ("olivine",)):
            rec, out, exc = driver.run_update_all(ctx, [spec[o] for o in order], assemblage, frs)
            tag = f"assemblage={assemblage}:minerals={order}"
            if exc is not None:
                ctx.ob("C08.bulk", tag, False, f"update_all raises {exc!r}", loc)
                continue
            got = [(getattr(ph, "name", ph), vf) for ph, vf, kw in rec]
            ok = len(got) >= len(order) and all(isinstance(vf, E) and vf == frac[name] for name, vf in got) and {n for n, _ in got} == set(order)
            ctx.ob("C08.bulk", tag, ok, "volume factors used: " + ", ".join(f"{n}: {short(v)}" for n, v in got), loc)
            # every mineral is integrated over the caller's interval from the caller's deformation gradient: nothing is handed from one
            # mineral of the list to the next, so the outcome cannot depend on their order
            starts = list(driver.STARTS)
            F0 = symarr("F0", (3, 3))
            same = len(starts) == len(order) and all(lift(t0) == alg.sym("ta") and lift(t1) == alg.sym("tb") and
                                                     all(lift(a) == lift(b) for a, b in zip(y0[:9], F0.flat)) for t0, t1, y0 in starts)
            ctx.ob("C08.bulk", tag + ":independent starts", same,
                   f"{len(starts)} integration(s) for {len(order)} mineral(s); starting F of each: {[short(y0[0]) for _, _, y0 in starts]}", loc)
    ctx.floor("C08.bulk", 8)


def distinct_histories(ctx, mloc):
    """Two default-constructed minerals must not share their history lists (no shared mutable default)."""
    ctx.rule("C08.no-shared-state", "no interpreted function on the update path writes module-level / class-level state; closure state of one update is not shared; "
                                    "two Mineral objects never share their history lists")
    I = Interp(ctx.program)
    cls = public(ctx, I, "pydrex.minerals.Mineral")
    try:
        m1 = I.call(cls, (), {"n_grains": 2, "seed": 1})
        m2 = I.call(cls, (), {"n_grains": 2, "seed": 1})
    except RaiseSig as r:
        ctx.ob("C08.no-shared-state", "Mineral(): distinct history lists", False, f"construction raises {r.exc.typename}", mloc)
        return
    ok = all(isinstance(m.attrs.get(a), list) for m in (m1, m2) for a in ("fractions", "orientations")) and \
        m1.attrs["fractions"] is not m2.attrs["fractions"] and m1.attrs["orientations"] is not m2.attrs["orientations"] and \
        len(m1.attrs["fractions"]) == 1 and len(m2.attrs["fractions"]) == 1
    ctx.ob("C08.no-shared-state", "Mineral(): distinct history lists", ok,
           f"history lengths after two constructions: {len(m1.attrs.get('fractions', []))}, {len(m2.attrs.get('fractions', []))}", mloc)


def _u(v):
    if isinstance(v, np.ndarray):
        return np.array([alg.unfold_all(lift(c)) for c in v.flat], dtype=object).reshape(v.shape)
    if isinstance(v, E):
        return alg.unfold_all(v)
    return v


NONDET_EXT = ("time.", "random.", "numpy.random", "os.urandom", "os.environ", "os.getenv", "datetime.", "uuid.", "secrets.")


def shared_state(ctx, mloc):
    execd = {}
    traces = []
    for phase, fabric, regime in (("olivine", "olivine_A", "matrix_dislocation"), ("enstatite", "enstatite_AB", "frictional_yielding"),
                                  ("olivine", "olivine_C", "matrix_diffusion"), ("olivine", "olivine_B", "max_viscosity")):
        R = driver.run_update(ctx, phase=phase, fabric=fabric, regime=regime, N=2, assemblage=("olivine", "enstatite"), stub_derivatives=False)
        execd.update(R.I.executed)
        traces.append(R.I.trace)
    n = 0
    for qn, fv in sorted(execd.items()):
        if isinstance(fv.node, ast.Lambda):
            continue
        eff = flow.effects_of_function(ctx.program, fv.module, fv.node)
        bad = []
        for kind, name, line in eff:
            if kind == "global":
                bad.append((kind, name, line))
            elif kind in ("attr-store-free", "subscript-store-free", "aug-free", "nonlocal"):
                root = name.split(".")[0].split("[")[0]
                if root in fv.module.defs or root in fv.module.imports:
                    bad.append((kind, name, line))   # module-level object mutated
        # mutable default arguments that are written
        n += 1
        ctx.ob("C08.no-shared-state", qn, not bad, "writes shared state: " + ", ".join(f"{k} {nm} (line {ln})" for k, nm, ln in bad),
               f"{ctx.program.relpath(fv.module.path)}:{fv.node.lineno}")
    ctx.count("functions_on_update_path", n)
    ctx.floor("C08.no-shared-state", 10)
    bad_ev = []
    for tr in traces:
        for e in tr:
            if e.kind == "rng":
                bad_ev.append((e.kind, e.data[0], e.loc))
            elif e.kind == "extcall" and any(str(e.data[0]).startswith(p) for p in NONDET_EXT):
                bad_ev.append((e.kind, e.data[0], e.loc))
            elif e.kind in ("setattr-class",):
                bad_ev.append((e.kind, e.data, e.loc))
    ctx.ob("C08.deterministic", "update path", not bad_ev, f"nondeterministic / shared-state events: {bad_ev[:4]}", mloc)
