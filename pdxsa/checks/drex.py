"""Shared extraction of pydrex.core.derivatives and the independent D-Rex reference model."""

from __future__ import annotations

import itertools

import numpy as np

from .. import alg
from ..alg import E, lift, ZERO, ONE, INF, Abs, Exp, Inf
from ..interp import Interp, RaiseSig
from ..values import symarr, mkarr, Guard, Opaque, ClassVal, EnumMember
from .common import public, enum, defloc
from ..report import AnalysisError

# ---- reference tables (provenance: Kaminski et al. 2004 Table 1 / PyDRex docs; slip-system order
# (010)[100], (001)[100], (010)[001], (100)[001]) — written independently of the code.
REF_CRSS = {
    "olivine_A": (1, 2, 3, INF),
    "olivine_B": (3, 2, 1, INF),
    "olivine_C": (3, 2, INF, 1),
    "olivine_D": (1, 1, 3, INF),
    "olivine_E": (3, 1, 2, INF),
    "enstatite_AB": (INF, INF, INF, 1),
}
FABRIC_PHASE = {k: ("enstatite" if k.startswith("enstatite") else "olivine") for k in REF_CRSS}
# slip system s: (row of slip direction l, row of plane normal n); axes a=[100] -> row 0, b -> 1, c -> 2
REF_SYSTEMS = ((0, 1), (0, 2), (2, 1), (2, 0))
DISLOCATION_REGIMES = ("matrix_dislocation", "frictional_yielding")
YIELD_FACTOR = alg.const(3) / 10


def levi(i, j, k):
    return ((i - j) * (j - k) * (k - i)) // 2


class Inputs:
    def __init__(self, N):
        self.N = N
        self.L = symarr("L", (3, 3))
        self.D = (self.L + self.L.T) / 2
        self.A = symarr("A", (N, 3, 3))
        self.f = symarr("f", (N,), positive=True)
        self.n = alg.psym("n")
        self.p = alg.psym("p")
        self.lam = alg.psym("lam")
        self.M = alg.psym("Mstar")
        self.phi = alg.psym("phi")
        self.W = symarr("W", (3, 3))


def orderings(fabric, tier_all=False):
    """Slip-activity orderings consistent with what is statically known: systems with infinite CRSS
    have activity exactly 0 and sort first; the rest are generic (ties are measure-zero)."""
    crss = REF_CRSS[fabric]
    if FABRIC_PHASE[fabric] == "enstatite":
        return [None]
    zeros = [i for i, c in enumerate(crss) if isinstance(c, Inf)]
    rest = [i for i in range(4) if i not in zeros]
    return [tuple(zeros) + p for p in itertools.permutations(rest)]


_DTYPE_DONE: set = set()


def extract(ctx, fabric, regime, perm, N=2, inputs=None, setup=None):
    """Interpret pydrex.core.derivatives on symbolic inputs. Returns (interp, inputs, (dA, df))."""
    inp = inputs or Inputs(N)

    # reference activities |I_s| / tau_s per grain, used to recognise WHICH slip systems a sort is applied to
    ref_keys = {}
    for g in range(inp.N):
        for s, (lr, nr) in enumerate(REF_SYSTEMS):
            v = ZERO
            for i in range(3):
                for j in range(3):
                    v = v + inp.D[i, j] * inp.A[g, lr, i] * inp.A[g, nr, j]
            tau = REF_CRSS[fabric][s]
            ref_keys[(g, s)] = ZERO if isinstance(tau, Inf) else Abs(alg.let(v)) / tau

    def chooser(keys):
        if perm is None:
            raise AnalysisError("argsort of symbolic data met but no ordering was supplied")
        keys = [lift(k) for k in keys]
        if len(keys) == len(perm):
            zeros = [i for i, k in enumerate(keys) if k.is_zero()]
            if sorted(perm[: len(zeros)]) != sorted(zeros):
                raise AnalysisError(f"ordering {perm} inconsistent with statically zero activities {zeros}")
            return perm
        # a sort over a sub-vector: identify the slip system of each key and order them as the assumed activity ranking does
        rank = {s: r for r, s in enumerate(perm)}
        systems = []
        for k in keys:
            hit = [s for (g, s), rk in ref_keys.items() if rk == k and (not k.is_zero())]
            if k.is_zero():
                hit = [s for s in range(4) if isinstance(REF_CRSS[fabric][s], Inf) and s not in systems]
            if not hit:
                raise AnalysisError("argsort over values that are not slip-system activities")
            systems.append(hit[0])
        order = sorted(range(len(keys)), key=lambda i: rank[systems[i]])
        return tuple(order)

    I = Interp(ctx.program, perm_chooser=chooser)
    if setup is not None:
        setup(I)
    f = public(ctx, I, "pydrex.core.derivatives")
    ph = enum(I, "pydrex.core.MineralPhase", FABRIC_PHASE[fabric])
    fb = enum(I, "pydrex.core.MineralFabric", fabric)
    rg = enum(I, "pydrex.core.DeformationRegime", regime)
    kwargs = dict(
        regime=rg, phase=ph, fabric=fb, n_grains=N, orientations=inp.A.copy(), fractions=inp.f.copy(),
        strain_rate=inp.D.copy(), velocity_gradient=inp.L.copy(), deformation_gradient_spin=inp.W.copy(),
        stress_exponent=inp.p, deformation_exponent=inp.n, nucleation_efficiency=inp.lam,
        gbm_mobility=inp.M, volume_fraction=inp.phi)
    t0 = len(I.trace)
    out = I.call(f, (), dict(kwargs))
    key = (ctx.prop, fabric, regime)
    if key not in _DTYPE_DONE:
        _DTYPE_DONE.add(key)
        from .common import dtype_rule
        dtype_rule(ctx, I, t0, list(kwargs.values()), "pydrex.core.derivatives", construct=f"derivatives:{fabric}:{regime}")
    return I, inp, out


def reference(inp, fabric, regime, perm):
    """The published D-Rex rates written directly in the algebra (see DESIGN.md C02)."""
    N, A, L, D = inp.N, inp.A, inp.L, inp.D
    n, p, lam = inp.n, inp.p, inp.lam
    tau = REF_CRSS[fabric]
    olivine = FABRIC_PHASE[fabric] == "olivine"
    dA = np.empty((N, 3, 3), dtype=object)
    En = []
    stages = []
    for g in range(N):
        a = A[g]
        Is = []
        for (lr, nr) in REF_SYSTEMS:
            v = ZERO
            for i in range(3):
                for j in range(3):
                    v = v + D[i, j] * a[lr, i] * a[nr, j]
            Is.append(alg.let(v))
        if olivine:
            i_inac, i_min, i_int, i_max = perm
            beta = [None] * 4
            beta[i_inac] = ZERO
            beta[i_max] = ONE
            pref = lift(tau[i_max]) / Is[i_max]
            for k in (i_min, i_int):
                r = pref * Is[k] / tau[k]
                beta[k] = r * Abs(r) ** (n - 1)
        else:
            g_act = Guard("cmp", "Gt", Abs(Is[3]), lift(1e-15))
            beta = [ZERO, ZERO, ZERO, alg.Fn("select", g_act.astuple(), ONE, ZERO)]
        beta = [alg.let(b) for b in beta]
        G = np.empty((3, 3), dtype=object)
        for i in range(3):
            for j in range(3):
                v = ZERO
                for s, (lr, nr) in enumerate(REF_SYSTEMS):
                    v = v + beta[s] * a[lr, i] * a[nr, j]
                G[i, j] = alg.let(2 * v)
        num = ZERO
        den = ZERO
        for j in range(3):
            k = (j + 1) % 3
            num = num - (L[j, k] - L[k, j]) * (G[j, k] - G[k, j])
            den = den - (G[j, k] - G[k, j]) ** 2
            for l in range(3):
                num = num + 2 * G[j, l] * L[j, l]
                den = den + 2 * G[j, l] ** 2
        gamma = alg.let(num / den)
        w = []
        for j in range(3):
            r, s = (j + 1) % 3, (j + 2) % 3
            w.append(((L[s, r] - L[r, s]) - (G[s, r] - G[r, s]) * gamma) / 2)
        for pp in range(3):
            for q in range(3):
                v = ZERO
                for r in range(3):
                    for s in range(3):
                        e = levi(q, r, s)
                        if e:
                            v = v + e * a[pp, s] * w[r]
                dA[g, pp, q] = alg.let(v)
        en = ZERO
        for i in range(3):
            rho = (1 / lift(tau[i]) if not isinstance(tau[i], Inf) else ZERO) ** (n - p) * Abs(beta[i] * gamma) ** (p / n)
            en = en + rho * Exp(-lam * rho * rho)
        En.append(alg.let(en))
        stages.append({"I": Is, "beta": beta, "G": G, "gamma": gamma, "num": num, "den": den, "energy": En[-1]})
    mean = sum((inp.f[g] * En[g] for g in range(N)), ZERO)
    df = np.empty((N,), dtype=object)
    for g in range(N):
        df[g] = inp.phi * inp.M * inp.f[g] * (mean - En[g])
    if regime == "frictional_yielding":
        dA = dA * YIELD_FACTOR
        df = df * YIELD_FACTOR
    return dA, df, stages
