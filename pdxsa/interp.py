"""AST abstract interpreter over the value domain of alg.py / values.py (DESIGN.md 2.2).

Interprets PyDRex *source* (never imports it).  Runtime quantities stay symbolic; loop
bounds, index arithmetic, enum ordinals and literal tables are evaluated concretely.
"""

from __future__ import annotations

import ast
import copy
import itertools

import numpy as np

from . import alg
from .alg import E, INF, Inf, lift, AlgError, ZERO, ONE
from .values import *  # noqa: F401,F403
from .values import (Unsupported, Opaque, UNINIT, IntSym, EnumMember, FuncVal, BoundMethod, Native,
                     Partial, ClassVal, Record, ExcVal, ExtRef, ModuleRef, Guard, Mask, MaskedArray,
                     keyof, mkarr, cell, full, is_arr, SymIdx, SymArr, Phi)


_KNOWN_DECORATORS = {"njit", "jit", "wraps", "staticmethod", "classmethod", "contextmanager", "defined_if", "unique", "dataclass", "serializable",
                     "remote", "property", "vectorize", "guvectorize", "cached_property", "overload", "abstractmethod", "final", "override"}


class ReturnSig(Exception):
    def __init__(self, v):
        self.v = v


class BreakSig(Exception):
    pass


class ContinueSig(Exception):
    pass


class RaiseSig(Exception):
    """A Python-level exception raised by the interpreted program."""

    def __init__(self, exc):
        super().__init__(exc.typename)
        self.exc = exc


BUILTIN_EXC_BASES = {
    "BaseException": None, "Exception": "BaseException", "ValueError": "Exception",
    "TypeError": "Exception", "KeyError": "LookupError", "IndexError": "LookupError",
    "LookupError": "Exception", "AttributeError": "Exception", "NameError": "Exception",
    "ZeroDivisionError": "ArithmeticError", "ArithmeticError": "Exception",
    "AssertionError": "Exception", "RuntimeError": "Exception", "NotImplementedError": "RuntimeError",
    "ImportError": "Exception", "OSError": "Exception", "NotADirectoryError": "OSError",
    "FileNotFoundError": "OSError", "StopIteration": "Exception", "UnboundLocalError": "NameError",
    "OverflowError": "ArithmeticError",
}


class Env:
    __slots__ = ("vars", "parent", "nonlocals", "module", "func", "is_fork", "globals")

    def __init__(self, module, parent=None, func=None):
        self.is_fork = False
        self.globals = set()
        self.vars = {}
        self.parent = parent
        self.nonlocals = set()
        self.module = module
        self.func = func

    def lookup(self, name):
        e = self
        while e is not None:
            if name in e.vars:
                return e.vars[name]
            e = e.parent
        raise KeyError(name)

    def has(self, name):
        e = self
        while e is not None:
            if name in e.vars:
                return True
            e = e.parent
        return False

    def set(self, name, v):
        if name in self.globals:
            self.module.globals_cache[name] = v
            return
        if name in self.nonlocals and not self.is_fork:
            e = self.parent
            while e is not None:
                if name in e.vars:
                    e.vars[name] = v
                    return
                e = e.parent
        self.vars[name] = v


class Event:
    """Entry of the effect trace."""

    __slots__ = ("kind", "data", "loc", "func")

    def __init__(self, kind, data, loc, func):
        self.kind = kind
        self.data = data
        self.loc = loc
        self.func = func

    def __repr__(self):
        return f"<{self.kind} {self.data} @{self.loc}>"


_MISSING = Record(None, {}, label="dataclasses.MISSING")


class Interp:
    def __init__(self, program, externals=None, stubs=None, cut_calls=True, perm_chooser=None,
                 max_depth=60):
        self.program = program
        self.externals = externals or {}   # dotted external path -> Native / value override
        self.stubs = stubs or {}           # repo qualname -> Native override
        self.cut_calls = cut_calls
        self.perm_chooser = perm_chooser   # callable(keys array) -> permutation list
        self.trace = []                    # Events
        self.guards = []                   # (Guard, outcome, loc) early-exit cases on the generic path
        self.facts_nonzero = []            # E keys known non-zero on the current path
        self.facts = []                    # other path facts: ("notallzero", cells) ("perm", keys, perm)
        self.divisions = []                # (denominator E, loc, func qualname, facts snapshot)
        self.callstack = []
        self.max_depth = max_depth
        self.counters = {"calls": 0, "stmts": 0, "loops": 0}
        self.fresh = itertools.count()
        self.unsupported_log = []
        self.executed = {}                 # qualname -> FuncVal of every repository function interpreted
        self.branches = []                 # (guard, ("join", None), loc, function) for data-dependent store-only ifs joined into selects
        self.havocs = []                   # (id, fresh symbols, loc) for opaque values stored into numeric arrays
        self.force_exit = None             # index (in order of evaluation) of ONE data-dependent early exit that is taken instead of skipped
        self.forced = None                 # (guard that was forced to hold, loc) once that happened
        self._exit_occ = {}
        self.exit_ids = []                 # (index into self.guards, loc, occurrence at that loc) of every data-dependent early exit met
        # model-point mode (one region of the input space at a time): symbols have numeric stand-ins that DECIDE data-dependent comparisons,
        # sorts and searches, while all arithmetic stays symbolic; every decision taken is logged, so a result holds on the region where the
        # logged decisions keep their outcome
        self.model = None                  # Atom -> float
        self.model_decisions = []          # (op, lhs E, rhs E, outcome)
        self.model_bounds = {}             # variate Atom -> [("lo" | "hi", E)] implied by the decisions that involve it
        self.model_u = {}                  # (draw call number, flat index) -> float: stand-ins for uniform variates, by position
        self.model_uatoms = {}             # variate Atom -> (draw call number, flat index)
        self.model_unjudged = []           # decisions on variates that could not be turned into interval bounds
        self.default_objects = {}          # id -> (function, parameter, object): mutable default-argument values handed to a call
        from . import npmodel
        self.np = npmodel.NumpyModel(self)

    # ------------------------------------------------------------------ model-point mode
    def model_val(self, e):
        """numeric value of a symbolic scalar at the model point (None when it has symbols the model does not fix)"""
        if self.model is None:
            return None
        try:
            e = cell(e)
            if not isinstance(e, E):
                return None
            v = alg.evalf(e, dict(self.model), strict=True)
            return v if v == v and abs(v) != float("inf") else None
        except (alg.AlgError, ZeroDivisionError, OverflowError, ValueError, TypeError):
            return None

    def model_bound(self, u_e, kind, e):
        (a,) = alg.atoms_of(u_e)
        self.model_bounds.setdefault(a, []).append((kind, lift(e)))

    def is_variate(self, e):
        if not (isinstance(e, E) and self.model_uatoms):
            return False
        ats = alg.atoms_of(e)
        return len(ats) == 1 and next(iter(ats)) in self.model_uatoms and e == E.atom(next(iter(ats)))

    def model_compare(self, name, ea, eb):
        """outcome of ea <name> eb at the model point, or None (not decidable there / too close to call)"""
        x, y = self.model_val(ea), self.model_val(eb)
        if x is None or y is None:
            return None
        if abs(x - y) <= 1e-12 * max(1.0, abs(x), abs(y)):
            return None
        r = {"Eq": False, "NotEq": True, "Lt": x < y, "LtE": x < y, "Gt": x > y, "GtE": x > y}[name]
        self.model_decisions.append((name, ea, eb, r))
        self.variate_bound(ea, eb, x < y)
        return r

    def variate_bound(self, ea, eb, less):
        """the decision `ea < eb` (less) or `ea > eb` as a bound on the ONE variate that ea - eb is affine in: c*u + rest < 0"""
        if not self.model_uatoms:
            return
        d = lift(ea) - lift(eb)
        us = [a_ for a_ in alg.atoms_of(d, deep=True) if a_ in self.model_uatoms]
        if not us:
            return
        if len(us) != 1:
            self.model_unjudged.append("a comparison involves several variates")
            return
        u = us[0]
        try:
            c = alg.derive(d, {u: ONE})
        except Exception:
            self.model_unjudged.append("a variate is compared through a transformation that is not affine")
            return
        rest = d - c * E.atom(u)
        if not c.is_const() or c.cval() == 0 or u in alg.atoms_of(rest, deep=True):
            self.model_unjudged.append("a variate is compared through a transformation that is not affine")
            return
        bound = -rest / c                      # d < 0  <=>  u < bound (c > 0)  or  u > bound (c < 0)
        upper = (c.cval() > 0) == bool(less)
        self.model_bounds.setdefault(u, []).append(("hi" if upper else "lo", bound))

    # ------------------------------------------------------------------ helpers
    def loc(self, node, env=None):
        mod = env.module if env is not None else (self.callstack[-1][0].module if self.callstack else None)
        if mod is None:
            return f"?:{getattr(node, 'lineno', 0)}"
        return f"{self.program.relpath(mod.path)}:{getattr(node, 'lineno', 0)}"

    def curfunc(self):
        return self.callstack[-1][0].qualname if self.callstack else "<top>"

    def emit(self, kind, data, node=None, env=None):
        self.trace.append(Event(kind, data, self.loc(node, env) if node is not None else "", self.curfunc()))

    def opaque(self, reason, node=None):
        self.unsupported_log.append((reason, getattr(node, "lineno", None), self.curfunc()))
        return Opaque(reason)

    # ------------------------------------------------------------------ globals
    def module_global(self, module, name):
        cache = module.globals_cache
        if name in cache:
            v = cache[name]
            if v is _PENDING:
                raise Unsupported(f"cyclic module-level definition of {name}")
            return v
        if name in module.defs:
            cache[name] = _PENDING
            st = module.defs[name]
            try:
                v = self._eval_global_def(module, name, st)
            except BaseException:
                del cache[name]
                raise
            cache[name] = v
            if isinstance(v, FuncVal):
                # module-level `f.attr = value` statements (function attributes such as the `terminal` flag of an ODE event)
                tree = getattr(module, "tree", None)
                for st2 in (tree.body if tree is not None else []):
                    if isinstance(st2, ast.Assign) and len(st2.targets) == 1 and isinstance(st2.targets[0], ast.Attribute) \
                            and isinstance(st2.targets[0].value, ast.Name) and st2.targets[0].value.id == name:
                        try:
                            v.attrs[st2.targets[0].attr] = self.ev(st2.value, Env(module))
                        except Unsupported:
                            pass
            return v
        if name in module.imports:
            v = self._resolve_import(module, module.imports[name])
            cache[name] = v
            return v
        raise KeyError(name)

    def _resolve_import(self, module, imp):
        if imp[0] == "module":
            dotted = imp[1]
            if dotted in self.program.modules:
                return ModuleRef(self.program.modules[dotted])
            return ExtRef(dotted)
        _, mod, name = imp
        if mod in self.program.modules:
            sub = mod + "." + name
            if sub in self.program.modules:
                return ModuleRef(self.program.modules[sub])
            return self.module_global(self.program.modules[mod], name)
        return ExtRef(mod + "." + name)

    def _eval_global_def(self, module, name, st):
        env = Env(module)
        if isinstance(st, ast.FunctionDef):
            return self.make_function(st, env, None)
        if isinstance(st, ast.ClassDef):
            return self.make_class(st, env)
        if isinstance(st, ast.AnnAssign):
            return self.ev(st.value, env)
        if isinstance(st, ast.Assign):
            v = self.ev(st.value, env)
            for t in st.targets:
                if isinstance(t, ast.Name) and t.id == name:
                    return v
                if isinstance(t, (ast.Tuple, ast.List)):
                    tmp = Env(module)
                    self.assign(t, v, tmp)
                    if name in tmp.vars:
                        return tmp.vars[name]
            raise Unsupported(f"cannot resolve global {name}")
        raise Unsupported(f"global def kind {type(st).__name__}")

    def make_function(self, node, env, cls):
        qn = (cls.qualname + "." + node.name) if cls is not None else None
        if qn is None:
            if env.func is not None:
                qn = env.func.qualname + ".<locals>." + node.name
            else:
                qn = env.module.name + "." + node.name
        fv = FuncVal(env.module, node, closure=env if env.func is not None else None, cls=cls, qualname=qn)
        # decorators that change meaning
        for d in node.decorator_list:
            dn = _dotted(d.func if isinstance(d, ast.Call) else d)
            if dn and dn.split(".")[-1] in ("njit", "jit", "wraps", "staticmethod", "contextmanager"):
                continue
            if dn and dn.split(".")[-1] == "classmethod":
                continue
            if dn and dn.split(".")[-1] == "defined_if":
                continue  # treated as defined (py>=3.12 branch)
            if dn and dn.split(".")[-1] in ("unique", "dataclass", "serializable"):
                continue
        return fv

    def make_class(self, node, env):
        cv = ClassVal(env.module, node)
        for b in node.bases:
            try:
                cv.bases.append(self.ev(b, env))
            except (Unsupported, KeyError):
                cv.bases.append(ExtRef(_dotted(b) or "?"))
        ext = cv.ext_base_names()
        inherited_kind = None
        for b in cv.bases:
            if isinstance(b, ClassVal) and b.kind in ("dataclass", "exception", "enum", "intenum"):
                inherited_kind = b.kind
        if any(p.endswith("IntEnum") for p in ext):
            cv.kind = "intenum"
        elif any(p.endswith("Enum") for p in ext):
            cv.kind = "enum"
        elif any(p.split(".")[-1] in BUILTIN_EXC_BASES for p in ext):
            cv.kind = "exception"
        for d in node.decorator_list:
            dn = _dotted(d.func if isinstance(d, ast.Call) else d)
            if dn and dn.split(".")[-1] == "dataclass":
                cv.kind = "dataclass"
                if isinstance(d, ast.Call):
                    for kw in d.keywords:
                        cv.dataclass_kw[kw.arg] = self.ev(kw.value, env)
        if cv.kind == "class" and inherited_kind in ("exception",):
            cv.kind = inherited_kind
        cenv = Env(env.module, parent=env)
        for st in node.body:
            if isinstance(st, ast.FunctionDef):
                cv.methods[st.name] = self.make_function(st, env, cv)
            elif isinstance(st, ast.AnnAssign) and isinstance(st.target, ast.Name):
                cv.fields.append((st.target.id, st.annotation, st.value))
                if st.value is not None:
                    cv.class_attrs[st.target.id] = ("lazy", st.value, cenv)
            elif isinstance(st, ast.Assign):
                for t in st.targets:
                    if isinstance(t, ast.Name):
                        if cv.kind in ("enum", "intenum"):
                            val = self.ev(st.value, cenv)
                            if isinstance(val, E) and val.is_int():
                                val = int(val.cval())
                            if isinstance(val, tuple):
                                val = tuple(int(x.cval()) if isinstance(x, E) and x.is_int() else x for x in val)
                            cv.members[t.id] = EnumMember(cv, t.id, val, cv.kind == "intenum")
                            cenv.vars[t.id] = cv.members[t.id]
                        else:
                            cv.class_attrs[t.id] = ("lazy", st.value, cenv)
        return cv

    def class_attr(self, cv, name):
        for c in cv.mro():
            if name in c.members:
                return c.members[name]
            if name in c.class_attrs:
                v = c.class_attrs[name]
                if isinstance(v, tuple) and len(v) == 3 and v[0] == "lazy":
                    v = self.ev(v[1], v[2])
                    c.class_attrs[name] = ("val", v)
                    return v
                return v[1]
            if name in c.methods:
                return c.methods[name]
        raise KeyError(name)

    # ------------------------------------------------------------------ calls
    def resolve(self, dotted):
        mod, _, name = dotted.rpartition(".")
        return self.module_global(self.program.module(mod), name)

    def call(self, f, args=(), kwargs=None, node=None):
        kwargs = kwargs or {}
        self.counters["calls"] += 1
        if isinstance(f, Opaque):
            return self.opaque(f"call of {f.reason}", node)
        if isinstance(f, Native):
            return f.fn(self, *args, **kwargs)
        if isinstance(f, Partial):
            kw = dict(f.kwargs)
            kw.update(kwargs)
            return self.call(f.func, tuple(f.args) + tuple(args), kw, node)
        if isinstance(f, BoundMethod):
            return self.call(f.func, (f.obj,) + tuple(args), kwargs, node)
        if isinstance(f, FuncVal):
            stub = self.stubs.get(f.qualname)
            if stub is not None:
                return stub.fn(self, *args, **kwargs)
            return self.call_function(f, args, kwargs, node)
        if isinstance(f, ClassVal):
            return self.instantiate(f, args, kwargs, node)
        if isinstance(f, ExtRef):
            ov = self.externals.get(f.path)
            if ov is not None:
                return ov.fn(self, *args, **kwargs) if isinstance(ov, Native) else ov
            return self.np.call_external(f.path, args, kwargs, node)
        if type(f).__name__ == "CallableType":
            x = args[0] if args else None
            if isinstance(x, E):
                x = "nan" if any(str(a_) == "nan" for a_ in alg.atoms_of(x)) else repr(x)
            return ("typed", f.name, x if isinstance(x, str) else repr(x))
        if isinstance(f, tuple) and f and f[0] == "method":
            return self.np.call_method(f[1], f[2], args, kwargs, node)
        if isinstance(f, type) and f in (int, float, str, bool, complex, list, tuple, dict, set):
            return self.np.call_external("builtins." + f.__name__, args, kwargs, node)
        raise Unsupported(f"call of {f!r}", node)

    def bind_args(self, fv, args, kwargs, node=None):
        a = fv.node.args
        env = Env(fv.module, parent=fv.closure, func=fv)
        params = [p.arg for p in a.posonlyargs + a.args]
        args = list(args)
        if len(args) > len(params) and a.vararg is None:
            raise RaiseSig(ExcVal("TypeError", args=(f"too many positional args for {fv.qualname}",), node=node))
        for p, v in zip(params, args):
            env.vars[p] = v
        if a.vararg is not None:
            env.vars[a.vararg.arg] = tuple(args[len(params):])
        kwonly = [p.arg for p in a.kwonlyargs]
        extra = {}
        for k, v in kwargs.items():
            if k in params or k in kwonly:
                if k in env.vars and k in params[: len(args)]:
                    raise RaiseSig(ExcVal("TypeError", args=(f"multiple values for {k}",), node=node))
                env.vars[k] = v
            elif a.kwarg is not None:
                extra[k] = v
            else:
                raise RaiseSig(ExcVal("TypeError", args=(f"unexpected keyword {k} for {fv.qualname}",), node=node))
        if a.kwarg is not None:
            env.vars[a.kwarg.arg] = extra
        defaults = a.defaults
        denv = Env(fv.module, parent=fv.closure)

        def default_value(pname, dnode):
            # Python evaluates a default once, when the function is defined: a MUTABLE default (array, list, dict, set, record) is one object
            # shared by every call that omits the argument.  It is evaluated on first use and kept with the function object.
            cache = fv.attrs.setdefault("__defaults__", {})
            if pname in cache:
                self.default_objects[id(cache[pname])] = (fv.qualname, pname, cache[pname])
                return cache[pname]
            v = self.ev(dnode, denv)
            if isinstance(v, (np.ndarray, list, dict, set, Record)):
                cache[pname] = v
                self.default_objects[id(v)] = (fv.qualname, pname, v)
            return v
        for p, d in zip(params[len(params) - len(defaults):], defaults):
            if p not in env.vars:
                env.vars[p] = default_value(p, d)
        for p, d in zip(a.kwonlyargs, a.kw_defaults):
            if p.arg not in env.vars and d is not None:
                env.vars[p.arg] = default_value(p.arg, d)
        for p in params + kwonly:
            if p not in env.vars:
                raise RaiseSig(ExcVal("TypeError", args=(f"missing argument {p} for {fv.qualname}",), node=node))
        return env

    def call_function(self, fv, args, kwargs, node=None):
        if len(self.callstack) > self.max_depth:
            raise Unsupported("call depth exceeded", node)
        if isinstance(fv.node, ast.Lambda):
            env = self.bind_args(fv, args, kwargs, node)
            self.callstack.append((fv, node))
            try:
                return self.ev(fv.node.body, env)
            finally:
                self.callstack.pop()
        memo = None
        for d in fv.decorators:
            dn = (_dotted(d.func if isinstance(d, ast.Call) else d) or "").split(".")[-1]
            if dn in ("lru_cache", "cache"):
                # functools memoisation: one table per function, living as long as the module (it persists across calls and interpreters
                # of one analysed program, like any module-level state); a hit returns the very object stored by the first call
                memo = fv.module.globals_cache.setdefault("__memo__:" + fv.qualname, {})
            elif dn and dn not in _KNOWN_DECORATORS:
                return self.opaque(f"call of {fv.qualname}, whose decorator @{dn} is not modelled", node)
        if memo is not None:
            mkey = (keyof(list(args)), keyof(sorted(kwargs.items(), key=lambda kv: kv[0])))
            if mkey in memo:
                self.emit("memo-hit", (fv.qualname,), node)
                return memo[mkey]
            ret = self._call_function_body(fv, args, kwargs, node)
            memo[mkey] = ret
            return ret
        return self._call_function_body(fv, args, kwargs, node)

    def _call_function_body(self, fv, args, kwargs, node=None):
        env = self.bind_args(fv, args, kwargs, node)
        self.executed[fv.qualname] = fv
        is_gen = _is_generator(fv.node)
        if is_gen:
            env.vars["__yield__"] = []
        self.callstack.append((fv, node))
        snap = (len(self.facts_nonzero), len(self.facts), len(self.guards))
        try:
            self.block(fv.node.body, env)
            ret = None
        except ReturnSig as r:
            ret = r.v
        finally:
            self.callstack.pop()
            # path facts established inside a callee stay valid for the caller's continuation
            # (the callee returned on its generic path), so they are kept.
        if is_gen:
            return list(env.vars["__yield__"])
        if isinstance(ret, bool) and len(self.guards) > snap[2]:
            lifted = self._lift_bool(fv, ret, snap)
            if lifted is not None:
                return lifted
        if self.cut_calls and self.callstack:
            ret = self.cut(ret)
        return ret

    def _lift_bool(self, fv, ret, snap):
        """A predicate whose early exits and generic path all return booleans is returned as ONE symbolic
        boolean (so that callers branch on it) instead of 'generic path + recorded guard'."""
        entries = self.guards[snap[2]:]
        if not entries or any(fn != fv.qualname or o[0] != "return" or not isinstance(o[1], bool) for g, o, l, fn in entries):
            return None
        val = ret
        for g, o, l, fn in reversed(entries):
            o = o[1]
            if isinstance(val, bool):
                if o == val:
                    continue
                val = g if o else g.negate()
            else:
                val = Guard("or", g, val) if o else Guard("and", g.negate(), val)
        del self.guards[snap[2]:]
        del self.facts_nonzero[snap[0]:]
        del self.facts[snap[1]:]
        return val

    def cut(self, v):
        if isinstance(v, E):
            return alg.let(v)
        if isinstance(v, tuple):
            return tuple(self.cut(x) for x in v)
        if isinstance(v, np.ndarray) and v.dtype == object:
            out = v.copy() if False else v
            for i in np.ndindex(*v.shape):
                c = v[i]
                if isinstance(c, E):
                    out[i] = alg.let(c)
            return out
        return v

    def instantiate(self, cv, args, kwargs, node=None):
        if cv.kind in ("enum", "intenum"):
            val = args[0]
            if isinstance(val, E) and val.is_int():
                val = int(val.cval())
            if isinstance(val, EnumMember):
                val = val.value
            for m in cv.members.values():
                if m.value == val:
                    return m
            raise RaiseSig(ExcVal("ValueError", args=(f"{val} is not a valid {cv.name}",), node=node))
        if cv.kind == "exception":
            return ExcVal(cv.name, cls=cv, args=tuple(args), node=node)
        rec = Record(cv, {})
        init = cv.find_method("__init__")
        if init is not None:
            self.call_function(init, (rec,) + tuple(args), kwargs, node)
            return rec
        if cv.kind == "dataclass" or any(c.kind == "dataclass" for c in cv.mro()):
            fields = self.dataclass_fields(cv)
            names = [f[0] for f in fields]
            vals = {}
            if len(args) > len(names):
                raise RaiseSig(ExcVal("TypeError", args=("too many args",), node=node))
            for n, v in zip(names, args):
                vals[n] = v
            for k, v in kwargs.items():
                if k not in names:
                    raise RaiseSig(ExcVal("TypeError", args=(f"unexpected keyword {k}",), node=node))
                vals[k] = v
            for n, ann, dflt, owner in fields:
                if n in vals:
                    continue
                if dflt is None:
                    raise RaiseSig(ExcVal("TypeError", args=(f"missing {n}",), node=node))
                denv = Env(owner.module)
                d = self.ev(dflt, denv)
                if isinstance(d, tuple) and d and d[0] == "__field__":
                    fk = d[1]
                    if "default_factory" in fk:
                        d = self.call(fk["default_factory"], ())
                    elif "default" in fk:
                        d = fk["default"]
                    else:
                        raise RaiseSig(ExcVal("TypeError", args=(f"missing {n}",), node=node))
                vals[n] = d
            rec.attrs.update(vals)
            post = cv.find_method("__post_init__")
            if post is not None:
                self.call_function(post, (rec,), {}, node)
            return rec
        if args or kwargs:
            raise Unsupported(f"constructor args for plain class {cv.qualname}", node)
        return rec

    def field_record(self, f):
        """stand-in for dataclasses.Field: name, type, default, default_factory (dataclasses.MISSING when absent)"""
        name, ann, dflt, owner = f
        d = self.ev(dflt, Env(owner.module)) if dflt is not None else _MISSING
        fac = _MISSING
        if isinstance(d, tuple) and d and d[0] == "__field__":
            fk = d[1]
            fac = fk.get("default_factory", _MISSING)
            d = fk.get("default", _MISSING)
        return Record(None, {"name": name, "type": self.ev(ann, Env(owner.module)), "default": d, "default_factory": fac,
                             "init": True, "repr": True, "compare": True, "metadata": {}}, label="Field")

    def dataclass_fields(self, cv):
        """Fields in dataclass order (base first); each (name, annotation, default node, owner class)."""
        out = {}
        for c in reversed(cv.mro()):
            is_dc = c.kind == "dataclass"
            if not is_dc:
                continue
            for n, ann, d in c.fields:
                out[n] = (n, ann, d, c)
        return list(out.values())

    # ------------------------------------------------------------------ statements
    def block(self, body, env):
        for st in body:
            self.stmt(st, env)

    def stmt(self, st, env):
        self.counters["stmts"] += 1
        m = getattr(self, "st_" + type(st).__name__, None)
        if m is None:
            raise Unsupported(f"statement {type(st).__name__}", st)
        return m(st, env)

    def st_Expr(self, st, env):
        if isinstance(st.value, ast.Constant):
            return
        if isinstance(st.value, ast.Yield):
            env.lookup("__yield__").append(self.ev(st.value.value, env) if st.value.value else None)
            return
        self.ev(st.value, env)

    def st_Pass(self, st, env):
        return

    def st_Import(self, st, env):
        for a in st.names:
            alias = a.asname or a.name.split(".")[0]
            target = a.name if a.asname else a.name.split(".")[0]
            env.set(alias, self._resolve_import(env.module, ("module", target)))

    def st_ImportFrom(self, st, env):
        for a in st.names:
            env.set(a.asname or a.name, self._resolve_import(env.module, ("from", st.module or "", a.name)))

    def st_Global(self, st, env):
        env.globals.update(st.names)
        self.emit("global-decl", tuple(st.names), st, env)

    def st_Nonlocal(self, st, env):
        env.nonlocals.update(st.names)
        self.emit("nonlocal-decl", tuple(st.names), st, env)

    def st_Assert(self, st, env):
        c = self.truth(self.ev(st.test, env))
        if c is False:
            raise RaiseSig(ExcVal("AssertionError", node=st))

    def st_Delete(self, st, env):
        for t in st.targets:
            if isinstance(t, ast.Attribute):
                obj = self.ev(t.value, env)
                if isinstance(obj, Record):
                    obj.attrs.pop(t.attr, None)
                    self.emit("delattr", (obj, t.attr), st, env)
                    continue
            if isinstance(t, ast.Name) and t.id in env.vars:
                del env.vars[t.id]
                continue
            raise Unsupported("del target", st)

    def st_FunctionDef(self, st, env):
        env.set(st.name, self.make_function(st, env, None))

    def st_ClassDef(self, st, env):
        env.set(st.name, self.make_class(st, env))

    def st_Return(self, st, env):
        raise ReturnSig(self.ev(st.value, env) if st.value is not None else None)

    def st_Break(self, st, env):
        raise BreakSig()

    def st_Continue(self, st, env):
        raise ContinueSig()

    def st_Raise(self, st, env):
        if st.exc is None:
            cur = env.has("__active_exc__") and env.lookup("__active_exc__")
            if cur:
                raise RaiseSig(cur)
            raise Unsupported("bare raise outside handler", st)
        v = self.ev(st.exc, env)
        if isinstance(v, ClassVal) and v.kind == "exception":
            v = ExcVal(v.name, cls=v, node=st)
        if isinstance(v, ExtRef):
            v = ExcVal(v.path.split(".")[-1], node=st)
        if not isinstance(v, ExcVal):
            raise Unsupported(f"raise of {v!r}", st)
        v.node = st
        raise RaiseSig(v)

    def exc_matches(self, exc, spec):
        """Does ExcVal exc match handler type spec (value of the except expression)?"""
        if spec is None:
            return True
        if isinstance(spec, tuple):
            return any(self.exc_matches(exc, s) for s in spec)
        names = self.exc_lineage(exc)
        if isinstance(spec, ClassVal):
            return spec.qualname in names or spec.name in names
        if isinstance(spec, ExtRef):
            return spec.path.split(".")[-1] in names
        if isinstance(spec, ExcVal):
            return spec.typename in names
        return False

    def exc_lineage(self, exc):
        names = []
        if exc.cls is not None:
            for c in exc.cls.mro():
                names.append(c.qualname)
                names.append(c.name)
                for b in c.bases:
                    if isinstance(b, ExtRef):
                        n = b.path.split(".")[-1]
                        while n:
                            names.append(n)
                            n = BUILTIN_EXC_BASES.get(n)
        else:
            n = exc.typename
            while n:
                names.append(n)
                n = BUILTIN_EXC_BASES.get(n)
        return names

    def st_Try(self, st, env):
        try:
            try:
                self.block(st.body, env)
            except RaiseSig as r:
                for h in st.handlers:
                    spec = self.ev(h.type, env) if h.type is not None else None
                    if self.exc_matches(r.exc, spec):
                        if h.name:
                            env.set(h.name, r.exc)
                        env.vars["__active_exc__"] = r.exc
                        self.emit("caught", (r.exc.typename,), h, env)
                        self.block(h.body, env)
                        break
                else:
                    raise
            else:
                self.block(st.orelse, env)
        finally:
            if st.finalbody:
                self.block(st.finalbody, env)

    def st_With(self, st, env):
        exits = []
        for item in st.items:
            v = self.ev(item.context_expr, env)
            # a stand-in that models the context-manager protocol (a pool that is terminated on exit ...) gets it; others bind themselves
            if isinstance(v, Record) and "__exit__" in v.native_methods:
                exits.append(v)
                if "__enter__" in v.native_methods:
                    v = self.call(v.native_methods["__enter__"], ())
            if item.optional_vars is not None:
                self.assign(item.optional_vars, v, env)
        try:
            self.block(st.body, env)
        finally:
            for v in reversed(exits):
                self.call(v.native_methods["__exit__"], (None, None, None))

    def st_Assign(self, st, env):
        v = self.ev(st.value, env)
        for t in st.targets:
            self.assign(t, v, env)

    def st_AnnAssign(self, st, env):
        if st.value is not None:
            self.assign(st.target, self.ev(st.value, env), env)

    def st_AugAssign(self, st, env):
        t = st.target
        cur = self.ev(t, env)
        v = self.ev(st.value, env)
        if isinstance(cur, np.ndarray) and isinstance(t, (ast.Name, ast.Attribute)):
            # in-place on arrays (views see it)
            new = self.binop(st.op, cur, v, st)
            if isinstance(new, np.ndarray) and new.shape == cur.shape:
                cur[...] = new
                self.emit("inplace", (t.id if isinstance(t, ast.Name) else t.attr, id(cur)), st, env)
                return
            self.assign(t, new, env)
            return
        self.assign(t, self.binop(st.op, cur, v, st), env)

    def st_For(self, st, env):
        it = self.iterate(self.ev(st.iter, env), st)
        broke = False
        for x in it:
            self.counters["loops"] += 1
            self.assign(st.target, x, env)
            try:
                self.block(st.body, env)
            except BreakSig:
                broke = True
                break
            except ContinueSig:
                continue
        if not broke:
            self.block(st.orelse, env)

    def st_While(self, st, env):
        n = 0
        while True:
            c = self.truth(self.ev(st.test, env))
            if isinstance(c, Guard):
                raise Unsupported("while on symbolic condition", st)
            if not c:
                break
            n += 1
            if n > 10000:
                raise Unsupported("while loop bound", st)
            try:
                self.block(st.body, env)
            except BreakSig:
                return
            except ContinueSig:
                continue
        self.block(st.orelse, env)

    def st_Match(self, st, env):
        subj = self.ev(st.subject, env)
        for case in st.cases:
            r = self.match_pattern(case.pattern, subj, env)
            if r is None:
                raise Unsupported("match on symbolic subject", st)
            if r:
                if case.guard is not None:
                    t = self.truth(self.ev(case.guard, env))
                    if not isinstance(t, bool):
                        raise Unsupported("symbolic match guard", st)
                    if not t:
                        continue
                self.block(case.body, env)
                return

    def match_pattern(self, p, subj, env):
        if isinstance(p, ast.MatchAs):
            if p.pattern is None:
                if p.name:
                    env.set(p.name, subj)
                return True
            r = self.match_pattern(p.pattern, subj, env)
            if r and p.name:
                env.set(p.name, subj)
            return r
        if isinstance(p, ast.MatchValue):
            v = self.ev(p.value, env)
            r = self.compare1(ast.Eq(), subj, v)
            if isinstance(r, Guard):
                return None
            return bool(r)
        if isinstance(p, ast.MatchOr):
            for q in p.patterns:
                r = self.match_pattern(q, subj, env)
                if r is None:
                    return None
                if r:
                    return True
            return False
        if isinstance(p, ast.MatchSequence):
            if not isinstance(subj, (tuple, list)) or len(subj) != len(p.patterns):
                return False
            for q, s in zip(p.patterns, subj):
                r = self.match_pattern(q, s, env)
                if not r:
                    return r
            return True
        if isinstance(p, ast.MatchSingleton):
            return subj is p.value
        if isinstance(p, ast.MatchClass) and not p.kwd_patterns and len(p.patterns) <= 1:
            # class pattern `str()`, `int()`, `MineralPhase()`, `str(x)`: an isinstance test (the single positional sub-pattern of the
            # builtin types binds the subject itself)
            cls = self.ev(p.cls, env)
            r = self.np.b_isinstance(p, subj, cls)
            if not isinstance(r, bool):
                return None
            if r and p.patterns:
                return self.match_pattern(p.patterns[0], subj, env)
            return r
        if isinstance(p, ast.MatchSequence) and isinstance(subj, (list, tuple)) and not any(isinstance(q, ast.MatchStar) for q in p.patterns):
            if len(subj) != len(p.patterns):
                return False
            for q, x in zip(p.patterns, subj):
                r = self.match_pattern(q, x, env)
                if not r:
                    return r
            return True
        raise Unsupported(f"match pattern {type(p).__name__}", p)

    # --- If with symbolic guards
    def st_If(self, st, env):
        c = self.truth(self.ev(st.test, env))
        if c is True:
            return self.block(st.body, env)
        if c is False:
            return self.block(st.orelse, env)
        if isinstance(c, Opaque):
            raise Unsupported(f"if on opaque value ({c.reason})", st)
        assert isinstance(c, Guard)
        refine = self.phi_refinements(st.test, c, env)
        body_exits = _always_exits(st.body)
        else_exits = _always_exits(st.orelse) if st.orelse else False
        if body_exits != else_exits:
            here = (self.loc(st, env), self.curfunc())
            occ = self._exit_occ.get(here, 0)
            self._exit_occ[here] = occ + 1
            self.exit_ids.append((len(self.guards), here[0], occ))     # the guard appended next is this exit
            if self.force_exit is not None and ((self.forced is None and self.force_exit == (here[0], occ)) or self.force_exit == (here[0], "*")):
                # this one early exit is followed for real: its condition holds from here on
                g = c if body_exits else c.negate()
                self.forced = (g, here[0], here[1])
                self.learn(g)
                for k, (va, vb) in refine.items():
                    env.vars[k] = va if body_exits else vb
                return self.block(st.body if body_exits else st.orelse, env)
        if body_exits and not else_exits:
            outcome = self.run_exit_branch(st.body, env)
            self.guards.append((c, outcome, self.loc(st, env), self.curfunc()))
            self.learn(c.negate())
            for k, (va, vb) in refine.items():
                env.vars[k] = vb
            return self.block(st.orelse, env)
        if else_exits and not body_exits:
            outcome = self.run_exit_branch(st.orelse, env)
            self.guards.append((c.negate(), outcome, self.loc(st, env), self.curfunc()))
            self.learn(c)
            for k, (va, vb) in refine.items():
                env.vars[k] = va
            return self.block(st.body, env)
        if body_exits and else_exits:
            raise Unsupported("symbolic if with two exiting branches", st)
        # store-only branches: run both on forked environments and join cellwise with select
        self.branches.append((c, ("join", None), self.loc(st, env), self.curfunc()))
        self.join_branches(c, st, env, refine)

    def phi_refinements(self, test, c, env):
        """names in the test that hold a Phi decided by this very condition: name -> (value when c holds, value when it does not)"""
        out = {}
        ck, nk = c.key(), c.negate().key()
        for x in ast.walk(test):
            if isinstance(x, ast.Name) and env.has(x.id):
                v = env.lookup(x.id)
                if isinstance(v, Phi):
                    if v.cond.key() == ck:
                        out[x.id] = (v.a, v.b)
                    elif v.cond.key() == nk:
                        out[x.id] = (v.b, v.a)
        return out

    def run_exit_branch(self, body, env):
        """Interpret an early-exit branch on a forked env to record what it returns/raises."""
        fork = self.fork_env(env)
        # the exit branch must not write through closure variables into state shared with the path that continues
        for k in sorted({x.id for s_ in body for x in ast.walk(s_) if isinstance(x, ast.Name)}):
            if k not in env.vars and k not in env.nonlocals and env.has(k):
                v = env.lookup(k)
                if isinstance(v, (np.ndarray, list, dict, Record)):
                    fork.vars[k] = _fork_value(v, {})
        saved = (list(self.facts_nonzero), list(self.facts), len(self.trace), len(self.guards), len(self.divisions))
        try:
            self.block(body, fork)
            out = ("fallthrough", None)
        except ReturnSig as r:
            out = ("return", r.v)
        except RaiseSig as r:
            out = ("raise", r.exc.typename)
        except (Unsupported, AlgError) as ex:
            out = ("unknown", str(ex))
        finally:
            self.facts_nonzero, self.facts = saved[0], saved[1]
            del self.trace[saved[2]:]
            del self.guards[saved[3]:]
            del self.divisions[saved[4]:]
        return out

    def fork_env(self, env):
        memo = {}
        f = Env(env.module, parent=env.parent, func=env.func)
        f.nonlocals = set(env.nonlocals)
        f.is_fork = True
        for k in env.nonlocals:  # copy-on-write view of enclosing-scope variables
            if k not in env.vars and env.has(k):
                f.vars[k] = _fork_value(env.lookup(k), memo)
        for k, v in env.vars.items():
            f.vars[k] = _fork_value(v, memo)
        return f

    def join_branches(self, c, st, env, refine=None):
        e1 = self.fork_env(env)
        e2 = self.fork_env(env)
        refine = refine or {}
        for k, (va, vb) in refine.items():
            e1.vars[k], e2.vars[k] = va, vb
        # free variables the branches use (closure variables such as `self`, containers of the enclosing scope): each branch works on
        # its own copy, and the copies are joined back into the shared object in place
        used = {x.id for part in (st.body, st.orelse) for s_ in part for x in ast.walk(s_) if isinstance(x, ast.Name)}
        free = {}
        for k in sorted(used):
            if k in env.vars or k in env.nonlocals or not env.has(k):
                continue
            v = env.lookup(k)
            if isinstance(v, (np.ndarray, list, dict, Record)):
                free[k] = v
                for e_ in (e1, e2):
                    e_.vars[k] = _fork_value(v, {})
        self.block(st.body, e1)
        self.block(st.orelse, e2)
        for k, orig in free.items():
            a, b = e1.vars.get(k), e2.vars.get(k)
            val = self.select_value(c, a, b, orig, st)
            if val is not orig:
                if isinstance(val, Opaque) or type(val) is not type(orig):
                    raise Unsupported(f"enclosing-scope variable {k} rebound or reshaped on one branch of a symbolic if", st)
                # same kind, new object: copy the joined content into the shared object
                if isinstance(orig, np.ndarray) and orig.shape == val.shape:
                    orig[...] = val
                elif isinstance(orig, list):
                    orig[:] = val
                elif isinstance(orig, dict):
                    orig.clear()
                    orig.update(val)
                else:
                    raise Unsupported(f"enclosing-scope variable {k} changed on one branch of a symbolic if", st)
        names = (set(e1.vars) | set(e2.vars)) - set(free)
        for n in names:
            if n in refine and e1.vars.get(n) is refine[n][0] and e2.vars.get(n) is refine[n][1]:
                continue      # only refined for the branches, not assigned
            if n not in e1.vars or n not in e2.vars:
                v = e1.vars.get(n, e2.vars.get(n))
                env.vars[n] = self.opaque(f"variable {n} defined on one branch of a symbolic if", st) \
                    if not isinstance(v, (FuncVal,)) else v
                continue
            val = self.select_value(c, e1.vars[n], e2.vars[n], env.vars.get(n), st)
            if n in env.nonlocals and not env.is_fork:
                env.set(n, val)
            else:
                env.vars[n] = val

    def select_value(self, c, a, b, orig, node):
        if a is b:
            return a
        if isinstance(a, np.ndarray) and isinstance(b, np.ndarray) and a.shape == b.shape:
            tgt = orig if isinstance(orig, np.ndarray) and orig.shape == a.shape else np.empty(a.shape, dtype=object)
            for i in np.ndindex(*a.shape):
                tgt[i] = self.select_scalar(c, a[i], b[i])
            return tgt
        if isinstance(a, (E, int, float, IntSym)) and isinstance(b, (E, int, float, IntSym)) \
                and not isinstance(a, bool) and not isinstance(b, bool):
            return self.select_scalar(c, cell(a), cell(b))
        if isinstance(a, dict) and isinstance(b, dict) and set(a) == set(b):
            tgt = orig if isinstance(orig, dict) else {}
            for k in a:
                tgt[k] = self.select_value(c, a[k], b[k], orig.get(k) if isinstance(orig, dict) else None, node)
            return tgt
        if isinstance(a, list) and isinstance(b, list) and len(a) == len(b):
            vals = [self.select_value(c, x, y, orig[i] if isinstance(orig, list) and len(orig) == len(a) else None, node) for i, (x, y) in enumerate(zip(a, b))]
            if isinstance(orig, list) and len(orig) == len(a):
                orig[:] = vals
                return orig
            return vals
        if isinstance(a, Record) and isinstance(b, Record) and a.cls is b.cls:
            tgt = orig if isinstance(orig, Record) else a
            for k in sorted(set(a.attrs) | set(b.attrs), key=str):
                if k not in a.attrs or k not in b.attrs:
                    tgt.attrs[k] = self.opaque(f"attribute {k} set on one branch of a symbolic if", node)
                else:
                    tgt.attrs[k] = self.select_value(c, a.attrs[k], b.attrs[k], tgt.attrs.get(k) if tgt is not a else None, node)
            return tgt
        if keyof(a) == keyof(b):
            return a
        if (a is None) != (b is None) and not isinstance(a, (Opaque, Phi)) and not isinstance(b, (Opaque, Phi)):
            return Phi(c, a, b)
        return self.opaque("join of non-numeric values under a symbolic condition", node)

    def select_scalar(self, c, a, b):
        if a is UNINIT:
            a = alg.sym("<uninit>")
        if b is UNINIT:
            b = alg.sym("<uninit>")
        if isinstance(a, E) and isinstance(b, E):
            if a == b:
                return a
            return alg.Fn("select", c.astuple(), a, b)
        if a is b:
            return a
        from .values import inf_select
        r = inf_select(c, a, b)
        if r is not None:
            return r
        return Opaque("select of non-E cells")

    def learn(self, g):
        """Record path facts from a guard known to hold from here on."""
        if g.kind == "not":
            h = g.args[0]
            if h.kind == "cmp":
                op, a, b = h.args
                if op == "Eq" and isinstance(a, E) and isinstance(b, E):
                    self.facts_nonzero.append((a - b))
                elif op == "between":  # lo < x < hi with lo<0<hi excluded
                    self.facts_nonzero.append(a)
                elif op in _NEGOP and isinstance(a, E) and isinstance(b, E):
                    self.learn(Guard("cmp", _NEGOP[op], a, b))
                    return
            elif h.kind == "all" and h.args[0] == "eqzero":
                self.facts.append(("notallzero", h.args[1]))
            elif h.kind == "and":
                # not(|x_1| <= c_1 and ... and |x_k| <= c_k) with constants c_i >= 0  =>  not all x_i are zero
                cellsv = []
                for part in h.args:
                    if isinstance(part, Guard) and part.kind == "cmp" and part.args[0] in ("LtE", "Lt") and isinstance(part.args[1], E) \
                            and isinstance(part.args[2], E) and part.args[2].is_const() and part.args[2].cval() >= 0:
                        cellsv.append(part.args[1])
                    else:
                        cellsv = None
                        break
                if cellsv:
                    self.facts.append(("notallzero", tuple(cellsv)))
            elif h.kind == "or":
                for x in h.args:
                    self.learn(x.negate() if isinstance(x, Guard) else Guard("not", x))
            self.facts.append(("not", h))
        elif g.kind == "cmp":
            op, a, b = g.args
            if op == "NotEq" and isinstance(a, E) and isinstance(b, E):
                self.facts_nonzero.append(a - b)
            if op in ("Gt", "Lt", "GtE", "LtE") and isinstance(a, E) and isinstance(b, E):
                # |x| > eps style: abs(x) > c>0  => x != 0
                lo, hi = (b, a) if op in ("Gt", "GtE") else (a, b)
                if lo.is_const() and (lo.cval() > 0 or (lo.cval() == 0 and op in ("Gt", "Lt"))):
                    self.facts_nonzero.append(hi)
            self.facts.append(("holds", g))
        elif g.kind == "and":
            for x in g.args:
                if isinstance(x, Guard):
                    self.learn(x)
            self.facts.append(("holds", g))
        else:
            self.facts.append(("holds", g))

    # ------------------------------------------------------------------ assignment
    def assign(self, t, v, env):
        if isinstance(t, ast.Name):
            env.set(t.id, v)
            return
        if isinstance(t, (ast.Tuple, ast.List)):
            vs = self.iterate(v, t)
            star = [i for i, e in enumerate(t.elts) if isinstance(e, ast.Starred)]
            if star:
                i = star[0]
                n_after = len(t.elts) - i - 1
                vs = list(vs)
                parts = vs[:i] + [vs[i: len(vs) - n_after]] + vs[len(vs) - n_after:]
                for tt, vv in zip(t.elts, parts):
                    self.assign(tt.value if isinstance(tt, ast.Starred) else tt, vv, env)
                return
            vs = list(vs)
            if len(vs) != len(t.elts):
                raise RaiseSig(ExcVal("ValueError", args=("unpack length mismatch",), node=t))
            for tt, vv in zip(t.elts, vs):
                self.assign(tt, vv, env)
            return
        if isinstance(t, ast.Attribute):
            obj = self.ev(t.value, env)
            if isinstance(obj, Record):
                self.emit("setattr", (obj, t.attr, v), t, env)
                obj.attrs[t.attr] = v
                return
            if isinstance(obj, FuncVal):
                self.emit("setattr-func", (obj.qualname, t.attr, v), t, env)
                obj.attrs[t.attr] = v
                return
            if isinstance(obj, MaskedArray) and t.attr == "fill_value":
                obj.fill_value = v
                return
            if isinstance(obj, ClassVal):
                self.emit("setattr-class", (obj.qualname, t.attr), t, env)
                obj.class_attrs[t.attr] = ("val", v)
                return
            raise Unsupported(f"attribute store on {obj!r}", t)
        if isinstance(t, ast.Subscript):
            base = self.ev(t.value, env)
            idx = self.index(t.slice, env)
            self.store(base, idx, v, t, env)
            return
        raise Unsupported(f"assignment target {type(t).__name__}", t)

    def store(self, base, idx, v, node, env):
        if isinstance(base, SymArr):
            self.emit("store", (id(base), keyof(idx)), node, env)
            base.mods.append((self.concrete_index(idx, node) if not isinstance(idx, SymIdx) else idx, v))
            return
        if isinstance(base, np.ndarray):
            m = idx[0] if isinstance(idx, tuple) else idx
            if isinstance(m, Mask):
                self.emit("store", (id(base), "mask"), node, env)
                return self.np.masked_store(base, idx, v, node)
            if isinstance(v, (int, float, IntSym, EnumMember)) and not isinstance(v, bool):
                v = cell(v)
            if isinstance(v, (list, tuple)):
                v = mkarr(list(v))
            idx = self.concrete_index(idx, node)
            if isinstance(v, Opaque) and base.dtype == object:
                # havoc: an unmodelled value stored into a numeric array becomes fresh, unconstrained symbols
                tgt = base[idx]
                k = next(self.fresh)
                if isinstance(tgt, np.ndarray):
                    v = np.empty(tgt.shape, dtype=object)
                    for j, i in enumerate(np.ndindex(*tgt.shape)):
                        v[i] = alg.sym(f"havoc{k}[{j}]")
                else:
                    v = alg.sym(f"havoc{k}")
                self.havocs.append((k, v if not isinstance(v, np.ndarray) else v.copy(), self.loc(node, env)))
            self.emit("store", (id(base), keyof(idx) if not isinstance(idx, slice) else str(idx)), node, env)
            try:
                base[idx] = v
            except (IndexError, ValueError) as ex:
                raise RaiseSig(ExcVal(type(ex).__name__, args=(str(ex),), node=node))
            return
        if isinstance(base, dict):
            self.emit("dict-store", (id(base), keyof(idx), "data-keyed" if _data_key(idx) else "constant-keyed"), node, env)
            base[_hashable(idx)] = v
            return
        if isinstance(base, list):
            self.emit("list-store", (id(base), keyof(idx)), node, env)
            try:
                base[self.concrete_index(idx, node)] = v
            except IndexError:
                raise RaiseSig(ExcVal("IndexError", node=node))
            return
        if isinstance(base, Opaque):
            return
        raise Unsupported(f"subscript store on {type(base).__name__}", node)

    def concrete_index(self, idx, node=None):
        if isinstance(idx, tuple):
            return tuple(self.concrete_index(i, node) for i in idx)
        if isinstance(idx, E):
            if idx.is_int():
                return int(idx.cval())
            raise Unsupported("symbolic array index", node)
        if isinstance(idx, (IntSym, EnumMember)):
            return idx.__index__()
        if isinstance(idx, list):
            return [self.concrete_index(i, node) for i in idx]
        if isinstance(idx, np.ndarray):
            if idx.size and all(isinstance(i, (bool, np.bool_)) for i in idx.flat):
                return np.array([bool(i) for i in idx.flat], dtype=bool).reshape(idx.shape)   # boolean mask, not integer positions
            return np.array([self.concrete_index(i, node) for i in idx.flat], dtype=int).reshape(idx.shape)
        return idx

    def index(self, sl, env):
        if isinstance(sl, ast.Tuple):
            return tuple(self.index(e, env) for e in sl.elts)
        if isinstance(sl, ast.Slice):
            def b(x):
                if x is None:
                    return None
                v = self.ev(x, env)
                v = self.concrete_index(v, x)
                return v
            return slice(b(sl.lower), b(sl.upper), b(sl.step))
        return self.ev(sl, env)

    # ------------------------------------------------------------------ expressions
    def ev(self, n, env):
        m = getattr(self, "ex_" + type(n).__name__, None)
        if m is None:
            raise Unsupported(f"expression {type(n).__name__}", n)
        return m(n, env)

    def ex_Constant(self, n, env):
        v = n.value
        if isinstance(v, float):
            return lift(v)
        if v is Ellipsis:
            return Ellipsis
        if isinstance(v, complex):
            return v
        return v

    def ex_Name(self, n, env):
        if n.id in env.globals:
            try:
                return self.module_global(env.module, n.id)
            except KeyError:
                raise RaiseSig(ExcVal("NameError", args=(n.id,), node=n))
        try:
            return env.lookup(n.id)
        except KeyError:
            pass
        try:
            return self.module_global(env.module, n.id)
        except KeyError:
            pass
        return self.np.builtin(n.id, n)

    def ex_Tuple(self, n, env):
        return tuple(self._elts(n.elts, env))

    def ex_List(self, n, env):
        return list(self._elts(n.elts, env))

    def ex_Set(self, n, env):
        return set(_hashable(x) for x in self._elts(n.elts, env))

    def _elts(self, elts, env):
        out = []
        for e in elts:
            if isinstance(e, ast.Starred):
                out.extend(self.iterate(self.ev(e.value, env), e))
            else:
                out.append(self.ev(e, env))
        return out

    def ex_Dict(self, n, env):
        d = {}
        for k, v in zip(n.keys, n.values):
            if k is None:
                d.update(self.ev(v, env))
            else:
                d[_hashable(self.ev(k, env))] = self.ev(v, env)
        return d

    def ex_JoinedStr(self, n, env):
        parts = []
        for v in n.values:
            if isinstance(v, ast.Constant):
                parts.append(str(v.value))
            else:
                try:
                    x = self.ev(v.value, env)
                except (Unsupported, RaiseSig):
                    raise
                parts.append(_fmt(x))
        return "".join(parts)

    def ex_Lambda(self, n, env):
        return FuncVal(env.module, n, closure=env, qualname=(env.func.qualname if env.func else env.module.name) + ".<lambda>")

    def ex_IfExp(self, n, env):
        c = self.truth(self.ev(n.test, env))
        if c is True:
            return self.ev(n.body, env)
        if c is False:
            return self.ev(n.orelse, env)
        if isinstance(c, Guard):
            a, b = self.ev(n.body, env), self.ev(n.orelse, env)
            return self.select_value(c, a, b, None, n)
        raise Unsupported("conditional expression on opaque", n)

    def ex_NamedExpr(self, n, env):
        v = self.ev(n.value, env)
        self.assign(n.target, v, env)
        return v

    def ex_Starred(self, n, env):
        raise Unsupported("starred expression", n)

    def ex_BinOp(self, n, env):
        return self.binop(n.op, self.ev(n.left, env), self.ev(n.right, env), n, env)

    def ex_UnaryOp(self, n, env):
        v = self.ev(n.operand, env)
        if isinstance(n.op, ast.Not):
            t = self.truth(v)
            if isinstance(t, Guard):
                return t.negate()
            if isinstance(t, Opaque):
                return t
            return not t
        if isinstance(v, Opaque):
            return v
        if isinstance(n.op, ast.USub):
            if isinstance(v, Inf):
                raise Unsupported("-inf", n)
            return -v
        if isinstance(n.op, ast.UAdd):
            return v
        if isinstance(n.op, ast.Invert):
            if isinstance(v, Mask):
                return Mask([c.negate() for c in v.conds])
            if isinstance(v, np.ndarray) and v.size and all(isinstance(c, (bool, np.bool_)) for c in v.flat):
                r_ = np.empty(v.shape, dtype=object)
                for i_ in np.ndindex(*v.shape):
                    r_[i_] = not bool(v[i_])
                return r_
            if isinstance(v, Guard):
                return v.negate()
            if isinstance(v, bool):
                return not v
            if isinstance(v, int):
                return ~v
        raise Unsupported("unary op", n)

    def ex_BoolOp(self, n, env):
        is_and = isinstance(n.op, ast.And)
        acc = []
        last = None
        for vn in n.values:
            v = self.ev(vn, env)
            t = self.truth(v)
            last = v
            if isinstance(t, Guard):
                acc.append(t)
                continue
            if isinstance(t, Opaque):
                return t
            if is_and and not t:
                return v
            if not is_and and t:
                if acc:
                    return Guard("or", *acc, Guard("const", True)) if False else v
                return v
        if acc:
            if len(acc) == 1:
                return acc[0]
            return Guard("and" if is_and else "or", *acc)
        return last

    def ex_Compare(self, n, env):
        vals = [self.ev(n.left, env)] + [self.ev(c, env) for c in n.comparators]
        # lo < x < hi on a symbolic x with constants straddling zero: "between"
        if len(n.ops) == 2 and all(isinstance(o, (ast.Lt, ast.LtE)) for o in n.ops):
            lo, x, hi = vals
            if isinstance(x, E) and not x.is_const() and _is_num(lo) and _is_num(hi):
                lo, hi = lift(cell(lo)), lift(cell(hi))
                if lo.is_const() and hi.is_const() and lo.cval() < 0 < hi.cval():
                    return Guard("cmp", "between", x, (lo, hi))
        res = []
        for a, op, b in zip(vals, n.ops, vals[1:]):
            r = self.compare1(op, a, b, n)
            if r is False:
                return False
            if r is True:
                continue
            res.append(r)
        if not res:
            return True
        if len(res) == 1:
            return res[0]
        if all(isinstance(r, Guard) for r in res):
            return Guard("and", *res)
        raise Unsupported("chained comparison of arrays", n)

    def compare1(self, op, a, b, node=None):
        name = type(op).__name__
        # int(x) of a symbolic scalar compared with something: the truncation of x
        if isinstance(a, Opaque) and isinstance(getattr(a, "src", None), E) and a.reason.startswith("int()") and not isinstance(b, Opaque):
            a = alg.Fn("int", a.src)
        if isinstance(b, Opaque) and isinstance(getattr(b, "src", None), E) and b.reason.startswith("int()") and not isinstance(a, Opaque):
            b = alg.Fn("int", b.src)
        if isinstance(a, Opaque) or isinstance(b, Opaque):
            return a if isinstance(a, Opaque) else b
        if name in ("Is", "IsNot") and (isinstance(a, Phi) and b is None or isinstance(b, Phi) and a is None):
            ph = a if isinstance(a, Phi) else b
            g = ph.cond if ph.a is None else ph.cond.negate()       # "is None"
            return g if name == "Is" else g.negate()
        if name in ("Is", "IsNot"):
            r = (a is b) or (isinstance(a, EnumMember) and isinstance(b, EnumMember) and a == b and a.cls is b.cls)
            if a is None or b is None:
                r = a is b

            def tyname(x):
                if isinstance(x, type):
                    return "builtins." + x.__name__
                return x.path if isinstance(x, ExtRef) and x.path.startswith("builtins.") else None
            if not r and tyname(a) is not None and tyname(a) == tyname(b):
                r = True
            return r if name == "Is" else not r
        if name in ("In", "NotIn"):
            r = self.contains(b, a, node)
            if isinstance(r, (Guard, Opaque)):
                return r if name == "In" else (r.negate() if isinstance(r, Guard) else r)
            return r if name == "In" else not r
        if isinstance(a, np.ndarray) or isinstance(b, np.ndarray):
            return self.np.compare_arrays(name, a, b, node)
        if isinstance(a, IntSym) and isinstance(b, (int, IntSym)) or isinstance(b, IntSym) and isinstance(a, int):
            a, b = int(a), int(b)
        if isinstance(a, (E, IntSym, Inf)) or isinstance(b, (E, IntSym, Inf)):
            if isinstance(a, (str, type(None), tuple, list, dict)) or isinstance(b, (str, type(None), tuple, list, dict)):
                return name == "NotEq"
            if isinstance(a, EnumMember):
                a = a.value
            if isinstance(b, EnumMember):
                b = b.value
            if isinstance(a, Inf) or isinstance(b, Inf):
                if isinstance(a, Inf) and isinstance(b, Inf):
                    return name in ("Eq", "LtE", "GtE")
                other = b if isinstance(a, Inf) else a
                other = cell(other)
                if isinstance(other, E) and other.is_const():
                    lt = isinstance(b, Inf)  # a < inf
                    return {"Eq": False, "NotEq": True, "Lt": lt, "LtE": lt, "Gt": not lt, "GtE": not lt}[name]
                return Guard("cmp", name, a, b)
            ea, eb = cell(a), cell(b)
            if ea.is_const() and eb.is_const():
                x, y = ea.cval(), eb.cval()
                return {"Eq": x == y, "NotEq": x != y, "Lt": x < y, "LtE": x <= y, "Gt": x > y, "GtE": x >= y}[name]
            if ea == _NAN or eb == _NAN:
                return name == "NotEq"     # IEEE: every other comparison with NaN is false
            if name == "Eq" and ea == eb:
                return True
            if name == "NotEq" and ea == eb:
                return False
            if self.model is not None:
                if ea == eb:
                    return name in ("LtE", "GtE")
                r = self.model_compare(name, ea, eb)
                if r is not None:
                    return r
            r = self._sign_compare(name, ea, eb)
            if r is not None:
                return r
            # two CLOSED forms (constants built from pi, roots, trigonometric functions of constants ...): the comparison is a constant of the
            # program and is folded, unless the two values are too close for floating point to tell them apart
            try:
                x, y = alg.evalnum(ea), alg.evalnum(eb)
                if x == x and y == y and abs(x - y) > 1e-9 * max(1.0, abs(x), abs(y)):
                    return {"Eq": False, "NotEq": True, "Lt": x < y, "LtE": x < y, "Gt": x > y, "GtE": x > y}[name]
            except (alg.AlgError, ZeroDivisionError, OverflowError, ValueError):
                pass
            return Guard("cmp", name, ea, eb)
        try:
            if name == "Eq":
                return _pyeq(a, b)
            if name == "NotEq":
                return not _pyeq(a, b)
            if name == "Lt":
                return a < b
            if name == "LtE":
                return a <= b
            if name == "Gt":
                return a > b
            if name == "GtE":
                return a >= b
        except TypeError:
            raise RaiseSig(ExcVal("TypeError", args=(f"comparison {name} of {type(a).__name__} and {type(b).__name__}",), node=node))
        raise Unsupported(f"comparison {name}", node)

    def _sign_compare(self, name, ea, eb):
        """x <op> 0 for a monomial x of non-negative atoms with a positive coefficient: x >= 0 always; x > 0 when x is known non-zero on this path."""
        flip = {"Lt": "Gt", "LtE": "GtE", "Gt": "Lt", "GtE": "LtE", "Eq": "Eq", "NotEq": "NotEq"}
        if ea == ZERO and eb != ZERO:
            ea, eb, name = eb, ea, flip[name]
        if eb != ZERO or not ea.is_monomial():
            return None
        ((m, c),) = ea.t.items()
        if not (c > 0 and m and all(a.pos for a, e_ in m)):
            return None
        if name == "GtE":
            return True
        if name == "Lt":
            return False
        if any(f == ea for f in self.facts_nonzero) or all(any(f == E.atom(a) for f in self.facts_nonzero) for a, e_ in m):
            return {"Gt": True, "LtE": False, "Eq": False, "NotEq": True}[name]
        return None

    def contains(self, container, item, node=None):
        if isinstance(container, Opaque):
            return container
        if isinstance(container, dict):
            if isinstance(item, Opaque):
                return item
            h = _hashable(item)
            if h in container:
                return True
            gs = [m for m in (_key_match(k, h) for k in container) if isinstance(m, Guard)]
            if gs:
                # a key with data-dependent parts: it is present exactly when those parts equal the ones of a stored key
                return gs[0] if len(gs) == 1 else Guard("or", *gs)
            return False
        if isinstance(container, (list, tuple, set, frozenset)):
            for x in container:
                r = _pyeq(x, item)
                if r is True:
                    return True
            return False
        if isinstance(container, str):
            if isinstance(item, str):
                return item in container
            raise RaiseSig(ExcVal("TypeError", args=("'in <string>' requires string as left operand",), node=node))
        if isinstance(container, Record) and container.cls is None:
            return _hashable(item) in container.attrs
        raise Unsupported(f"'in' on {type(container).__name__}", node)

    def truth(self, v):
        if isinstance(v, (Guard, Opaque)):
            return v
        if isinstance(v, bool):
            return v
        if isinstance(v, np.bool_):
            return bool(v)
        if v is None:
            return False
        if isinstance(v, E):
            if v.is_const():
                return v.cval() != 0
            return Guard("cmp", "NotEq", v, ZERO)
        if isinstance(v, IntSym):
            return v.value != 0
        if isinstance(v, (int, str, tuple, list, dict, set)):
            return bool(v)
        if isinstance(v, np.ndarray):
            if v.size == 1:
                return self.truth(v.flat[0])
            raise Unsupported("truth value of an array")
        if isinstance(v, EnumMember):
            return bool(v.value)
        return True

    def binop(self, op, a, b, node=None, env=None):
        # int(x) of a symbolic scalar used in arithmetic: the truncation of x, as an uninterpreted (numerically evaluable) function
        if isinstance(b, Opaque) and isinstance(getattr(b, "src", None), E) and not isinstance(a, Opaque) and b.reason.startswith("int()"):
            b = alg.Fn("int", b.src)
        if isinstance(a, Opaque) and isinstance(getattr(a, "src", None), E) and not isinstance(b, Opaque) and a.reason.startswith("int()"):
            a = alg.Fn("int", a.src)
        if isinstance(a, Opaque) or isinstance(b, Opaque):
            return a if isinstance(a, Opaque) else b
        name = type(op).__name__
        if isinstance(a, EnumMember) and a.is_int:
            a = a.value
        if isinstance(b, EnumMember) and b.is_int:
            b = b.value
        if isinstance(a, (str, list, tuple)) or isinstance(b, (str, list, tuple)):
            if name == "Add" and type(a) is type(b):
                return a + b
            if name == "Mult" and isinstance(a, (str, list, tuple)) and isinstance(b, int):
                return a * b
            if name == "Mult" and isinstance(b, (str, list, tuple)) and isinstance(a, int):
                return a * b
            if name == "Mod" and isinstance(a, str):
                return a
            if name == "Add" and (isinstance(a, str) or isinstance(b, str)):
                raise RaiseSig(ExcVal("TypeError", args=(f"can only concatenate str (not {type(b).__name__}) to str",), node=node))
            if isinstance(a, (list, tuple)) and isinstance(b, np.ndarray) or isinstance(b, (list, tuple)) and isinstance(a, np.ndarray):
                a = mkarr(list(a)) if isinstance(a, (list, tuple)) else a
                b = mkarr(list(b)) if isinstance(b, (list, tuple)) else b
            else:
                raise RaiseSig(ExcVal("TypeError", args=(f"unsupported operand types for {name}",), node=node))
        if isinstance(a, set) and isinstance(b, set):
            if name == "Sub":
                return a - b
            if name == "BitOr":
                return a | b
            if name == "BitAnd":
                return a & b
        if name == "BitOr" and (isinstance(a, ExtRef) or isinstance(b, ExtRef) or isinstance(a, type) or isinstance(b, type)
                                or isinstance(a, ClassVal) or isinstance(b, ClassVal) or a is None or b is None):
            return ("union", a, b)
        if isinstance(a, tuple) and a and a[0] == "union" and name == "BitOr":
            return ("union", a, b)
        both_int = isinstance(a, (int, IntSym)) and isinstance(b, (int, IntSym))
        if both_int and name != "Div":
            if isinstance(a, IntSym) or isinstance(b, IntSym):
                if name == "Add":
                    return a + b
                if name == "Sub":
                    return a - b if isinstance(a, IntSym) else b.__rsub__(a)
                if name == "Mult":
                    return a * b
                a, b = int(a), int(b)
            try:
                if name == "Add":
                    return a + b
                if name == "Sub":
                    return a - b
                if name == "Mult":
                    return a * b
                if name == "Mod":
                    return a % b
                if name == "FloorDiv":
                    return a // b
                if name == "Pow":
                    return a ** b if b >= 0 else lift(a) ** b
                if name == "BitAnd":
                    return a & b
                if name == "BitOr":
                    return a | b
                if name == "LShift":
                    return a << b
                if name == "RShift":
                    return a >> b
            except ZeroDivisionError:
                raise RaiseSig(ExcVal("ZeroDivisionError", node=node))
        if name in ("BitAnd", "BitOr", "BitXor") and (isinstance(a, (Mask, Guard, np.ndarray)) or isinstance(b, (Mask, Guard, np.ndarray))):
            def is_boolish(v):
                return isinstance(v, (Mask, Guard, bool, np.bool_)) or (isinstance(v, np.ndarray) and v.size and all(isinstance(x, (Guard, bool, np.bool_)) for x in v.flat))
            if is_boolish(a) and is_boolish(b) and name != "BitXor":
                # boolean arrays / symbolic booleans combined with & | : the logical connectives
                return self.np.np_logical_and(a, b) if name == "BitAnd" else self.np.np_logical_or(a, b)
            if isinstance(a, (np.ndarray, bool, int, E)) and isinstance(b, (np.ndarray, bool, int, E)):
                aa, bb = np.broadcast_arrays(np.asarray(a, dtype=object), np.asarray(b, dtype=object))
                out = np.empty(aa.shape, dtype=object)
                allbool = True
                for i in np.ndindex(*aa.shape):
                    x, y = aa[i], bb[i]
                    bx, by = isinstance(x, (bool, np.bool_)), isinstance(y, (bool, np.bool_))
                    xi = int(x) if bx or isinstance(x, int) else (int(cell(x).cval()) if isinstance(cell(x), E) and cell(x).is_int() else None)
                    yi = int(y) if by or isinstance(y, int) else (int(cell(y).cval()) if isinstance(cell(y), E) and cell(y).is_int() else None)
                    if xi is None or yi is None:
                        raise Unsupported(f"{name} of symbolic array cells", node)
                    r_ = xi & yi if name == "BitAnd" else xi | yi if name == "BitOr" else xi ^ yi
                    if bx and by:
                        out[i] = bool(r_)
                    else:
                        allbool = False
                        out[i] = lift(r_)
                return out if out.shape else out.item()
        if isinstance(a, MaskLoad) or isinstance(b, MaskLoad):
            # elementwise arithmetic on rows selected by a data-dependent mask: operate on every row, keep the mask
            ma, mb = (a if isinstance(a, MaskLoad) else None), (b if isinstance(b, MaskLoad) else None)
            if ma is not None and mb is not None and keyof(ma.mask) != keyof(mb.mask):
                raise Unsupported("arithmetic on selections under different data-dependent masks", node)
            for x in (a, b):
                if isinstance(x, np.ndarray) and x.ndim > 0:
                    raise Unsupported("a dense array combined with a data-dependent selection (lengths depend on the data)", node)
            return MaskLoad(self.binop(op, ma.base if ma is not None else a, mb.base if mb is not None else b, node, env), (ma or mb).mask)
        if isinstance(a, MaskedArray) or isinstance(b, MaskedArray):
            return self.np.masked_binop(name, a, b, node)
        if isinstance(a, complex) or isinstance(b, complex):
            if name == "Mult":
                # gridsteps * 1j: keep as a tagged complex step count
                return ("cstep", a if not isinstance(a, complex) else b)
        if isinstance(a, (int, float, IntSym)) and not isinstance(a, bool) or isinstance(a, bool):
            a = cell(a) if not isinstance(a, IntSym) else a.expr
        if isinstance(b, (int, float, IntSym)) and not isinstance(b, bool) or isinstance(b, bool):
            b = cell(b) if not isinstance(b, IntSym) else b.expr
        try:
            if name == "Add":
                return a + b
            if name == "Sub":
                return a - b
            if name == "Mult":
                return a * b
            if name == "Div":
                self.note_division(b, node, env)
                return a / b
            if name == "Pow":
                return self.power(a, b, node)
            if name == "MatMult":
                return self.np.matmul(a, b, node)
            if name in ("Mod", "FloorDiv"):
                if isinstance(a, E) and isinstance(b, E) and a.is_int() and b.is_int():
                    return int(a.cval()) % int(b.cval()) if name == "Mod" else int(a.cval()) // int(b.cval())
                if isinstance(a, np.ndarray) or isinstance(b, np.ndarray):
                    aa, bb = np.broadcast_arrays(np.asarray(a, dtype=object), np.asarray(b, dtype=object))
                    out = np.empty(aa.shape, dtype=object)
                    for i in np.ndindex(*aa.shape):
                        x, y = lift(cell(aa[i])), lift(cell(bb[i]))
                        if x.is_int() and y.is_int():
                            out[i] = lift(int(x.cval()) % int(y.cval()) if name == "Mod" else int(x.cval()) // int(y.cval()))
                        else:
                            out[i] = self.real_mod(name, x, y, node)
                    return out
                if isinstance(a, E) and isinstance(b, E):
                    return self.real_mod(name, a, b, node)
        except ZeroDivisionError:
            self.emit("zerodiv", (keyof(b),), node, env)
            raise RaiseSig(ExcVal("ZeroDivisionError", node=node))
        raise Unsupported(f"binary op {name} on {type(a).__name__}, {type(b).__name__}", node)

    def real_mod(self, name, x, y, node):
        """x // y and x % y over the reals for a divisor of known sign: floor(x / y) and x - y*floor(x / y) (the sign of the result follows
        the divisor, as in Python and NumPy); the floor is an interpreted atom with its jumps at the integers"""
        if y.is_const() and y.cval() == 0:
            raise ZeroDivisionError
        q = alg.Fn("floor", x / y)
        return q if name == "FloorDiv" else x - y * q

    def power(self, a, b, node):
        if isinstance(a, np.ndarray) or isinstance(b, np.ndarray):
            if isinstance(b, np.ndarray):
                raise Unsupported("array exponent", node)
            out = np.empty(a.shape, dtype=object)
            for i in np.ndindex(*a.shape):
                out[i] = self.power(a[i], b, node)
            return out
        if isinstance(a, Inf):
            raise Unsupported("inf ** x", node)
        return lift(a) ** b

    def note_division(self, den, node, env):
        if node is None:
            return
        self.divisions.append((den, self.loc(node, env), self.curfunc(), list(self.facts_nonzero), list(self.facts)))

    def ex_Subscript(self, n, env):
        base = self.ev(n.value, env)
        if isinstance(base, ExtRef) and base.path == "numpy.mgrid":
            return self._mgrid(n, env)
        idx = self.index(n.slice, env)
        return self.subscript(base, idx, n)

    def _mgrid(self, n, env):
        """np.mgrid[a:b:k*1j, ...]: k evenly spaced points from a to b inclusive along each axis (exact values)."""
        sls = n.slice.elts if isinstance(n.slice, ast.Tuple) else [n.slice]
        axes = []
        for sl in sls:
            if not (isinstance(sl, ast.Slice) and sl.lower is not None and sl.upper is not None and sl.step is not None):
                raise Unsupported("np.mgrid without explicit start:stop:step", n)
            lo, hi = lift(cell(self.ev(sl.lower, env))), lift(cell(self.ev(sl.upper, env)))
            st = sl.step
            cnt = None
            if isinstance(st, ast.BinOp) and isinstance(st.op, ast.Mult):
                for a, b in ((st.left, st.right), (st.right, st.left)):
                    if isinstance(b, ast.Constant) and isinstance(b.value, complex) and b.value == 1j:
                        v = self.ev(a, env)
                        v = cell(v) if not isinstance(v, (int, IntSym)) else v
                        cnt = int(v.cval()) if isinstance(v, E) and v.is_int() else (int(v) if isinstance(v, int) else None)
            if cnt is None or cnt < 1:
                raise Unsupported("np.mgrid step that is not <count>*1j with a concrete count", n)
            axes.append([lo if cnt == 1 else lo + (hi - lo) * alg.Fr(k, cnt - 1) for k in range(cnt)])
        shape = tuple(len(a) for a in axes)
        out = np.empty((len(axes),) + shape, dtype=object)
        for idx in np.ndindex(*shape):
            for d in range(len(axes)):
                out[(d,) + idx] = axes[d][idx[d]]
        return out if len(axes) > 1 else out[0]

    def subscript(self, base, idx, n=None):
        if isinstance(base, Opaque):
            return base
        if isinstance(idx, Opaque) or (isinstance(idx, tuple) and any(isinstance(i, Opaque) for i in idx)):
            if isinstance(base, np.ndarray) and base.dtype == object:
                # data-dependent selection from a known array: the result has a known shape but unknown content -> havoc
                probe = tuple(0 if isinstance(i, Opaque) else i for i in idx) if isinstance(idx, tuple) else 0
                try:
                    shp = np.shape(base[self.concrete_index(probe, n)])
                except Exception:
                    return self.opaque("subscript with a data-dependent (opaque) index", n)
                k = next(self.fresh)
                if shp == ():
                    v = alg.sym(f"havoc{k}")
                else:
                    v = np.empty(shp, dtype=object)
                    for j, i in enumerate(np.ndindex(*shp)):
                        v[i] = alg.sym(f"havoc{k}[{j}]")
                self.havocs.append((k, v if not isinstance(v, np.ndarray) else v.copy(), self.loc(n) if n is not None else "", base, idx))
                return v
            return self.opaque("subscript with a data-dependent (opaque) index", n)
        if isinstance(idx, slice) and any(isinstance(b_, SymIdx) for b_ in (idx.start, idx.stop, idx.step)) and isinstance(base, (np.ndarray, SymArr)):
            # a slice whose bounds depend on the data: an array of data-dependent length
            snap = base
            if isinstance(base, SymArr):
                snap = SymArr(base.op, base.args)
                snap.mods = list(base.mods)
            return SymArr("slice", (snap, idx.start, idx.stop, idx.step))
        if isinstance(idx, SymIdx) and isinstance(base, SymIdx):
            return SymIdx("compose", (base, idx))
        if isinstance(idx, SymIdx) and isinstance(base, (np.ndarray, SymArr)):
            return SymArr("take", (base if isinstance(base, SymArr) else base, idx))
        if isinstance(base, MaskLoad):
            raise Unsupported("subscript of rows selected by a data-dependent mask", n)
        if isinstance(base, SymArr):
            return SymArr("item", (base, self.concrete_index(idx, n)))
        if isinstance(base, np.ndarray):
            m = idx[0] if isinstance(idx, tuple) else idx
            if isinstance(m, Mask):
                return self.np.masked_load(base, idx, n)
            idx = self.concrete_index(idx, n)
            try:
                return base[idx]
            except IndexError as ex:
                raise RaiseSig(ExcVal("IndexError", args=(str(ex),), node=n))
        if isinstance(base, (list, tuple, str)):
            idx = self.concrete_index(idx, n)
            if isinstance(idx, (tuple,)):
                raise RaiseSig(ExcVal("TypeError", args=("list indices must be integers or slices, not tuple",), node=n))
            try:
                return base[idx]
            except IndexError:
                raise RaiseSig(ExcVal("IndexError", node=n))
            except TypeError as ex:
                raise RaiseSig(ExcVal("TypeError", args=(str(ex),), node=n))
        if isinstance(base, dict):
            if isinstance(idx, Opaque):
                return idx
            k = _hashable(idx)
            if k in base:
                return base[k]
            cands = [kk for kk in base if isinstance(_key_match(kk, k), Guard)]
            if cands:
                # reached only on a path where the data-dependent parts of the key were found equal to those of a stored key
                return base[cands[-1]]
            raise RaiseSig(ExcVal("KeyError", args=(idx,), node=n))
        if isinstance(base, Record) and base.cls is None:
            k = _hashable(idx)
            if k in base.attrs:
                return base.attrs[k]
            raise RaiseSig(ExcVal("KeyError", args=(idx,), node=n))
        if isinstance(base, MaskedArray):
            raise Unsupported("subscript of masked array", n)
        if isinstance(base, (ExtRef, type, ClassVal)):
            return base  # typing subscripts: list[Mineral]
        if isinstance(base, Native) or isinstance(base, FuncVal):
            raise RaiseSig(ExcVal("TypeError", args=("object is not subscriptable",), node=n))
        raise Unsupported(f"subscript of {type(base).__name__}", n)

    def ex_Attribute(self, n, env):
        base = self.ev(n.value, env)
        return self.getattr(base, n.attr, n)

    def getattr(self, base, attr, n=None):
        if isinstance(base, Opaque):
            return base
        if isinstance(base, ModuleRef):
            if base.module.name == "pydrex.logger":
                return Native("log." + attr, lambda I_, *a, **k: None)  # logging is effect-free for every property
            try:
                return self.module_global(base.module, attr)
            except KeyError:
                raise RaiseSig(ExcVal("AttributeError", args=(attr,), node=n))
        if isinstance(base, ExtRef):
            return self.np.ext_attr(base, attr, n)
        if isinstance(base, Record):
            if attr == "files" and base.attrs_files is not None:
                return list(base.attrs_files)
            if attr in base.attrs:
                return base.attrs[attr]
            if attr in base.native_methods:
                return base.native_methods[attr]
            if base.cls is not None:
                if attr == "__class__":
                    return base.cls
                if attr == "__dataclass_fields__":
                    return {f[0]: self.field_record(f) for f in self.dataclass_fields(base.cls)}
                try:
                    v = self.class_attr(base.cls, attr)
                except KeyError:
                    raise RaiseSig(ExcVal("AttributeError", args=(attr,), node=n))
                if isinstance(v, FuncVal):
                    if any((_dotted(d) or "").endswith("classmethod") for d in v.decorators):
                        return BoundMethod(base.cls, v)
                    if any((_dotted(d) or "").endswith("staticmethod") for d in v.decorators):
                        return v
                    return BoundMethod(base, v)
                return v
            if "_fields" not in base.attrs and getattr(base, "label", None):
                # a stand-in for a library object (archive, file handle, generator ...): an attribute the stand-in lacks is a gap of the
                # model, not an AttributeError of the program
                raise Unsupported(f"attribute '{attr}' of the model of a {base.label} object", n)
            raise RaiseSig(ExcVal("AttributeError", args=(attr,), node=n))
        if isinstance(base, ClassVal):
            if attr == "__qualname__" or attr == "__name__":
                return base.name
            try:
                v = self.class_attr(base, attr)
            except KeyError:
                raise RaiseSig(ExcVal("AttributeError", args=(attr,), node=n))
            if isinstance(v, FuncVal) and any((_dotted(d) or "").endswith("classmethod") for d in v.decorators):
                return BoundMethod(base, v)
            return v
        if type(base).__name__ == "CallableType":
            if attr in ("__qualname__", "__name__"):
                return base.name
        if isinstance(base, EnumMember):
            if attr == "value":
                return base.value
            if attr == "name":
                return base.name
        if isinstance(base, FuncVal):
            if attr in ("__name__", "__qualname__"):
                return base.name
            if attr in base.attrs:
                return base.attrs[attr]
        if isinstance(base, ExcVal):
            if attr == "args":
                return base.args
        return self.np.value_attr(base, attr, n)

    def ex_Call(self, n, env):
        f = self.ev(n.func, env)
        args = []
        for a in n.args:
            if isinstance(a, ast.Starred):
                args.extend(self.iterate(self.ev(a.value, env), a))
            else:
                args.append(self.ev(a, env))
        kwargs = {}
        for k in n.keywords:
            if k.arg is None:
                d = self.ev(k.value, env)
                if isinstance(d, dict):
                    kwargs.update(d)
                else:
                    raise Unsupported("** of non-dict", n)
            else:
                kwargs[k.arg] = self.ev(k.value, env)
        return self.call(f, tuple(args), kwargs, n)

    def _comp(self, n, env, emit):
        cenv = Env(env.module, parent=env, func=env.func)

        def rec(i):
            if i == len(n.generators):
                emit(cenv)
                return
            g = n.generators[i]
            for x in self.iterate(self.ev(g.iter, cenv), g):
                self.assign(g.target, x, cenv)
                ok = True
                for cnd in g.ifs:
                    t = self.truth(self.ev(cnd, cenv))
                    if isinstance(t, (Guard, Opaque)):
                        raise Unsupported("symbolic comprehension filter", n)
                    if not t:
                        ok = False
                        break
                if ok:
                    rec(i + 1)
        rec(0)

    def ex_ListComp(self, n, env):
        out = []
        self._comp(n, env, lambda e: out.append(self.ev(n.elt, e)))
        return out

    def ex_GeneratorExp(self, n, env):
        from .values import GenList
        return GenList(self.ex_ListComp(n, env))

    def ex_SetComp(self, n, env):
        out = set()
        self._comp(n, env, lambda e: out.add(_hashable(self.ev(n.elt, e))))
        return out

    def ex_DictComp(self, n, env):
        out = {}
        self._comp(n, env, lambda e: out.__setitem__(_hashable(self.ev(n.key, e)), self.ev(n.value, e)))
        return out

    def iterate(self, v, node=None):
        if isinstance(v, (list, tuple, range, set, frozenset, str)):
            return list(v)
        if isinstance(v, dict):
            return list(v.keys())
        if isinstance(v, np.ndarray):
            return [v[i] for i in range(v.shape[0])]
        if isinstance(v, ClassVal) and v.kind in ("enum", "intenum"):
            return list(v.members.values())
        if isinstance(v, Record):
            it = v.cls.find_method("__iter__") if v.cls is not None else None
            if it is not None:
                return self.call_function(it, (v,), {}, node)
        if isinstance(v, Opaque):
            raise Unsupported(f"iteration over opaque value ({v.reason})", node)
        if hasattr(v, "__iter__") and not isinstance(v, (E,)):
            return list(v)
        raise Unsupported(f"iteration over {type(v).__name__}", node)


_PENDING = object()
_NAN = alg.sym("nan")
_NEGOP = {"Lt": "GtE", "LtE": "Gt", "Gt": "LtE", "GtE": "Lt", "NotEq": "Eq"}


def _dotted(n):
    if isinstance(n, ast.Name):
        return n.id
    if isinstance(n, ast.Attribute):
        b = _dotted(n.value)
        return b + "." + n.attr if b else None
    if isinstance(n, ast.Call):
        return _dotted(n.func)
    return None


def _data_key(k, depth=0):
    """does a dictionary key carry data of the call (a symbolic scalar, an array, an abstract record) rather than constants of the program?"""
    if isinstance(k, (tuple, list)) and depth < 6:
        return any(_data_key(x, depth + 1) for x in k)
    if isinstance(k, E):
        return not k.is_const()
    return isinstance(k, (np.ndarray, Record, IntSym))


def _is_generator(fn):
    """a yield in the function's own body (not in a nested def, lambda or class)"""
    todo = list(fn.body)
    while todo:
        node = todo.pop()
        if isinstance(node, (ast.Yield, ast.YieldFrom)):
            return True
        if isinstance(node, (ast.FunctionDef, ast.AsyncFunctionDef, ast.Lambda, ast.ClassDef)):
            continue
        todo.extend(ast.iter_child_nodes(node))
    return False


def _always_exits(body):
    if not body:
        return False
    last = body[-1]
    if isinstance(last, (ast.Return, ast.Raise)):
        return True
    if isinstance(last, ast.If):
        return _always_exits(last.body) and _always_exits(last.orelse)
    if isinstance(last, ast.Assert) and isinstance(last.test, ast.Constant) and last.test.value is False:
        return True
    return False


def _fork_value(v, memo):
    if isinstance(v, np.ndarray):
        k = id(v)
        if k not in memo:
            memo[k] = v.copy()
        return memo[k]
    if isinstance(v, list):
        k = id(v)
        if k not in memo:
            memo[k] = [_fork_value(x, memo) for x in v]
        return memo[k]
    if isinstance(v, dict):
        k = id(v)
        if k not in memo:
            memo[k] = {a: _fork_value(b, memo) for a, b in v.items()}
        return memo[k]
    if isinstance(v, Record):
        k = id(v)
        if k not in memo:
            r = Record(v.cls, {}, label=v.label)
            memo[k] = r
            r.native_methods = v.native_methods
            r.attrs_files = v.attrs_files
            r.attrs = {a: _fork_value(b, memo) for a, b in v.attrs.items()}
        return memo[k]
    return v


def _hashable(v):
    if isinstance(v, E):
        if v.is_int():
            return int(v.cval())
        return v
    if isinstance(v, IntSym):
        return v.value
    if isinstance(v, list):
        return tuple(_hashable(x) for x in v)
    if isinstance(v, tuple):
        return tuple(_hashable(x) for x in v)
    return v


def _key_match(stored, item):
    """True: same key.  None: different keys whatever the data.  Guard: the same key exactly when their data-dependent parts are equal."""
    if isinstance(stored, tuple) and isinstance(item, tuple):
        if len(stored) != len(item):
            return None
        gs = []
        for x, y in zip(stored, item):
            m = _key_match(x, y)
            if m is None:
                return None
            if isinstance(m, Guard):
                gs.append(m)
        if not gs:
            return True
        return gs[0] if len(gs) == 1 else Guard("and", *gs)
    if isinstance(stored, E) or isinstance(item, E):
        try:
            a, b = lift(cell(stored)), lift(cell(item))
        except Exception:
            return None
        if a == b:
            return True
        if a.is_const() and b.is_const():
            return None
        return Guard("cmp", "Eq", b, a)
    try:
        return True if (type(stored) is type(item) or isinstance(stored, (int, float)) and isinstance(item, (int, float))) and stored == item else None
    except Exception:
        return None


def _pyeq(a, b):
    if isinstance(a, (list, tuple)) and isinstance(b, (list, tuple)):
        if type(a) is not type(b) or len(a) != len(b):
            return False
        return all(_pyeq(x, y) is True for x, y in zip(a, b))
    if isinstance(a, E) or isinstance(b, E):
        try:
            return lift(cell(a)) == lift(cell(b))
        except Exception:
            return False
    r = a == b
    if isinstance(r, np.ndarray):
        return bool(r.all())
    return bool(r)


def _is_num(v):
    return isinstance(v, (int, float, E, IntSym)) and not isinstance(v, bool)


def _fmt(x):
    if isinstance(x, str):
        return x
    if isinstance(x, E):
        if x.is_const():
            c = x.cval()
            return str(int(c)) if c.denominator == 1 else repr(float(c))
        return "{" + repr(x) + "}"
    if isinstance(x, EnumMember):
        return repr(x) if not x.is_int else str(x.value)
    if isinstance(x, IntSym):
        return str(x.value)
    return str(x)
