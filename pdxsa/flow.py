"""FLOW engine: statement-level CFG, dominators/post-dominators, simple effect and def-use scans
(DESIGN.md 2.3)."""

from __future__ import annotations

import ast

import networkx as nx


# --------------------------------------------------------------------------- effects

def local_names(fn):
    """Names bound locally in a function (params + stores), excluding nonlocal/global declarations."""
    a = fn.args
    names = {p.arg for p in a.posonlyargs + a.args + a.kwonlyargs}
    if a.vararg:
        names.add(a.vararg.arg)
    if a.kwarg:
        names.add(a.kwarg.arg)
    declared = set()
    for n in walk_shallow(fn):
        if isinstance(n, (ast.Nonlocal, ast.Global)):
            declared.update(n.names)
        elif isinstance(n, ast.Name) and isinstance(n.ctx, (ast.Store, ast.Del)):
            names.add(n.id)
        elif isinstance(n, (ast.FunctionDef, ast.ClassDef)) and n is not fn:
            names.add(n.name)
        elif isinstance(n, ast.ExceptHandler) and n.name:
            names.add(n.name)
        elif isinstance(n, (ast.Import, ast.ImportFrom)):
            for al in n.names:
                names.add((al.asname or al.name).split(".")[0])
    return names - declared, declared


def walk_shallow(fn):
    """ast.walk that does not descend into nested function/class bodies (but yields their def nodes)."""
    stack = list(ast.iter_child_nodes(fn))
    while stack:
        n = stack.pop()
        yield n
        if isinstance(n, (ast.FunctionDef, ast.AsyncFunctionDef, ast.ClassDef, ast.Lambda)):
            continue
        stack.extend(ast.iter_child_nodes(n))


def _root_name(n):
    while isinstance(n, (ast.Attribute, ast.Subscript)):
        n = n.value
    return n.id if isinstance(n, ast.Name) else None


def effects_of_function(program, module, fn):
    """Side effects of a function body on state outside its own frame:
    (kind, name, lineno) with kind in nonlocal | global | attr-store-free | subscript-store-free | aug-free."""
    out = []
    locs, declared = local_names(fn)
    for n in walk_shallow(fn):
        if isinstance(n, ast.Nonlocal):
            for nm in n.names:
                if _assigned(fn, nm):
                    out.append(("nonlocal", nm, n.lineno))
        elif isinstance(n, ast.Global):
            for nm in n.names:
                if _assigned(fn, nm):
                    out.append(("global", nm, n.lineno))
        elif isinstance(n, (ast.Assign, ast.AugAssign, ast.AnnAssign)):
            targets = n.targets if isinstance(n, ast.Assign) else [n.target]
            for t in targets:
                for tt in _flatten_targets(t):
                    if isinstance(tt, (ast.Attribute, ast.Subscript)):
                        r = _root_name(tt)
                        if r is not None and r not in locs:
                            kind = "attr-store-free" if isinstance(tt, ast.Attribute) else "subscript-store-free"
                            out.append((kind, ast.unparse(tt), n.lineno))
                    elif isinstance(tt, ast.Name) and isinstance(n, ast.AugAssign) and tt.id not in locs and tt.id not in declared:
                        out.append(("aug-free", tt.id, n.lineno))
    return out


def _assigned(fn, name):
    for n in walk_shallow(fn):
        if isinstance(n, ast.Name) and n.id == name and isinstance(n.ctx, (ast.Store, ast.Del)):
            return True
    return False


def _flatten_targets(t):
    if isinstance(t, (ast.Tuple, ast.List)):
        for e in t.elts:
            yield from _flatten_targets(e)
    elif isinstance(t, ast.Starred):
        yield from _flatten_targets(t.value)
    else:
        yield t


# --------------------------------------------------------------------------- CFG

class CFG:
    """Statement-level control-flow graph of one function.

    Nodes are integers; ``stmt[n]`` is the ast statement (or None for ENTRY / EXIT / RAISE /
    join nodes).  Edges carry ``kind``: 'next', 'true', 'false', 'exc', 'loop', 'break', 'return'.
    Every statement that may raise has an 'exc' edge to the innermost enclosing handler
    dispatch node, or to RAISE.
    """

    def __init__(self, fn, may_raise=None):
        self.fn = fn
        self.g = nx.MultiDiGraph()
        self.stmt = {}
        self.label = {}
        self._n = 0
        self.entry = self._new(None, "ENTRY")
        self.exit = self._new(None, "EXIT")
        self.raise_exit = self._new(None, "RAISE")
        self.may_raise = may_raise or (lambda st: True)
        self._handlers = []       # stack of handler-dispatch nodes
        self._loops = []          # stack of (continue target, break target)
        self._finals = []
        last = self._block(fn.body, [self.entry])
        for p in last:
            self._edge(p, self.exit, "next")
        self._node_of = {id(s): n for n, s in self.stmt.items() if s is not None}

    # -- construction
    def _new(self, st, label=None):
        n = self._n
        self._n += 1
        self.g.add_node(n)
        self.stmt[n] = st
        self.label[n] = label or (type(st).__name__ if st is not None else "join")
        return n

    def _edge(self, a, b, kind):
        self.g.add_edge(a, b, kind=kind)

    def _exc_target(self):
        return self._handlers[-1] if self._handlers else self.raise_exit

    def _block(self, body, preds, kind="next"):
        """Wire statements of body after preds; returns list of dangling predecessor nodes."""
        first = True
        for st in body:
            preds = self._stmt(st, preds, kind if first else "next")
            first = False
            if not preds:
                break  # unreachable code after return/raise
        return preds

    def _stmt(self, st, preds, kind):
        n = self._new(st)
        for p in preds:
            self._edge(p, n, kind if isinstance(kind, str) else "next")
        if isinstance(st, ast.Return):
            if self.may_raise(st):
                self._edge(n, self._exc_target(), "exc")
            self._edge(n, self.exit, "return")
            return []
        if isinstance(st, ast.Raise):
            self._edge(n, self._exc_target(), "exc")
            return []
        if isinstance(st, ast.If):
            t = self._block(st.body, [n], "true")
            if not st.body:
                t = [n]
            f = self._block(st.orelse, [n], "false") if st.orelse else None
            if self.may_raise(st.test):
                self._edge(n, self._exc_target(), "exc")
            if f is None:
                j = self._new(None, "join")
                self._edge(n, j, "false")
                for p in t:
                    self._edge(p, j, "next")
                return [j]
            return t + f
        if isinstance(st, (ast.For, ast.While)):
            after = self._new(None, "loop-exit")
            self._loops.append((n, after))
            body_end = self._block(st.body, [n], "true")
            self._loops.pop()
            for p in body_end:
                self._edge(p, n, "loop")
            self._edge(n, self._exc_target(), "exc")
            if st.orelse:
                e = self._block(st.orelse, [n], "false")
                for p in e:
                    self._edge(p, after, "next")
            else:
                self._edge(n, after, "false")
            return [after]
        if isinstance(st, ast.Break):
            self._edge(n, self._loops[-1][1], "break")
            return []
        if isinstance(st, ast.Continue):
            self._edge(n, self._loops[-1][0], "loop")
            return []
        if isinstance(st, ast.Try):
            disp = self._new(None, "except-dispatch")
            self._handlers.append(disp)
            body_end = self._block(st.body, [n])
            self._handlers.pop()
            else_end = self._block(st.orelse, body_end) if st.orelse else body_end
            outs = list(else_end)
            catches_all = False
            for h in st.handlers:
                hn = self._new(h, "except")
                self._edge(disp, hn, "exc")
                outs += self._block(h.body, [hn])
                if h.type is None or (isinstance(h.type, ast.Name) and h.type.id in ("Exception", "BaseException")):
                    catches_all = True
            if not catches_all:
                self._edge(disp, self._exc_target(), "exc")  # unmatched exceptions propagate
            if st.finalbody:
                outs = self._block(st.finalbody, outs)
            return outs
        if isinstance(st, ast.With):
            self._edge(n, self._exc_target(), "exc")
            return self._block(st.body, [n])
        if isinstance(st, ast.Match):
            outs = []
            for case in st.cases:
                outs += self._block(case.body, [n], "true")
            # fallthrough when no case matches (unless a wildcard exists)
            if not any(isinstance(c.pattern, ast.MatchAs) and c.pattern.pattern is None and c.guard is None for c in st.cases):
                outs.append(n)
            return outs
        if isinstance(st, (ast.FunctionDef, ast.ClassDef, ast.Pass, ast.Global, ast.Nonlocal, ast.Import, ast.ImportFrom)):
            return [n]
        # simple statement
        if self.may_raise(st):
            self._edge(n, self._exc_target(), "exc")
        return [n]

    # -- queries
    def node_of(self, st):
        return self._node_of.get(id(st))

    def nodes_where(self, pred):
        return [n for n, s in self.stmt.items() if s is not None and pred(s)]

    def dominators(self):
        return nx.immediate_dominators(nx.DiGraph(self.g), self.entry)

    def dominates(self, a, b, idom=None):
        idom = idom or self.dominators()
        if b not in idom:
            return False  # unreachable
        while True:
            if b == a:
                return True
            nb = idom.get(b)
            if nb is None or nb == b:
                return False
            b = nb

    def postdominates(self, a, b, exit_node=None):
        """a post-dominates b w.r.t. the normal exit (paths that raise are ignored unless exit_node given)."""
        ex = self.exit if exit_node is None else exit_node
        rg = nx.DiGraph(self.g).reverse()
        if ex not in rg:
            return False
        idom = nx.immediate_dominators(rg, ex)
        if b not in idom:
            return False
        while True:
            if b == a:
                return True
            nb = idom.get(b)
            if nb is None or nb == b:
                return False
            b = nb

    def reachable_without(self, src, dst, avoid, edge_ok=None):
        """Is dst reachable from src along edges (optionally filtered) without passing through nodes in avoid?"""
        avoid = set(avoid)
        seen = {src}
        stack = [src]
        while stack:
            u = stack.pop()
            for _, v, d in self.g.out_edges(u, data=True):
                if edge_ok is not None and not edge_ok(u, v, d):
                    continue
                if v in avoid or v in seen:
                    continue
                if v == dst:
                    return True
                seen.add(v)
                stack.append(v)
        return False

    def path(self, src, dst, avoid=()):
        g = nx.DiGraph(self.g)
        g.remove_nodes_from([a for a in avoid if a not in (src, dst)])
        try:
            return nx.shortest_path(g, src, dst)
        except (nx.NetworkXNoPath, nx.NodeNotFound):
            return None

    def describe(self, path):
        out = []
        for n in path or []:
            st = self.stmt[n]
            out.append(f"{self.label[n]}@{getattr(st, 'lineno', '-')}")
        return " -> ".join(out)

    def true_edge_dominates(self, ifnode, target, branch):
        """Does taking `branch` ('true'/'false') of the If at ifnode dominate target?  Computed by removing the
        other branch edge and asking whether target is still reachable only through ifnode."""
        g = nx.DiGraph()
        for u, v, d in self.g.edges(data=True):
            if u == ifnode and d["kind"] in ("true", "false") and d["kind"] != branch:
                continue
            g.add_edge(u, v)
        # target must be dominated by ifnode in the full graph, and unreachable in full graph minus chosen edge
        full = nx.DiGraph(self.g)
        idom = nx.immediate_dominators(full, self.entry)
        if not self.dominates(ifnode, target, idom):
            return False
        g2 = nx.DiGraph()
        for u, v, d in self.g.edges(data=True):
            if u == ifnode and d["kind"] == branch:
                continue
            g2.add_edge(u, v)
        g2.add_node(self.entry)
        return target not in g2 or not nx.has_path(g2, self.entry, target)


def find_function(module, qualpath):
    """Locate a (possibly nested) function: 'Mineral.update_orientations.eval_rhs'."""
    parts = qualpath.split(".")
    body = module.tree.body
    node = None
    for p in parts:
        found = None
        for st in body:
            if isinstance(st, (ast.FunctionDef, ast.ClassDef)) and st.name == p:
                found = st
        if found is None:
            # search nested statements (functions defined inside if/try blocks)
            for st in body:
                for sub in ast.walk(st):
                    if isinstance(sub, (ast.FunctionDef, ast.ClassDef)) and sub.name == p:
                        found = sub
                        break
                if found:
                    break
        if found is None:
            return None
        node = found
        body = found.body
    return node


def calls_in(node, shallow=True):
    it = walk_shallow(node) if shallow else ast.walk(node)
    return [n for n in it if isinstance(n, ast.Call)]


def dotted(n):
    if isinstance(n, ast.Name):
        return n.id
    if isinstance(n, ast.Attribute):
        b = dotted(n.value)
        return b + "." + n.attr if b else None
    return None



def reachable_functions(program, roots):
    """Repository functions reachable from the given (module name, function name) roots through resolved calls: plain names defined in the
    same module, `alias.func` for imported repository modules, `from m import f` names.  Returns {(module name, function name): (Module, FunctionDef)}.
    (Methods and dynamically bound callables are not followed: this is the static complement of the interpreter's list of executed functions.)"""
    out = {}
    todo = list(roots)
    while todo:
        mn, fn = todo.pop()
        if (mn, fn) in out:
            continue
        mod = program.modules.get(mn)
        if mod is None:
            try:
                mod = program.module(mn)
            except Exception:
                continue
        node = mod.defs.get(fn)
        if not isinstance(node, ast.FunctionDef):
            continue
        out[(mn, fn)] = (mod, node)
        for c in ast.walk(node):
            if not isinstance(c, ast.Call):
                continue
            f = c.func
            if isinstance(f, ast.Name):
                if isinstance(mod.defs.get(f.id), ast.FunctionDef):
                    todo.append((mn, f.id))
                else:
                    imp = mod.imports.get(f.id)
                    if imp and imp[0] == "from" and imp[1].startswith(program.package):
                        todo.append((imp[1], imp[2]))
            elif isinstance(f, ast.Attribute) and isinstance(f.value, ast.Name):
                imp = mod.imports.get(f.value.id)
                if imp and imp[0] == "module" and imp[1].startswith(program.package):
                    todo.append((imp[1], f.attr))
                elif imp and imp[0] == "from" and (imp[1] + "." + imp[2]).startswith(program.package):
                    todo.append((imp[1] + "." + imp[2], f.attr))
    return out
