"""Exact normal forms: Laurent polynomials with Fraction coefficients over interned atoms.

This is the value domain of the algebraic abstract interpreter (DESIGN.md 2.2.1).
A scalar is an ``E``: a finite map  monomial -> Fraction  where a monomial is a sorted
tuple of ``(Atom, exponent)``; exponents are ``int`` or (for atoms known to be
non-negative) themselves ``E`` values, so ``|r|**(n-1) * |r|`` normalises to ``|r|**n``.

Atoms are interned (``Atom.id``); hashing and ordering use the integer id only.
Atom kinds
    sym    free real symbol                      psym   free positive symbol
    pc     positive prime constant (for c**e)    euler  Euler's number (exp(x) = euler**x)
    poly   non-monomial polynomial, used as a denominator (negative exponent only)
    root   square root of a polynomial           abs    absolute value
    let    hash-consed definition (Atom.defn)    fn:*   uninterpreted function
Identities are decided by normalisation (``is_zero(a - b)`` after clearing ``poly``
denominators, unfolding ``let`` atoms level by level when needed).
"""

from __future__ import annotations

import math
import random
from fractions import Fraction as Fr

__all__ = [
    "Atom", "E", "INF", "Inf", "lift", "sym", "psym", "const", "ZERO", "ONE", "Abs", "Sqrt", "Exp",
    "Sin", "Cos", "Arccos", "Arctan2", "Fn", "let", "unfold_all", "equal", "is_zero", "derive",
    "subst", "evalf", "depends", "AlgError", "Budget", "atoms_of", "content", "PI",
]


class AlgError(Exception):
    """The algebra cannot represent / decide something (reported as ANALYSIS-ERROR)."""


class Budget(AlgError):
    pass


# --------------------------------------------------------------------------- atoms

_POS_KINDS = {"psym", "pc", "euler", "abs", "root"}


class Atom:
    __slots__ = ("kind", "args", "id", "pos", "defn", "_deps")
    _table: dict = {}
    _list: list = []

    def __new__(cls, kind, *args):
        k = (kind,) + tuple(_argkey(a) for a in args)
        a = cls._table.get(k)
        if a is None:
            a = object.__new__(cls)
            a.kind = kind
            a.args = args
            a.id = len(cls._list)
            a.pos = kind in _POS_KINDS
            a.defn = None
            a._deps = None
            cls._table[k] = a
            cls._list.append(a)
        return a

    def __hash__(self):
        return self.id

    def __eq__(self, o):
        return self is o

    def __lt__(self, o):
        return self.id < o.id

    def __repr__(self):
        k = self.kind
        if k in ("sym", "psym"):
            return str(self.args[0])
        if k == "pc":
            return str(self.args[0])
        if k == "euler":
            return "e"
        if k == "let":
            return f"let#{self.args[0]}"
        if k == "poly":
            return f"({self.args[0]!r})"
        return f"{k}({', '.join(map(repr, self.args))})"


def _argkey(a):
    if isinstance(a, Atom):
        return ("A", a.id)
    if isinstance(a, E):
        return ("E", a.key())
    if isinstance(a, (tuple, list)):
        return ("T",) + tuple(_argkey(x) for x in a)
    return a


def _ek(e):
    return (0, e) if isinstance(e, int) else (1, e.key())


# --------------------------------------------------------------------------- E


class E:
    __slots__ = ("t", "_key", "_hash")

    def __init__(self, t=None):
        self.t = t if t is not None else {}
        self._key = None
        self._hash = None

    # -- construction helpers
    @staticmethod
    def const(c):
        c = Fr(c)
        return E({(): c}) if c != 0 else E()

    @staticmethod
    def atom(a, e=1):
        return E({((a, e),): Fr(1)})

    # -- structural identity
    def key(self):
        k = self._key
        if k is None:
            k = tuple(
                sorted(
                    (tuple((a.id, _ek(e)) for a, e in m), c.numerator, c.denominator)
                    for m, c in self.t.items()
                )
            )
            self._key = k
        return k

    def __hash__(self):
        h = self._hash
        if h is None:
            h = self._hash = hash(self.key())
        return h

    def __eq__(self, o):
        if isinstance(o, E):
            return self.t == o.t
        if isinstance(o, (int, Fr)):
            return self.t == E.const(o).t
        if isinstance(o, float):
            return self.t == lift(o).t
        return NotImplemented

    def __ne__(self, o):
        r = self.__eq__(o)
        return r if r is NotImplemented else not r

    def __bool__(self):
        return bool(self.t)

    # -- predicates
    def is_zero(self):
        return not self.t

    def is_const(self):
        return all(m == () for m in self.t)

    def cval(self):
        return self.t.get((), Fr(0))

    def is_int(self):
        return self.is_const() and self.cval().denominator == 1

    def is_monomial(self):
        return len(self.t) == 1

    def nterms(self):
        return len(self.t)

    # -- arithmetic
    def __add__(s, o):
        if isinstance(o, _ARR):
            return NotImplemented
        if isinstance(o, Inf):
            raise AlgError("x + inf")
        o = lift(o)
        if not o.t:
            return s
        if not s.t:
            return o
        t = dict(s.t)
        for m, c in o.t.items():
            v = t.get(m)
            if v is None:
                t[m] = c
            else:
                v = v + c
                if v:
                    t[m] = v
                else:
                    del t[m]
        return E(t)

    __radd__ = __add__

    def __neg__(s):
        return E({m: -c for m, c in s.t.items()})

    def __pos__(s):
        return s

    def __sub__(s, o):
        if isinstance(o, _ARR):
            return NotImplemented
        return s + (-lift(o))

    def __rsub__(s, o):
        if isinstance(o, _ARR):
            return NotImplemented
        return lift(o) + (-s)

    def __mul__(s, o):
        if isinstance(o, _ARR):
            return NotImplemented
        if isinstance(o, Inf):
            raise AlgError("x * inf")
        o = lift(o)
        if not s.t or not o.t:
            return ZERO
        # constant fast paths
        if len(o.t) == 1 and () in o.t:
            c = o.t[()]
            return s if c == 1 else E({m: v * c for m, v in s.t.items()})
        if len(s.t) == 1 and () in s.t:
            c = s.t[()]
            return o if c == 1 else E({m: v * c for m, v in o.t.items()})
        _tick(len(s.t) * len(o.t))
        t = {}
        dirty = False
        for m1, c1 in s.t.items():
            for m2, c2 in o.t.items():
                if not m1:
                    m = m2
                elif not m2:
                    m = m1
                else:
                    m, d = _mmul(m1, m2)
                    dirty = dirty or d
                c = c1 * c2
                v = t.get(m)
                if v is None:
                    t[m] = c
                else:
                    v = v + c
                    if v:
                        t[m] = v
                    else:
                        del t[m]
        r = E(t)
        return _reduce(r) if dirty else r

    __rmul__ = __mul__

    def inv(s):
        if not s.t:
            raise ZeroDivisionError("division by symbolic zero")
        if len(s.t) == 1:
            ((m, c),) = s.t.items()
            r = E({tuple((a, _negexp(e)) for a, e in m): 1 / c})
            return _reduce(r) if any(a.kind in _SPECIAL for a, _ in m) else r
        c = content(s)
        p = s * E.const(1 / c)
        return E({((Atom("poly", p), -1),): 1 / c})

    def __truediv__(s, o):
        if isinstance(o, _ARR):
            return NotImplemented
        if isinstance(o, Inf):
            return ZERO
        return s * lift(o).inv()

    def __rtruediv__(s, o):
        if isinstance(o, _ARR):
            return NotImplemented
        return lift(o) * s.inv()

    def __pow__(s, n):
        if isinstance(n, _ARR):
            return NotImplemented
        if isinstance(n, float):
            n = lift(n)
        if isinstance(n, Fr):
            n = E.const(n)
        if isinstance(n, E) and n.is_int():
            n = int(n.cval())
        if isinstance(n, int):
            if n == 0:
                return ONE
            if n < 0:
                return s.inv() ** (-n)
            r, b = ONE, s
            while n:
                if n & 1:
                    r = r * b
                n >>= 1
                if n:
                    b = b * b
            return r
        # non-integer (possibly symbolic) exponent
        if not s.t:
            ASSUMPTIONS.add("0**e = 0 is applied for symbolic/non-integer e assumed > 0")
            return ZERO
        if s == ONE:
            return ONE
        if n.is_const() and n.cval() == Fr(1, 2):
            return Sqrt(s)
        if len(s.t) == 1:
            ((m, c),) = s.t.items()
            if c > 0 and all(a.pos or (isinstance(e, int) and e % 2 == 0) for a, e in m):
                r = _cpow(c, n)
                for a, e in m:
                    b = a if a.pos else Atom("abs", a)
                    r = r * E({((b, _emul(e, n)),): Fr(1)})
                return _reduce(r)
        if n.is_const() and n.cval().denominator == 2:
            k = n.cval().numerator
            return Sqrt(s) ** k
        return E.atom(Atom("fn:pow", s, n))

    def __rpow__(s, b):
        b = lift(b)
        return b ** s

    def __repr__(s):
        if not s.t:
            return "0"
        out = []
        for m, c in sorted(s.t.items(), key=lambda x: tuple((a.id, _ek(e)) for a, e in x[0])):
            f = "*".join(
                (repr(a) if e == 1 else f"{a!r}^{e}" if isinstance(e, int) else f"{a!r}^({e!r})")
                for a, e in m
            )
            if not m:
                out.append(str(c))
            elif c == 1:
                out.append(f)
            elif c == -1:
                out.append("-" + f)
            else:
                out.append(f"{c}*{f}")
        return " + ".join(out)


try:
    import numpy as _np

    _ARR = (_np.ndarray, )
except Exception:  # pragma: no cover
    _ARR = ()


class Inf:
    """The extended constant +inf: only x/inf = 0 and inf/inf-free comparisons are modelled."""

    _inst = None

    def __new__(cls):
        if cls._inst is None:
            cls._inst = object.__new__(cls)
        return cls._inst

    def __repr__(self):
        return "inf"

    def __rtruediv__(self, o):
        if type(o).__name__ == "Opaque":
            return NotImplemented
        if isinstance(o, _ARR):
            return NotImplemented
        return ZERO

    def __truediv__(self, o):
        if type(o).__name__ == "Opaque":
            return NotImplemented
        raise AlgError("inf / x is not modelled")

    def __mul__(self, o):
        if type(o).__name__ == "Opaque":
            return NotImplemented
        raise AlgError("inf * x is not modelled")

    __rmul__ = __mul__
    __add__ = __radd__ = __sub__ = __rsub__ = __mul__

    def key(self):
        return ("inf",)


ZERO = E()
ONE = E({(): Fr(1)})
INF = Inf()
ASSUMPTIONS: set = set()

# work budget (term products); reset by callers
_WORK = [0, 10**9]
_DEADLINE = [None]
import time as _time


def set_budget(n, seconds=None):
    _WORK[0] = 0
    _WORK[1] = n
    _DEADLINE[0] = (_time.time() + seconds) if seconds else None


def work_done():
    return _WORK[0]


def _tick(n):
    _WORK[0] += n
    if _WORK[0] > _WORK[1]:
        raise Budget(f"algebra work budget exceeded ({_WORK[1]} term products)")
    if _DEADLINE[0] is not None and _time.time() > _DEADLINE[0]:
        raise Budget("algebra time budget exceeded")


class _OpaqueMeta(type):
    def __instancecheck__(cls, obj):
        return type(obj).__name__ == "Opaque"


class _OpaqueLike(metaclass=_OpaqueMeta):
    """isinstance(x, _OpaqueLike) is true for values.Opaque (which this module cannot import)"""


_ARR = tuple(_ARR) + (_OpaqueLike,)      # arithmetic with an array or with an unmodelled value is left to the other operand


def lift(x):
    if isinstance(x, E):
        return x
    if isinstance(x, bool):
        return E.const(int(x))
    if isinstance(x, (int, Fr)):
        return E.const(x)
    if isinstance(x, float):
        if math.isinf(x):
            raise AlgError("float inf lifted to E")
        if x == int(x) and abs(x) < 1e15:
            return E.const(int(x))
        return E.const(Fr(repr(x)))
    if _ARR and isinstance(x, _np.generic):
        return lift(x.item())
    raise AlgError(f"cannot lift {type(x).__name__} to E")


def const(c):
    return E.const(c)


def sym(name):
    return E.atom(Atom("sym", name))


def psym(name):
    return E.atom(Atom("psym", name))


PI = E.atom(Atom("psym", "pi"))
_EULER = Atom("euler")

_SPECIAL = {"pc", "root", "abs", "fn:sin", "euler"}


def _negexp(e):
    return -e


def _emul(e, n):
    r = lift(e) * n
    return int(r.cval()) if r.is_int() else r


def _eadd(e1, e2):
    if isinstance(e1, int) and isinstance(e2, int):
        return e1 + e2
    r = lift(e1) + lift(e2)
    return int(r.cval()) if r.is_int() else r


def _mmul(m1, m2):
    """Merge two monomials; returns (monomial, dirty) — dirty if a special atom may need reduction."""
    d = dict(m1)
    dirty = False
    for a, e in m2:
        v = d.get(a)
        if v is None:
            d[a] = e
        else:
            v = _eadd(v, e)
            if v == 0:
                del d[a]
            else:
                d[a] = v
                if a.kind in _SPECIAL:
                    dirty = True
    if len(d) > 1:
        m = tuple(sorted(d.items(), key=_byid))
        if not dirty:
            # abs(a)**E together with plain a needs the parity rule
            for a, e in m:
                if a.kind == "abs" and not isinstance(e, int):
                    dirty = True
                    break
    else:
        m = tuple(d.items())
    return m, dirty


def _byid(x):
    return x[0].id


def _primes(n):
    out = {}
    p = 2
    while p * p <= n:
        while n % p == 0:
            out[p] = out.get(p, 0) + 1
            n //= p
        p += 1
    if n > 1:
        out[n] = out.get(n, 0) + 1
    return out


def _cpow(c, n):
    """c ** n for a positive rational c and a non-integer E exponent n."""
    r = ONE
    for p, k in _primes(c.numerator).items():
        r = r * E({((Atom("pc", p), _emul(k, n)),): Fr(1)})
    for p, k in _primes(c.denominator).items():
        r = r * E({((Atom("pc", p), _emul(-k, n)),): Fr(1)})
    return _reduce(r)


def _reduce(e):
    """Bring special atoms into their canonical exponent range (see module docstring)."""
    out = ZERO
    changed = False
    for m, c in e.t.items():
        r = _reduce_mono(m)
        if r is None:
            out = out + E({m: c})
        else:
            changed = True
            out = out + r * E.const(c)
    return out if changed else e


def _reduce_mono(m):
    """Return an E equal to the monomial m if some rule applies, else None."""
    for i, (a, e) in enumerate(m):
        k = a.kind
        if k == "pc":
            if isinstance(e, int):
                rest = E({m[:i] + m[i + 1 :]: Fr(1)})
                return _again(rest * E.const(Fr(a.args[0]) ** e))
            c0 = e.cval()
            fl = math.floor(c0)
            if fl != 0:
                rest = E({m[:i] + ((a, _eadd(e, -fl)),) + m[i + 1 :]: Fr(1)})
                return _again(rest * E.const(Fr(a.args[0]) ** fl))
        elif k == "root":
            if isinstance(e, int) and e not in (1, -1):
                q, r = _split2(e)
                rest = E({m[:i] + (((a, r),) if r else ()) + m[i + 1 :]: Fr(1)})
                return _again(rest * (a.args[0] ** q))
            if not isinstance(e, int):
                # root(P)**E with symbolic E: leave
                pass
        elif k == "abs":
            inner = a.args[0]
            if isinstance(e, int):
                if e not in (1, -1):
                    q, r = _split2(e)
                    rest = E({m[:i] + (((a, r),) if r else ()) + m[i + 1 :]: Fr(1)})
                    base = E.atom(inner) if isinstance(inner, Atom) else inner
                    return _again(rest * (base ** (2 * q)))
            elif isinstance(inner, Atom):
                # parity rule: plain inner atom exponent must be 0 or 1 when abs has symbolic exponent
                for j, (b, f) in enumerate(m):
                    if b is inner and isinstance(f, int) and f not in (0, 1):
                        q, r = divmod(f, 2)
                        d = dict(m)
                        if r:
                            d[b] = r
                        else:
                            del d[b]
                        d[a] = _eadd(e, 2 * q)
                        if d[a] == 0:
                            del d[a]
                        return _again(E({tuple(sorted(d.items(), key=_byid)): Fr(1)}))
        elif k == "fn:sin":
            if isinstance(e, int) and e >= 2:
                q, r = divmod(e, 2)
                rest = E({m[:i] + (((a, 1),) if r else ()) + m[i + 1 :]: Fr(1)})
                cosu = Cos(a.args[0])
                return _again(rest * ((ONE - cosu * cosu) ** q))
        elif k == "euler":
            if isinstance(e, int):
                # e**k for integer k stays an atom power (transcendental); fine
                pass
    return None


def _split2(e):
    """e = 2q + r with r in {-1, 0, 1} and q rounded toward zero."""
    q = int(e / 2)
    return q, e - 2 * q


def _again(e):
    return _reduce(e)


def content(p):
    _tick(len(p.t))
    """Signed content of a polynomial: p / content(p) is primitive with a positive leading term."""
    g = 0
    l = 1
    for c in p.t.values():
        g = math.gcd(g, abs(c.numerator))
        l = l * c.denominator // math.gcd(l, c.denominator)
    c = Fr(g, l)
    lead = min(p.t.items(), key=lambda x: tuple((a.id, _ek(e)) for a, e in x[0]))[1]
    return c if lead > 0 else -c


# --------------------------------------------------------------------------- functions


def Abs(x):
    x = lift(x)
    if not x.t:
        return ZERO
    if len(x.t) == 1:
        ((m, c),) = x.t.items()
        r = E.const(abs(c))
        for a, e in m:
            if a.pos:
                r = r * E({((a, e),): Fr(1)})
            else:
                r = r * E({((Atom("abs", a), e),): Fr(1)})
        return _reduce(r)
    c = content(x)
    p = x * E.const(1 / c)
    return E.const(abs(c)) * E.atom(Atom("abs", p))


def _as_fraction(x):
    """x = N / D with N free of poly-atom denominators and D a product of poly atoms (as E)."""
    need = {}
    for m in x.t:
        for a, e in m:
            if a.kind == "poly" and isinstance(e, int) and e < 0:
                need[a] = max(need.get(a, 0), -e)
    if not need:
        return x, ONE
    den = ONE
    for a, k in need.items():
        den = den * (a.args[0] ** k)
    return _expand_with(x, need), den


def Sqrt(x):
    x = lift(x)
    if not x.t:
        return ZERO
    num, den = _as_fraction(x)
    if den is not ONE and den != ONE:
        return _sqrt1(num) * _sqrt1(den).inv()
    return _sqrt1(x)


def _sqrt1(x):
    if len(x.t) == 1:
        ((m, c),) = x.t.items()
        if c < 0:
            return E.atom(Atom("fn:sqrt", x))
        r = _cpow(c, E.const(Fr(1, 2)))
        for a, e in m:
            if a.pos:
                r = r * E({((a, _emul(e, E.const(Fr(1, 2)))),): Fr(1)})
            elif isinstance(e, int) and e % 2 == 0:
                # sqrt(a**2k) = |a|**k
                r = r * (Abs(E.atom(a)) ** (e // 2))
            else:
                return E.atom(Atom("fn:sqrt", x))
        return _reduce(r)
    c = content(x)
    if c < 0:
        return E.atom(Atom("fn:sqrt", x))
    p = x * E.const(1 / c)
    return _cpow(c, E.const(Fr(1, 2))) * E.atom(Atom("root", p))


def Exp(x):
    x = lift(x)
    if not x.t:
        return ONE
    return E({((_EULER, x if not x.is_int() else int(x.cval())),): Fr(1)})


def Sin(x):
    x = lift(x)
    if not x.t:
        return ZERO
    if len(x.t) == 1:
        ((m, c),) = x.t.items()
        if len(m) == 1 and m[0][0].kind == "fn:arctan2" and m[0][1] == 1 and c == 1:
            y, xx = m[0][0].args
            return y * Sqrt(xx * xx + y * y).inv()
        if len(m) == 1 and m[0][0].kind == "fn:arccos" and m[0][1] == 1 and c == 1:
            u = m[0][0].args[0]
            return Sqrt(ONE - u * u)
    c = content(x)
    if c < 0:
        return -E.atom(Atom("fn:sin", -x))
    return E.atom(Atom("fn:sin", x))


def Cos(x):
    x = lift(x)
    if not x.t:
        return ONE
    if len(x.t) == 1:
        ((m, c),) = x.t.items()
        if len(m) == 1 and m[0][0].kind == "fn:arctan2" and m[0][1] == 1 and c == 1:
            y, xx = m[0][0].args
            return xx * Sqrt(xx * xx + y * y).inv()
        if len(m) == 1 and m[0][0].kind == "fn:arccos" and m[0][1] == 1 and c == 1:
            return m[0][0].args[0]
    c = content(x)
    if c < 0:
        return E.atom(Atom("fn:cos", -x))
    return E.atom(Atom("fn:cos", x))


def Arccos(x):
    return E.atom(Atom("fn:arccos", lift(x)))


def Arctan2(y, x):
    return E.atom(Atom("fn:arctan2", lift(y), lift(x)))


def Fn(name, *args):
    """Uninterpreted function application; args are E / hashable constants / tuples thereof."""
    return E.atom(Atom("fn:" + name, *args))


# --------------------------------------------------------------------------- let atoms

_LETS: dict = {}


def let(e, min_terms=2):
    """Hash-cons a compound value: returns an atom-valued E standing for e (keyed by e's normal form)."""
    e = lift(e)
    if len(e.t) < min_terms and not _has_compound(e):
        return e
    if len(e.t) == 1:
        ((m, c),) = e.t.items()
        if len(m) == 1 and m[0][1] == 1 and m[0][0].kind in ("sym", "psym", "let"):
            return e  # c * atom: nothing to gain
        if not m:
            return e
    # canonical up to a rational factor: let(c*P) = c*let(P) with P primitive, leading coefficient > 0
    c = content(e)
    if c != 1:
        e = e * E.const(1 / c)
    k = e.key()
    a = _LETS.get(k)
    if a is None:
        a = Atom("let", len(_LETS))
        a.defn = e
        _LETS[k] = a
    r = E.atom(a)
    return r if c == 1 else r * E.const(c)


def _has_compound(e):
    for m in e.t:
        if len(m) > 1:
            return True
        for a, x in m:
            if a.kind not in ("sym", "psym") or x != 1:
                return True
    return False


def atoms_of(e, deep=False, _acc=None):
    """Atoms occurring in e (top level; with deep=True also inside atom arguments and let definitions)."""
    acc = set() if _acc is None else _acc
    for m in e.t:
        for a, x in m:
            if a not in acc:
                acc.add(a)
                if deep:
                    _atom_children(a, acc)
            if not isinstance(x, int):
                atoms_of(x, deep, acc)
    return acc


def _atom_children(a, acc):
    if a.kind == "let":
        atoms_of(a.defn, True, acc)
    for g in a.args:
        _arg_atoms(g, acc)


def _arg_atoms(g, acc):
    if isinstance(g, E):
        atoms_of(g, True, acc)
    elif isinstance(g, Atom):
        if g not in acc:
            acc.add(g)
            _atom_children(g, acc)
    elif isinstance(g, (tuple, list)):
        for x in g:
            _arg_atoms(x, acc)


def depends(e, targets):
    """Does e (deeply) depend on any atom in targets?"""
    return bool(atoms_of(e, deep=True) & set(targets))


def subst(e, mapping, _memo=None):
    """Replace atoms by expressions (deeply: inside atom arguments; let atoms are unfolded only if
    their definition depends on a mapped atom)."""
    memo = {} if _memo is None else _memo
    tg = set(mapping)
    out = ZERO
    _tick(10 * len(e.t) + 10)
    for m, c in e.t.items():
        term = E.const(c)
        keep = []
        for a, x in m:
            if not isinstance(x, int):
                x2 = subst(x, mapping, memo)
                x2 = int(x2.cval()) if x2.is_int() else x2
            else:
                x2 = x
            ra = _subst_atom(a, mapping, tg, memo)
            if ra is None and x2 is x:
                keep.append((a, x))
            else:
                base = E.atom(a) if ra is None else ra
                term = term * (base ** x2)
        if keep:
            term = term * E({tuple(keep): Fr(1)})
        out = out + term
    return out


def _subst_atom(a, mapping, tg, memo):
    """E replacing atom a, or None if unchanged."""
    if a in memo:
        return memo[a]
    r = None
    if a in mapping:
        r = lift(mapping[a])
    elif a.kind in ("sym", "psym", "pc", "euler"):
        r = None
    elif a.kind == "let":
        if atoms_of(a.defn, deep=True) & tg:
            r = subst(a.defn, mapping, memo)
    else:
        newargs = []
        ch = False
        for g in a.args:
            g2 = _subst_arg(g, mapping, tg, memo)
            if g2 is not g:
                ch = True
            newargs.append(g2)
        if ch:
            r = rebuild(a.kind, newargs)
    memo[a] = r
    return r


def _subst_arg(g, mapping, tg, memo):
    if isinstance(g, E):
        if atoms_of(g, deep=True) & tg:
            return subst(g, mapping, memo)
        return g
    if isinstance(g, Atom):
        r = _subst_atom(g, mapping, tg, memo)
        return g if r is None else r
    if isinstance(g, tuple):
        new = tuple(_subst_arg(x, mapping, tg, memo) for x in g)
        if any(n is not o for n, o in zip(new, g)):
            return new
        return g
    return g


def rebuild(kind, args):
    if kind == "abs":
        a = args[0]
        return Abs(E.atom(a) if isinstance(a, Atom) else a)
    if kind == "root":
        return Sqrt(args[0])
    if kind == "poly":
        return lift(args[0])
    if kind == "fn:sin":
        return Sin(args[0])
    if kind == "fn:cos":
        return Cos(args[0])
    if kind == "fn:arccos":
        return Arccos(args[0])
    if kind == "fn:arctan2":
        return Arctan2(args[0], args[1])
    if kind == "fn:pow":
        return lift(args[0]) ** lift(args[1])
    if kind == "fn:sqrt":
        return Sqrt(args[0])
    if kind in ("fn:floor", "fn:ceil", "fn:trunc", "fn:int") and len(args) == 1 and isinstance(args[0], E) and args[0].is_const():
        return lift({"fn:floor": math.floor, "fn:ceil": math.ceil}.get(kind, math.trunc)(args[0].cval()))
    if kind == "fn:select" and len(args) == 3 and isinstance(args[1], E) and isinstance(args[2], E) and args[1] == args[2]:
        return args[1]
    if kind.startswith("fn:"):
        return E.atom(Atom(kind, *args))
    raise AlgError(f"cannot rebuild atom of kind {kind}")


def unfold_once(e, which=None):
    """Unfold the newest let atom(s) occurring (deeply, not inside other let definitions) in e."""
    ls = [a for a in _shallow_atoms(e) if a.kind == "let" and (which is None or a in which)]
    if not ls:
        return e, False
    top = max(ls, key=lambda a: a.id)
    return subst(e, {top: top.defn}), True


def _shallow_atoms(e, acc=None):
    """Atoms in e including inside atom arguments but not inside let definitions."""
    acc = set() if acc is None else acc
    for m in e.t:
        for a, x in m:
            if a not in acc:
                acc.add(a)
                for g in a.args:
                    _shallow_arg(g, acc)
            if not isinstance(x, int):
                _shallow_atoms(x, acc)
    return acc


def _shallow_arg(g, acc):
    if isinstance(g, E):
        _shallow_atoms(g, acc)
    elif isinstance(g, Atom):
        if g not in acc:
            acc.add(g)
            for h in g.args:
                _shallow_arg(h, acc)
    elif isinstance(g, tuple):
        for x in g:
            _shallow_arg(x, acc)


def unfold_all(e, limit=10000, seconds=90):
    """Unfold every let atom.  Bounded in wall-clock time (a form whose full expansion is astronomically large raises Budget, which the
    callers report as inconclusive / analysis error, instead of running for hours)."""
    n = 0
    own = _DEADLINE[0] is None
    if own:
        _DEADLINE[0] = _time.time() + seconds
    try:
        while True:
            e, ch = unfold_once(e)
            if not ch:
                return e
            n += 1
            if n > limit:
                raise Budget("unfold limit")
    finally:
        if own:
            _DEADLINE[0] = None


# --------------------------------------------------------------------------- deciding identities


def _clear_need(e):
    need = {}
    for m in e.t:
        for a, x in m:
            if a.kind in ("poly", "root", "abs") and isinstance(x, int) and x < 0:
                if need.get(a, 0) < -x:
                    need[a] = -x
    return need


def _expand_with(e, need):
    out = ZERO
    _tick(10 * len(e.t) + 10)
    for m, c in e.t.items():
        term = E.const(c)
        d = dict(m)
        for a, k in need.items():
            d[a] = d.get(a, 0) + k
        keep = []
        for a, x in d.items():
            if a.kind == "poly" and isinstance(x, int):
                if x > 0:
                    term = term * (a.args[0] ** x)
                # x == 0: cancelled
            elif a.kind in ("root", "abs") and a in need:
                if x != 0:
                    term = term * _reduce(E({((a, x),): Fr(1)}))
            elif x != 0:
                keep.append((a, x))
        if keep:
            keep.sort(key=_byid)
            term = term * E({tuple(keep): Fr(1)})
        out = out + term
    return out


def clear_denominators(e):
    """Multiply e by the poly atoms occurring with negative exponent; zero-ness is preserved."""
    for _ in range(8):
        need = _clear_need(e)
        if not need:
            return e
        e = _expand_with(e, need)
    return e


def is_zero(e, unfold=True):
    """Decide e == 0 by normalisation; unfolds let atoms newest-first while the residual is non-zero."""
    e = lift(e)
    while True:
        if not e.t:
            return True
        d = clear_denominators(e)
        if not d.t:
            return True
        if not unfold:
            return False
        e2, ch = unfold_once(d)
        if not ch:
            return False
        e = e2


def equal(a, b, unfold=True):
    if isinstance(a, Inf) or isinstance(b, Inf):
        return a is b
    return is_zero(lift(a) - lift(b), unfold=unfold)


# --------------------------------------------------------------------------- derivations


def derive(e, datom, memo=None):
    """Apply the derivation D with D(atom) given by datom (dict Atom -> E, default 0 for free
    symbols) to e.  Chain rules for compound atoms; let atoms via their definitions (memoised)."""
    memo = {} if memo is None else memo
    out = ZERO
    _tick(5 * len(e.t) + 5)
    for m, c in e.t.items():
        for i, (a, x) in enumerate(m):
            da = _datom(a, datom, memo)
            if not isinstance(x, int):
                dx = derive(x, datom, memo)
                if dx.t:
                    if a.kind != "euler":
                        raise AlgError("derivative of a symbolic exponent is only modelled for exp()")
                    out = out + E({m: c}) * dx  # d(e**x) = e**x * dx
            if not da.t:
                continue
            rest = E({m[:i] + m[i + 1 :]: c})
            if x == 1:
                out = out + rest * da
            else:
                xm1 = _eadd(x, -1)
                pw = E({((a, xm1),): Fr(1)}) if xm1 != 0 else ONE
                if a.kind in _SPECIAL:
                    pw = _reduce(pw)
                out = out + rest * lift(x) * pw * da
    return out


def stage_derivation(outputs, datom, memo, budget=400_000):
    """Process the let atoms reachable from `outputs` in creation (topological) order: compute D(let) with
    the chain rule and, where it vanishes (decided exactly, numerically pre-screened), record D(let) = 0 so
    that later levels never see the expanded form.  Returns (n_lets, n_invariant)."""
    acc = set()
    for o in outputs:
        atoms_of(lift(o), True, acc)
    lets = sorted((a for a in acc if a.kind == "let"), key=lambda a: a.id)
    n_inv = 0
    for a in lets:
        d = _datom(a, datom, memo)
        if not d.t:
            n_inv += 1
            continue
        vals = [evalf(d, seed=s) for s in (1, 2)]
        if any(v == v and abs(v) > 1e-7 for v in vals):
            continue
        saved = list(_WORK)
        set_budget(budget)
        try:
            if is_zero(d):
                memo[a] = ZERO
                n_inv += 1
        except Budget:
            pass
        finally:
            _WORK[0], _WORK[1] = saved[0] + _WORK[0], saved[1]
    return len(lets), n_inv


def _support(datom):
    s = datom.get("__support__")
    if s is None:
        s = {k for k in datom if isinstance(k, Atom)}
    return s


def _datom(a, datom, memo):
    r = memo.get(a)
    if r is not None:
        return r
    if a in datom:
        r = lift(datom[a])
    else:
        k = a.kind
        if k in ("sym", "psym", "pc", "euler"):
            r = ZERO
        elif k == "let":
            r = derive(a.defn, datom, memo)
        elif k == "poly":
            r = derive(a.args[0], datom, memo)
        elif k == "root":
            dp = derive(a.args[0], datom, memo)
            r = dp * E({((a, -1),): Fr(1, 2)}) if dp.t else ZERO
        elif k == "abs":
            inner = a.args[0]
            ie = E.atom(inner) if isinstance(inner, Atom) else inner
            dp = _datom(inner, datom, memo) if isinstance(inner, Atom) else derive(inner, datom, memo)
            r = dp * ie * E({((a, -1),): Fr(1)}) if dp.t else ZERO
        elif k == "fn:sin":
            du = derive(a.args[0], datom, memo)
            r = Cos(a.args[0]) * du if du.t else ZERO
        elif k == "fn:cos":
            du = derive(a.args[0], datom, memo)
            r = -Sin(a.args[0]) * du if du.t else ZERO
        elif k == "fn:arctan2":
            y, x = a.args
            dy, dx = derive(y, datom, memo), derive(x, datom, memo)
            r = (x * dy - y * dx) / (x * x + y * y) if (dy.t or dx.t) else ZERO
        elif k == "fn:select":
            c_, x, y = a.args
            dx, dy = derive(x, datom, memo), derive(y, datom, memo)
            r = Fn("select", c_, dx, dy) if (dx.t or dy.t) and dx != dy else dx
        elif k == "fn:pow":
            b, ex = a.args
            db = derive(b, datom, memo)
            if derive(ex, datom, memo).t:
                raise AlgError("derivative of pow with varying exponent")
            r = ex * (b ** (ex - 1)) * db if db.t else ZERO
        elif k == "fn:sqrt":
            u = a.args[0]
            du = derive(u, datom, memo)
            r = du * E({((a, -1),): Fr(1, 2)}) if du.t else ZERO
        elif k == "fn:arccos":
            u = a.args[0]
            du = derive(u, datom, memo)
            r = -du * Sqrt(ONE - u * u).inv() if du.t else ZERO
        else:
            # uninterpreted: D = 0 iff D of every argument is 0 (decided on the arguments themselves, so that
            # atoms already known to be invariant — memo entries — count as invariant)
            dep = False

            def arg_dep(g):
                if isinstance(g, E):
                    return bool(derive(g, datom, memo).t)
                if isinstance(g, Atom):
                    return bool(_datom(g, datom, memo).t)
                if isinstance(g, (tuple, list)):
                    return any(arg_dep(x) for x in g)
                return False
            for g in a.args:
                if arg_dep(g):
                    dep = True
                    break
            if dep:
                raise AlgError(f"no derivative rule for atom kind {k}")
            r = ZERO
    memo[a] = r
    return r


# --------------------------------------------------------------------------- numeric witnesses


def _round(x):
    if x != x:
        return "nan"
    if x == 0:
        return 0.0
    return float(f"{x:.6e}")


def _prf(kind, args, seed):
    rnd = random.Random(repr((seed, kind, args)))
    return rnd.uniform(0.3, 1.7)


def _linalg_ok(a):
    n = len(a.args[0])
    if a.kind == "fn:eigvalsh":
        return any(n == m * (m + 1) // 2 for m in (1, 2, 3, 4, 6)) and len(a.args) == 2 and isinstance(a.args[1], int)
    if a.kind == "fn:eigh.vec":
        return any(n == m * (m + 1) // 2 for m in (1, 2, 3, 4, 6)) and len(a.args) == 3 and all(isinstance(x, int) for x in a.args[1:])
    if a.kind in ("fn:svd.U", "fn:svd.Vh"):
        return any(n == m * m for m in (1, 2, 3, 4, 6)) and len(a.args) == 3 and all(isinstance(x, int) for x in a.args[1:])
    return any(n == m * m for m in (1, 2, 3, 4, 6))


_LINALG_KINDS = ("fn:eigvalsh", "fn:det", "fn:inv", "fn:svd.S", "fn:eigh.vec", "fn:svd.U", "fn:svd.Vh")
_VEC_MEMO: dict = {}


def _unit_sign(V):
    """columns with their largest component made positive: a deterministic representative of each eigenvector / singular vector, so that
    the SAME axis obtained from two different decompositions compares equal; anything that depends on the sign a library happens to
    return is outside what is modelled"""
    import numpy as _np
    V = V.copy()
    for k in range(V.shape[1]):
        j = int(_np.argmax(_np.abs(V[:, k])))
        if V[j, k] < 0:
            V[:, k] = -V[:, k]
    return V


def _linalg_value(kind, args, val):
    """Library functions with a unique value are evaluated exactly at a witness point (eigenvalues in ascending order, determinant, inverse,
    singular values in descending order); eigenvectors and singular vectors (defined up to sign / rotation in degenerate cases) stay uninterpreted."""
    import numpy as _np
    vs = [val(x) for x in args[0]]
    if any(v != v or abs(v) == float("inf") for v in vs):
        return float("nan")
    try:
        if kind in ("fn:eigvalsh", "fn:eigh.vec"):
            m = next(m for m in (1, 2, 3, 4, 6) if m * (m + 1) // 2 == len(vs))
            M = _np.zeros((m, m))
            q = 0
            for i in range(m):
                for j in range(i + 1):
                    M[i, j] = M[j, i] = vs[q]
                    q += 1
            if kind == "fn:eigvalsh":
                return float(_np.linalg.eigvalsh(M)[args[1]])
            key = ("eigh", tuple(vs))
            if key not in _VEC_MEMO:
                if len(_VEC_MEMO) > 4000:
                    _VEC_MEMO.clear()
                _VEC_MEMO[key] = _unit_sign(_np.linalg.eigh(M)[1])
            return float(_VEC_MEMO[key][args[1], args[2]])
        m = next(m for m in (1, 2, 3, 4, 6) if m * m == len(vs))
        M = _np.array(vs, dtype=float).reshape(m, m)
        if kind == "fn:det":
            return float(_np.linalg.det(M))
        if kind == "fn:inv":
            return float(_np.linalg.inv(M)[args[1], args[2]])
        if kind == "fn:svd.S":
            return float(_np.linalg.svd(M, compute_uv=False)[args[1]])
        if kind in ("fn:svd.U", "fn:svd.Vh"):
            key = ("svd", tuple(vs))
            if key not in _VEC_MEMO:
                if len(_VEC_MEMO) > 4000:
                    _VEC_MEMO.clear()
                U, S_, Vh = _np.linalg.svd(M)
                # one sign choice per singular pair keeps U diag(S) Vh == M
                U2 = _unit_sign(U)
                flip = _np.array([1.0 if (U2[:, k] == U[:, k]).all() else -1.0 for k in range(U.shape[1])])
                _VEC_MEMO[key] = (U2, Vh * flip[:, None])
            U2, Vh2 = _VEC_MEMO[key]
            return float((U2 if kind == "fn:svd.U" else Vh2)[args[1], args[2]])
    except Exception:
        return float("nan")
    return float("nan")


def evalnum(e):
    """Numeric value of a CLOSED normal form (constants, pi, elementary functions, selections on decidable comparisons).
    Raises AlgError if the form has a free symbol or an uninterpreted function: it is an evaluation, not a witness."""
    return evalf(e, None, 0, strict=True)


def evalf(e, env=None, seed=0, strict=False, tie=0.0):
    """Evaluate a normal form at a pseudo-random real point (witness for non-identities).
    env maps Atom -> float for free atoms; missing atoms get values derived from (seed, atom id).
    Selections are taken by the value of their guard at the point (uninterpreted only if the guard cannot be evaluated);
    with tie > 0 two compared quantities closer than tie (relative) count as exactly equal: a point ON the boundary of a guard."""
    env = {} if env is None else env
    memo = {}

    def gval(g):
        """truth value of a structural guard tuple ('G', kind, ...) under exact evaluation"""
        if isinstance(g, bool):
            return g
        if not (isinstance(g, tuple) and g and g[0] == "G"):
            raise AlgError("guard that cannot be evaluated")
        kind = g[1]
        if kind == "cmp":
            op, x, y = g[2], g[3], g[4]
            if op == "between":
                lo, hi = y
                return val(lo) < val(x) < val(hi)
            xv, yv = val(x), val(y)
            if xv != xv or yv != yv:
                raise AlgError("guard on an undefined value")
            if tie and abs(xv - yv) <= tie * max(1.0, abs(xv), abs(yv)):
                return op in ("LtE", "GtE", "Eq")
            return {"Lt": xv < yv, "LtE": xv <= yv, "Gt": xv > yv, "GtE": xv >= yv, "Eq": xv == yv, "NotEq": xv != yv}[op]
        if kind == "not":
            return not gval(g[2])
        if kind == "and":
            return all(gval(x) for x in g[2:])
        if kind == "or":
            return any(gval(x) for x in g[2:])
        if kind == "const":
            return bool(g[2])
        raise AlgError(f"guard kind {kind} cannot be evaluated")

    def val_atom(a):
        v = memo.get(a)
        if v is not None:
            return v
        if a in env:
            v = env[a]
        else:
            k = a.kind
            if k == "pc":
                v = float(a.args[0])
            elif k == "euler":
                v = math.e
            elif k == "psym" and a.args[0] == "pi":
                v = math.pi
            elif k in ("sym", "psym") and strict:
                raise AlgError(f"free symbol {a.args[0]} in a form that was expected to be closed")
            elif k in ("sym", "psym"):
                rnd = random.Random(hash((seed, a.id)))
                v = rnd.uniform(0.3, 1.7)
                if k == "sym" and rnd.random() < 0.5:
                    v = -v
            elif k == "let":
                v = val(a.defn)
            elif k == "poly":
                v = val(a.args[0])
            elif k == "root" or k == "fn:sqrt":
                x = val(a.args[0])
                v = math.sqrt(x) if x >= 0 else float("nan")
            elif k == "abs":
                inner = a.args[0]
                v = abs(val_atom(inner) if isinstance(inner, Atom) else val(inner))
            elif k == "fn:sin":
                v = math.sin(val(a.args[0]))
            elif k == "fn:cos":
                v = math.cos(val(a.args[0]))
            elif k == "fn:arccos":
                x = val(a.args[0])
                v = math.acos(x) if -1 <= x <= 1 else float("nan")
            elif k == "fn:arctan2":
                v = math.atan2(val(a.args[0]), val(a.args[1]))
            elif k == "fn:pow":
                b, x = val(a.args[0]), val(a.args[1])
                try:
                    v = b**x
                    if isinstance(v, complex):
                        v = float("nan")
                except Exception:
                    v = float("nan")
            elif k in ("fn:max", "fn:min") and isinstance(a.args[0], tuple):
                vs = [val(x) for x in a.args[0]]
                v = (max if k == "fn:max" else min)(vs)
            elif k == "fn:arcsin":
                x = val(a.args[0])
                v = math.asin(x) if -1 <= x <= 1 else float("nan")
            elif k == "fn:arctan":
                v = math.atan(val(a.args[0]))
            elif k in _LINALG_KINDS and a.args and isinstance(a.args[0], tuple) and _linalg_ok(a):
                v = _linalg_value(k, a.args, val)
            elif k in ("fn:cosh", "fn:sinh", "fn:tanh") and len(a.args) == 1:
                x = val(a.args[0])
                try:
                    v = {"fn:cosh": math.cosh, "fn:sinh": math.sinh, "fn:tanh": math.tanh}[k](x)
                except OverflowError:
                    v = float("inf")
            elif k == "fn:log":
                x = val(a.args[0])
                v = math.log(x) if x > 0 else float("nan")
            elif strict and k == "fn:select":
                v = val(a.args[1]) if gval(a.args[0]) else val(a.args[2])
            elif k == "fn:select" and len(a.args) == 3:
                try:
                    v = val(a.args[1]) if gval(a.args[0]) else val(a.args[2])
                except AlgError:
                    v = _prf(a.kind, tuple(argval(g) for g in a.args), seed)
            elif k == "fn:inf":
                # a cell that may be infinite: the normal form cancels S*|S|^-2 -> S^-1 (valid for finite S), which IEEE inf would turn
                # into nan, so witness points use a huge finite stand-in: x/S vanishes to 30 digits, and nothing is ever proved through it
                v = 1e30
            elif k == "fn:round" and len(a.args) in (1, 2):
                x = val(a.args[0])
                nd = a.args[1] if len(a.args) == 2 else 0
                nd = int(nd.cval()) if isinstance(nd, E) and nd.is_int() else (nd if isinstance(nd, int) else 0)
                v = float("nan") if x != x or abs(x) == float("inf") else float(round(x, nd))
            elif k in ("fn:floor", "fn:ceil", "fn:trunc", "fn:int") and len(a.args) == 1:
                x = val(a.args[0])
                if tie and x == x and abs(x) != float("inf") and abs(x - round(x)) <= tie * max(1.0, abs(x)):
                    x = float(round(x))          # a point ON a jump of the step function: the argument counts as exactly that integer
                v = float("nan") if x != x or abs(x) == float("inf") else float({"fn:floor": math.floor, "fn:ceil": math.ceil}.get(k, math.trunc)(x))
            elif k == "fn:clip" and len(a.args) == 3:
                x = val(a.args[0])
                lo = None if a.args[1] == "none" else val(a.args[1])
                hi = None if a.args[2] == "none" else val(a.args[2])
                v = x if lo is None or x >= lo else lo
                v = v if hi is None or v <= hi else hi
            elif strict:
                raise AlgError(f"uninterpreted function {k} in a form that was expected to be closed")
            else:
                # uninterpreted function: a pseudo-random but *functional* value of the evaluated arguments,
                # so that semantically equal arguments (e.g. a let atom and its definition) agree
                v = _prf(a.kind, tuple(argval(g) for g in a.args), seed)
        memo[a] = v
        return v

    def argval(g):
        if isinstance(g, E):
            return _round(val(g))
        if isinstance(g, Atom):
            return _round(val_atom(g))
        if isinstance(g, (tuple, list)):
            return tuple(argval(x) for x in g)
        if isinstance(g, Fr):
            return _round(float(g))
        return g

    def val(x):
        if isinstance(x, (int, float)):
            return float(x)
        s = 0.0
        for m, c in x.t.items():
            p = float(c)
            for a, ex in m:
                b = val_atom(a)
                xx = ex if isinstance(ex, int) else val(ex)
                try:
                    p *= b**xx
                except (ZeroDivisionError, OverflowError):
                    return float("nan")
                if isinstance(p, complex):
                    return float("nan")
            s += p
        return s

    return val(lift(e))


RANDOMISED: list = []      # one entry per identity accepted by randomised testing (reported in the evidence)


def select_guards(e, limit=24):
    """Structural guards of the selections occurring (deeply) in e: list of ("G", ...) tuples, first come first kept."""
    out, seen = [], set()
    for a in sorted(atoms_of(lift(e), deep=True), key=lambda a_: a_.id):
        if a.kind == "fn:select" and len(a.args) == 3 and isinstance(a.args[0], tuple) and a.args[0] and a.args[0][0] == "G":
            k = repr(_argkey(a.args[0]))
            if k not in seen:
                seen.add(k)
                out.append(a.args[0])
                if len(out) >= limit:
                    break
    return out


def _guard_leaves(g, acc):
    if isinstance(g, tuple) and g and g[0] == "G":
        if g[1] == "cmp" and g[2] != "between" and isinstance(g[3], E) and isinstance(g[4], E):
            acc.append((g[2], g[3], g[4]))
        else:
            for x in g[2:]:
                _guard_leaves(x, acc)
    return acc


_INTERPRETED_KINDS = {"fn:sin", "fn:cos", "fn:arccos", "fn:arcsin", "fn:arctan", "fn:arctan2", "fn:pow", "fn:max", "fn:min", "fn:eigvalsh", "fn:det", "fn:inv",
                      "fn:svd.S", "fn:eigh.vec", "fn:svd.U", "fn:svd.Vh", "fn:cosh", "fn:sinh", "fn:tanh", "fn:log", "fn:select", "fn:inf", "fn:round", "fn:floor", "fn:ceil", "fn:trunc", "fn:int",
                      "fn:clip", "fn:sqrt"}
_POOL = (0.0, 1.0, 2.0, 3.0, 4.0, -1.0, 0.5, -0.5, 1e-17, 10.0)


def guard_worlds(a, b, seed, limit=40):
    """Evaluation points that the plain pseudo-random point does not reach: for every comparison x op y that guards a selection in a or
    b, (i) a point ON its boundary x == y, found by solving for one free symbol (secant iteration on the extracted form), and (ii) points
    where the comparison has the other truth value, searched in a small pool of special values for its free symbols.  Each world is
    (env, tie): it is a numeric witness point, nothing else."""
    leaves = []
    worlds, seenl = [], set()
    for g in select_guards(lift(a) - lift(b)):
        _guard_leaves(g, leaves)
        for truth in (True, False):
            eqs = {}
            _guard_equalities(g, truth, eqs)
            # an INTERPRETED function atom (sin, max, eigvalsh ...) has the value its arguments give it: overriding it would make the point
            # inconsistent with the other atoms built from the same arguments; such boundaries are reached by solving for a symbol below
            eqs = {k_: v_ for k_, v_ in eqs.items() if k_.kind not in _INTERPRETED_KINDS}
            if eqs:
                env = {}
                try:
                    for _pass in range(3):
                        for at, ex in eqs.items():
                            env[at] = evalf(ex, dict(env), seed)
                    worlds.append((env, 1e-9, f"guard {'holds' if truth else 'fails'} through its equalities", -1))
                except (AlgError, ZeroDivisionError, OverflowError):
                    pass
    # the jumps of step functions (floor, ceil, trunc, int) are boundaries too: the argument equal to a small integer
    for at in sorted(atoms_of(lift(a) - lift(b), deep=True), key=lambda a_: a_.id):
        if at.kind in ("fn:floor", "fn:ceil", "fn:trunc", "fn:int") and len(at.args) == 1 and isinstance(at.args[0], E) and len(leaves) < 60:
            for k_ in (1, 0, -1, 2):
                leaves.append(("Eq", at.args[0], lift(k_)))
    li = -1
    for op, x, y in leaves:
        d = x - y
        k = d.key()
        if k in seenl or not d.t:
            continue
        seenl.add(k)
        li += 1
        syms = sorted((s_ for s_ in atoms_of(d, deep=True) if s_.kind in ("sym", "psym") and not (s_.kind == "psym" and s_.args[0] == "pi")), key=lambda a_: a_.id)[:4]
        try:
            base = evalf(d, seed=seed)
        except AlgError:
            continue
        for s_ in syms:
            v0 = evalf(E.atom(s_), seed=seed)
            # (i) boundary: solve d(s_) = 0
            try:
                x0, x1 = v0, v0 * 1.1 + 0.05
                f0, f1 = evalf(d, {s_: x0}, seed), evalf(d, {s_: x1}, seed)
                for _ in range(40):
                    if f1 != f1 or f0 != f0 or f1 == f0:
                        break
                    x0, x1, f0 = x1, x1 - f1 * (x1 - x0) / (f1 - f0), f1
                    f1 = evalf(d, {s_: x1}, seed)
                    if abs(f1) < 1e-13:
                        break
                if f1 == f1 and abs(f1) < 1e-11 and abs(x1) < 20 and not (s_.kind == "psym" and x1 <= 0):
                    worlds.append(({s_: x1}, 1e-9, f"boundary of {op} guard", li))
            except (AlgError, ZeroDivisionError, OverflowError):
                pass
            # (ii) the other side
            nflip = 0
            for pv in _POOL:
                if s_.kind == "psym" and pv <= 0:
                    continue
                try:
                    dv = evalf(d, {s_: pv}, seed)
                except (AlgError, ZeroDivisionError, OverflowError):
                    continue
                if dv == dv and base == base and ((dv > 0) != (base > 0) or (dv == 0) != (base == 0)):
                    worlds.append(({s_: pv}, 0.0, f"other side of {op} guard ({pv:g})", li))
                    nflip += 1
                    if nflip >= (6 if op in ("Eq", "NotEq") else 2):
                        break
            if len(worlds) >= limit:
                return worlds, li + 1
    return worlds, li + 1


def _guard_equalities(g, truth, out):
    """sym -> E substitutions implied by guard g having the given truth value (only plain equalities between a bare symbol and an
    expression that does not contain it; conjunctions that hold; negated disequalities)."""
    if not (isinstance(g, tuple) and g and g[0] == "G"):
        return
    kind = g[1]
    if kind == "cmp" and g[2] in ("Eq", "NotEq") and isinstance(g[3], E) and isinstance(g[4], E):
        if (g[2] == "Eq") == truth:
            for x, y in ((g[3], g[4]), (g[4], g[3])):
                if x.is_monomial() and len(x.t) == 1:
                    ((m, c),) = x.t.items()
                    if len(m) == 1 and m[0][1] == 1 and c == 1 and (m[0][0].kind in ("sym", "psym") or m[0][0].kind.startswith("fn:")) \
                            and m[0][0].kind != "fn:select" and m[0][0] not in atoms_of(y, deep=True):
                        out.setdefault(m[0][0], y)
                        return
    elif kind == "not":
        _guard_equalities(g[2], not truth, out)
    elif kind == "and" and truth:
        for x in g[2:]:
            _guard_equalities(x, True, out)
    elif kind == "or" and not truth:
        for x in g[2:]:
            _guard_equalities(x, False, out)


def decide_by_cases(a, b, budget, max_guards=3):
    """a == b for piecewise forms: on every combination of truth values of the guards of their selections, both sides with each selection
    replaced by the branch taken (and symbols replaced by what an equality guard that holds says they equal) must be identical.
    Combinations are not tested for feasibility, so this can only establish equality, never refute."""
    gs = select_guards(lift(a) - lift(b), limit=max_guards + 1)
    if not gs or len(gs) > max_guards:
        return False
    keys = [repr(_argkey(g)) for g in gs]
    if tuple(keys) in _CASES_FAILED:
        return False          # the exact analysis already ran out of budget for this set of guards
    ok = _decide_by_cases(a, b, budget, gs, keys)
    if not ok:
        _CASES_FAILED.add(tuple(keys))
    return ok


_CASES_FAILED: set = set()


def _decide_by_cases(a, b, budget, gs, keys):
    for bits in range(2 ** len(gs)):
        truth = {k: bool(bits >> i & 1) for i, k in enumerate(keys)}
        x, y = lift(a), lift(b)
        for _round in range(4):
            mp = {}
            for at in atoms_of(x - y, deep=True):
                if at.kind == "fn:select" and len(at.args) == 3 and isinstance(at.args[0], tuple):
                    k = repr(_argkey(at.args[0]))
                    if k in truth:
                        mp[at] = at.args[1] if truth[k] else at.args[2]
            if not mp:
                break
            x, y = subst(x, mp), subst(y, mp)
        eqs = {}
        for g, k in zip(gs, keys):
            _guard_equalities(g, truth[k], eqs)
        if eqs:
            x, y = subst(x, eqs), subst(y, eqs)
        if select_guards(x - y, limit=1):
            return False
        if decide(x, y, budget, _cases=False, seconds=5)[0] != "equal":
            return False
    return True


def _library_identity(d, seps, onesided):
    """The algebra does not know the relations that eigenvalues, eigenvectors, singular values/vectors, determinants and inverses satisfy
    (M v = lambda v, U S Vh = M ...), but it evaluates them exactly at witness points.  Two forms whose difference contains such atoms and
    that agreed at all of >= 5 generic points (none undefined on one side only) are accepted as equal by randomised identity testing; the
    acceptance is counted in the evidence."""
    if onesided or len(seps) < 5 or any(x for x, _ in seps):
        return False
    if select_guards(d, limit=1):
        return False
    return any(a.kind in _LINALG_KINDS and a.args and isinstance(a.args[0], tuple) and _linalg_ok(a) for a in atoms_of(d, deep=True))


def decide(a, b, budget=1_000_000, _cases=True, seconds=30):
    """Three-valued identity decision.
    1. structural equality of the normal forms (no unfolding)            -> ("equal", None)
    2. numeric witnesses separate the two forms at every trial point     -> ("differ", witness)
    3. otherwise unfold let atoms / clear denominators under a budget    -> "equal" or ("unknown", reason)
    """
    if isinstance(a, Inf) or isinstance(b, Inf):
        return ("equal", None) if a is b else ("differ", {"lhs": repr(a), "rhs": repr(b)})
    a, b = lift(a), lift(b)
    d = a - b
    if not d.t:
        return "equal", None
    seps = []
    onesided = []
    for s in (1, 2, 3, 4, 5, 6):
        va, vb = evalf(a, seed=s), evalf(b, seed=s)
        if (va != va) != (vb != vb):
            onesided.append({"seed": s, "lhs": va, "rhs": vb, "note": "defined on one side only"})
        if va != va or vb != vb or abs(va) == float("inf") or abs(vb) == float("inf"):
            continue
        scale = max(1.0, abs(va), abs(vb))
        seps.append((abs(va - vb) > 1e-6 * scale, {"seed": s, "lhs": va, "rhs": vb}))
    if seps and sum(1 for x, _ in seps if x) >= max(2, (len(seps) + 1) // 2):
        return "differ", [w for x, w in seps if x][0]
    if len(onesided) >= 2 and not any(not x for x, _ in seps):
        return "differ", onesided[0]
    # piecewise forms: also compare on the other side of, and exactly on, the boundary of every guard of a selection
    n_base = sum(1 for x, _ in seps if not x)
    gsel = select_guards(d)
    probes = [E.atom(Atom("fn:select", g, ONE, ZERO)) for g in gsel]
    seen_truth = [set() for _ in gsel]

    def note_truth(env_w, s_, tie_w):
        for i_, pr in enumerate(probes):
            try:
                tv = evalf(pr, dict(env_w), seed=s_, tie=tie_w)
            except (AlgError, ZeroDivisionError, OverflowError):
                continue
            if tv in (0.0, 1.0):
                seen_truth[i_].add(tv)
    if gsel:
        for s in (1, 2, 3):
            note_truth({}, s, 0.0)
    try:
        for s in (1, 2, 3):
            ws, _nl = guard_worlds(a, b, s)
            for env_w, tie_w, why_w, li_w in ws:
                va, vb = evalf(a, dict(env_w), seed=s, tie=tie_w), evalf(b, dict(env_w), seed=s, tie=tie_w)
                if va != va or vb != vb or abs(va) == float("inf") or abs(vb) == float("inf"):
                    continue
                if abs(va - vb) > 1e-6 * max(1.0, abs(va), abs(vb)):
                    # confirm at a second point of the same kind before calling it a refutation
                    s2 = s + 10
                    for env2, tie2, why2, li2 in guard_worlds(a, b, s2)[0]:
                        if why2 == why_w and set(env2) == set(env_w):
                            ua, ub = evalf(a, dict(env2), seed=s2, tie=tie2), evalf(b, dict(env2), seed=s2, tie=tie2)
                            if ua == ua and ub == ub and abs(ua - ub) > 1e-6 * max(1.0, abs(ua), abs(ub)):
                                return "differ", {"seed": s, "lhs": va, "rhs": vb, "point": why_w,
                                                  "where": {(str(k_.args[0]) if k_.kind in ("sym", "psym") else repr(k_)[:40]): v_ for k_, v_ in list(env_w.items())[:6]}}
                else:
                    note_truth(env_w, s, tie_w)
    except (AlgError, ZeroDivisionError, OverflowError):
        pass
    if _cases and select_guards(d, limit=1):
        try:
            if decide_by_cases(a, b, budget):
                return "equal", None
        except (AlgError, ZeroDivisionError, OverflowError):
            pass
        # The exact case analysis ran out of budget.  Randomised identity testing (Schwartz-Zippel) over the regions of the guards: the two
        # piecewise forms agreed at >= 3 generic points and, for EVERY comparison guarding a selection, at points on its other side; they
        # are accepted as equal, and the obligation is recorded as decided that way.
        if gsel and n_base >= 3 and all(t_ == {0.0, 1.0} for t_ in seen_truth):
            RANDOMISED.append(1)
            return "equal", {"by": "randomised identity test over the regions of the guards (every guard seen to hold and to fail at tested points)", "points": n_base}
    saved = list(_WORK)
    saved_deadline = _DEADLINE[0]
    set_budget(budget, seconds=seconds)
    try:
        if is_zero(d):
            return "equal", None
    except Budget as ex:
        if _library_identity(d, seps, onesided):
            RANDOMISED.append(1)
            return "equal", {"by": "randomised identity test (library eigen/singular decompositions evaluated exactly at the points)", "points": len(seps)}
        return "unknown", str(ex)
    finally:
        _WORK[0], _WORK[1] = saved[0] + _WORK[0], saved[1]
        _DEADLINE[0] = saved_deadline
    if seps and any(x for x, _ in seps):
        return "differ", [w for x, w in seps if x][0]
    if _library_identity(d, seps, onesided):
        RANDOMISED.append(1)
        return "equal", {"by": "randomised identity test (library eigen/singular decompositions evaluated exactly at the points)", "points": len(seps)}
    return "unknown", "normal forms differ after unfolding but no numeric witness separates them"


def evald(e, datom, seed=0):
    """Numeric forward-mode evaluation of (e, D(e)) at a pseudo-random point, for the derivation D given
    by datom.  Linear in the size of the let-DAG; used to screen Lie-derivative identities before the
    exact symbolic decision."""
    memo = {}

    def plain(x):
        return evalf(x, env=base, seed=seed)

    base = {}

    def atom(a):
        r = memo.get(a)
        if r is not None:
            return r
        k = a.kind
        if a in datom and isinstance(a, Atom):
            v = evalf(E.atom(a), seed=seed)
            d = evalf(lift(datom[a]), seed=seed)
        elif k in ("sym", "psym", "pc", "euler"):
            v = evalf(E.atom(a), seed=seed)
            d = 0.0
        elif k == "let":
            v, d = val(a.defn)
        elif k == "poly":
            v, d = val(a.args[0])
        elif k in ("root", "fn:sqrt"):
            x, dx = val(a.args[0])
            v = math.sqrt(x) if x >= 0 else float("nan")
            d = dx / (2 * v) if v else float("nan")
        elif k == "abs":
            inner = a.args[0]
            x, dx = atom(inner) if isinstance(inner, Atom) else val(inner)
            v, d = abs(x), (dx if x >= 0 else -dx)
        elif k == "fn:sin":
            x, dx = val(a.args[0])
            v, d = math.sin(x), math.cos(x) * dx
        elif k == "fn:cos":
            x, dx = val(a.args[0])
            v, d = math.cos(x), -math.sin(x) * dx
        elif k == "fn:arccos":
            x, dx = val(a.args[0])
            v = math.acos(x) if -1 <= x <= 1 else float("nan")
            d = -dx / math.sqrt(1 - x * x) if -1 < x < 1 else float("nan")
        elif k == "fn:arctan2":
            (y, dy), (x, dx) = val(a.args[0]), val(a.args[1])
            v, d = math.atan2(y, x), (x * dy - y * dx) / (x * x + y * y)
        elif k == "fn:pow":
            (b, db), (x, dx) = val(a.args[0]), val(a.args[1])
            try:
                v = b ** x
                d = x * b ** (x - 1) * db + (v * math.log(b) * dx if dx else 0.0)
                if isinstance(v, complex) or isinstance(d, complex):
                    v = d = float("nan")
            except Exception:
                v = d = float("nan")
        elif k == "fn:select":
            take_a = (hash((seed, a.id)) & 1) == 0
            v, d = val(a.args[1] if take_a else a.args[2])
        elif k in ("fn:max", "fn:min"):
            pairs = [val(x) for x in a.args[0]]
            v, d = (max if k == "fn:max" else min)(pairs, key=lambda p: p[0])
        else:
            v = evalf(E.atom(a), seed=seed)
            d = 0.0
            acc = set()
            for g in a.args:
                _arg_atoms(g, acc)
            for b in acc:
                if atom(b)[1] != 0.0:
                    d = float("nan")  # unknown derivative of an uninterpreted function
                    break
        memo[a] = (v, d)
        return v, d

    def val(x):
        if not isinstance(x, E):
            x = lift(x)
        sv, sd = 0.0, 0.0
        for m, c in x.t.items():
            pv, pd = float(c), 0.0
            for a, ex in m:
                b, db = atom(a)
                if isinstance(ex, int):
                    xx, dxx = ex, 0.0
                else:
                    xx, dxx = val(ex)
                try:
                    t = b ** xx
                    dt = (xx * b ** (xx - 1) * db if db else 0.0) + (t * math.log(b) * dxx if dxx else 0.0)
                except Exception:
                    return float("nan"), float("nan")
                if isinstance(t, complex) or isinstance(dt, complex):
                    return float("nan"), float("nan")
                pv, pd = pv * t, pd * t + pv * dt
            sv += pv
            sd += pd
        return sv, sd

    return val(lift(e))


def refuted(a, b, trials=3):
    """For a pair already found unequal by normalisation: confirm with numeric witnesses.
    Returns (True, witness) if some evaluation separates them, (False, None) if none does."""
    for s in range(trials):
        va, vb = evalf(a, seed=s + 1), evalf(b, seed=s + 1)
        if va != va or vb != vb:
            continue
        scale = max(1.0, abs(va), abs(vb))
        if abs(va - vb) > 1e-7 * scale:
            return True, {"seed": s + 1, "lhs": va, "rhs": vb}
    return False, None
