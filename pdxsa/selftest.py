"""Self-test of the checkers: mutant corpus (must be reported), benign-refactor corpus (must stay silent).

Each case copies /repo/src/pydrex to a scratch directory OUTSIDE /repo and /verif, applies one textual edit
(exact-substring replacement; a case whose anchor text no longer exists is reported STALE, not failed),
runs the named check(s) with --repo on the copy, and removes the copy.  Nothing here decides a property;
it tests the machinery both ways (DESIGN.md 2.6).
"""

from __future__ import annotations

import json
import os
import shutil
import subprocess
import sys
import tempfile
from concurrent.futures import ThreadPoolExecutor

VERIF = os.path.dirname(os.path.dirname(os.path.abspath(__file__)))

# (name, property ids, file, old, new, expectation)  expectation: "violation" | "pass"
M = "violation"
B = "pass"
CASES = [
    # ---------------- core kernel (C02 / C03 / C04)
    ("core-exponent-n", ["C02"], "core.py", "** (deformation_exponent - 1)\n    slip_rates[i_int]", "** (deformation_exponent)\n    slip_rates[i_int]", M),
    ("core-schmid-index-swap", ["C02", "C04"], "core.py", "+ slip_rates[2] * orientation[2, i] * orientation[1, j]", "+ slip_rates[2] * orientation[1, i] * orientation[2, j]", M),
    ("core-yield-factor", ["C02"], "core.py", "strain_residuals = 0.3 * (mean_energy - strain_energies)", "strain_residuals = 0.5 * (mean_energy - strain_energies)", M),
    ("core-crss-B-row", ["C02"], "core.py", "return np.array([3, 2, 1, np.inf])", "return np.array([3, 1, 2, np.inf])", M),
    ("core-unweighted-mean", ["C02", "C03"], "core.py", "mean_energy = np.sum(fractions * strain_energies)\n        # Strain energy residual.", "mean_energy = np.mean(strain_energies)\n        # Strain energy residual.", M),
    ("core-energy-four-systems", ["C02"], "core.py", "    for i in range(3):\n        dislocation_density", "    for i in range(4):\n        dislocation_density", M),
    ("core-spin-sign", ["C02"], "core.py", "- (deformation_rate[s, r] - deformation_rate[r, s]) * slip_rate_softest", "+ (deformation_rate[s, r] - deformation_rate[r, s]) * slip_rate_softest", M),
    ("core-drop-fractions-factor", ["C03"], "core.py", "fractions_diff = volume_fraction * gbm_mobility * fractions * strain_residuals\n        return orientations_diff, fractions_diff\n    elif regime == DeformationRegime.sliding_dislocation",
     "fractions_diff = volume_fraction * gbm_mobility * strain_residuals\n        return orientations_diff, fractions_diff\n    elif regime == DeformationRegime.sliding_dislocation", M),
    ("core-denominator-guard-removed", ["C03"], "core.py", "    if -1e-15 < denominator < 1e-15:", "    if False:", M),
    ("core-noslip-guard-removed", ["C03"], "core.py", "        if np.all(slip_activities == 0):", "        if False:", M),
    ("core-nonskew-spin", ["C03"], "core.py", "PERMUTATION_SYMBOL[q, r, s] * orientation[p, s] * spin_vector[r]", "PERMUTATION_SYMBOL[q, r, s] * orientation[p, s] * spin_vector[r] + 0.01 * orientation[p, q]", M),
    ("core-invariant-transposed-index", ["C04", "C02"], "core.py", "invariants[0] += strain_rate[i, j] * orientation[0, i] * orientation[1, j]", "invariants[0] += strain_rate[i, j] * orientation[i, 0] * orientation[1, j]", M),
    ("core-abs-dropped", ["C04"], "core.py", "slip_rates[i_min] = ratio_min * np.abs(ratio_min) **", "slip_rates[i_min] = ratio_min * (ratio_min) **", M),
    ("core-regime-silently-accepted", ["C07"], "core.py", "    elif regime == DeformationRegime.boundary_diffusion:\n        raise ValueError(\"this deformation mechanism is not yet supported.\")",
     "    elif regime == DeformationRegime.boundary_diffusion:\n        return (np.zeros((n_grains, 3, 3)), np.zeros(n_grains))", M),
    ("core-null-regime-identity", ["C07"], "core.py", "    if regime == DeformationRegime.min_viscosity:\n        # Do absolutely nothing, all derivatives are zero.\n        return (\n            np.zeros((n_grains, 3, 3)),",
     "    if regime == DeformationRegime.min_viscosity:\n        # Do absolutely nothing, all derivatives are zero.\n        return (\n            np.repeat(np.eye(3), n_grains).reshape(3, 3, n_grains).transpose(),", M),
    ("core-crss-accepts-mismatch", ["C07"], "core.py", "        raise ValueError(f\"unsupported enstatite fabric: {fabric}\")", "        return np.array([np.inf, np.inf, np.inf, 1])", M),
    # ---------------- driver (C01 C05 C06 C08 C09)
    ("utils-no-clip", ["C01"], "utils.py", ".reshape((n_grains, 3, 3)).clip(-1, 1)", ".reshape((n_grains, 3, 3))", M),
    ("utils-no-renormalise", ["C01"], "utils.py", "    fractions = y[n_grains * 9 + 9 : n_grains * 10 + 9].clip(0, None)\n    fractions /= fractions.sum()", "    fractions = y[n_grains * 9 + 9 : n_grains * 10 + 9].clip(0, None)", M),
    ("minerals-append-in-step", ["C01", "C07"], "minerals.py", "            solver.y[9:] = np.hstack((orientations.flatten(), fractions))", "            solver.y[9:] = np.hstack((orientations.flatten(), fractions)); self.orientations.append(orientations)", M),
    ("minerals-overwrite-last", ["C01"], "minerals.py", "        self.orientations.append(orientations)\n        self.fractions.append(fractions)", "        self.orientations[-1] = orientations\n        self.fractions.append(fractions)", M),
    ("utils-gbs-writes-prev", ["C01", "C09"], "utils.py", "    orientations[mask, :, :] = orientations_prev[mask, :, :]", "    orientations_prev[mask, :, :] = orientations[mask, :, :]", M),
    ("minerals-unseeded", ["C01"], "minerals.py", "self.n_grains, random_state=self.seed", "self.n_grains", M),
    ("minerals-rhs-unscaled-block", ["C05"], "minerals.py", "orientations_diff.flatten() * strain_rate_max,", "orientations_diff.flatten(),", M),
    ("minerals-absolute-first-step", ["C05"], "minerals.py", "first_step=kwargs.pop(\"first_step\", np.abs(time_end - time_start) * 1e-1)", "first_step=kwargs.pop(\"first_step\", 1e-3)", M),
    ("minerals-scale-offset", ["C05"], "minerals.py", "strain_rate_max = np.abs(la.eigvalsh(strain_rate)).max()", "strain_rate_max = np.abs(la.eigvalsh(strain_rate)).max() + 1e-20", M),
    ("minerals-F-at-L", ["C06"], "minerals.py", "deformation_gradient_diff = velocity_gradient @ deformation_gradient", "deformation_gradient_diff = deformation_gradient @ velocity_gradient", M),
    ("minerals-position-at-start", ["C06"], "minerals.py", "            position = get_position(t)", "            position = get_position(time_start)", M),
    ("minerals-update-all-chains-F", ["C06"], "minerals.py", "        new_deformation_gradient = mineral.update_orientations(", "        deformation_gradient = new_deformation_gradient = mineral.update_orientations(", M),
    ("minerals-first-phase-fraction", ["C08"], "minerals.py", "                    params[\"phase_assemblage\"].index(self.phase)\n                ]", "                    0\n                ]", M),
    ("minerals-foreign-fraction", ["C08"], "minerals.py", "                gbm_mobility=params[\"gbm_mobility\"],", "                gbm_mobility=params[\"gbm_mobility\"] * sum(params[\"phase_fractions\"]),", M),
    ("utils-gbs-nonstrict", ["C09"], "utils.py", "    mask = fractions < (gbs_threshold / n_grains)", "    mask = fractions <= (gbs_threshold / n_grains)", M),
    ("utils-gbs-floor-chi", ["C09"], "utils.py", "    fractions[mask] = gbs_threshold / n_grains", "    fractions[mask] = gbs_threshold", M),
    ("minerals-gbs-first-snapshot", ["C09"], "minerals.py", "                self.orientations[-1],\n                self.n_grains,", "                self.orientations[0],\n                self.n_grains,", M),
    # ---------------- tensors / diagnostics
    ("tensors-voigt-index", ["C11"], "tensors.py", "                    j = (r + 1) * delta_rs + (1 - delta_rs) * (7 - r - s) - 1\n                    tensor[p, q, r, s] = matrix[i, j]", "                    j = (r + 1) * delta_rs + (1 - delta_rs) * (6 - r - s)\n                    tensor[p, q, r, s] = matrix[i, j]", M),
    ("tensors-hex-project", ["C11"], "tensors.py", "    out[3] = out[4] = (x[3] + x[4]) / 2", "    out[3] = out[4] = (x[3] + x[4]) / 3", M),
    ("tensors-rotate-index", ["C11", "C10"], "tensors.py", "                                        * rotation[L, d]", "                                        * rotation[d, L]", M),
    ("minerals-voigt-no-transpose", ["C10"], "minerals.py", "                        mineral.orientations[i][n, ...].transpose(),", "                        mineral.orientations[i][n, ...],", M),
    ("minerals-voigt-assemblage-index", ["C10"], "minerals.py", "                        phase_tensors[mineral.phase],", "                        phase_tensors[phase_assemblage.index(mineral.phase)],", M),
    ("diag-shear-modulus", ["C12"], "diagnostics.py", "        G = (np.trace(stiffness_deviat) - 3 * K) / 10", "        G = (np.trace(stiffness_deviat) - 3 * K) / 9", M),
    ("diag-class-vector-order", ["C12"], "diagnostics.py", "            ortho_vector = ortho_and_higher_vector - tetr_and_higher_vector", "            ortho_vector = ortho_and_higher_vector - hex_and_higher_vector", M),
    ("diag-axis-column", ["C12"], "diagnostics.py", "out[\"hexagonal_axis\"][m, ...] = permuted_SCCS[:, 2]", "out[\"hexagonal_axis\"][m, ...] = permuted_SCCS[:, 0]", M),
    ("stats-scatter-transposed", ["C13"], "stats.py", "scatter[1, 0] = np.sum(orientations[:, row, 0] * orientations[:, row, 1])", "scatter[1, 0] = np.sum(orientations[:, 0, row] * orientations[:, 1, row])", M),
    ("stats-scatter-upper", ["C13"], "stats.py", "    scatter[2, 1] = np.sum(", "    scatter[1, 2] = np.sum(", M),
    ("diag-ascending-pgr", ["C13"], "diagnostics.py", "eigvals_descending = la.eigvalsh(scatter)[::-1]", "eigvals_descending = la.eigvalsh(scatter)", M),
    ("diag-right-cauchy-green", ["C13"], "diagnostics.py", "        deformation_gradient @ deformation_gradient.transpose(),", "        deformation_gradient.transpose() @ deformation_gradient,", M),
    ("diag-imap-unordered", ["C14"], "diagnostics.py", "            for i, out in enumerate(pool.imap(_run, orientation_stack)):\n                m_indices[i] = out\n    else:", "            for i, out in enumerate(pool.imap_unordered(_run, orientation_stack)):\n                m_indices[i] = out\n    else:", M),
    ("diag-mindex-factor", ["C14"], "diagnostics.py", "    return (θmax / (2 * len(misorientations_count))) * np.sum(", "    return (θmax / (len(misorientations_count))) * np.sum(", M),
    ("stats-thetamax-table", ["C14"], "stats.py", "        case s.tetragonal | s.hexagonal:", "        case s.tetragonal:", M),
    ("stats-resample-unsorted-take", ["C15"], "stats.py", "out_orientations[i, ...] = orient[sort_ascending][count_less]", "out_orientations[i, ...] = orient[count_less]", M),
    ("stats-resample-unseeded", ["C15"], "stats.py", "    rng = np.random.default_rng(seed=seed)", "    rng = np.random.default_rng()", M),
    ("stats-resample-unpinned", ["C15"], "stats.py", "        cumfrac[-1] = 1.0", "        pass", M),
    ("stats-resample-shape-test", ["C15"], "stats.py", "        or _orientations.shape[2:] != (3, 3)", "        or _orientations.shape[2] != _orientations.shape[3] != 3", M),
    # ---------------- io
    ("io-header-unvalidated", ["C16"], "io.py", "    if not _validate_scsv_schema(schema):\n        raise _err.SCSVError(\n            \"refusing to write invalid schema to stream.\"", "    if False:\n        raise _err.SCSVError(\n            \"refusing to write invalid schema to stream.\"", M),
    ("io-no-unlink", ["C16"], "io.py", "        path.unlink(missing_ok=True)", "        pass", M),
    ("io-unquoted-fill", ["C16"], "io.py", "stream.write(f\"      fill: {_yaml_scalar(fill)}{os.linesep}\")", "stream.write(f\"      fill: {fill}{os.linesep}\")", M),
    ("io-terse-map", ["C16"], "io.py", "    \"c\": \"complex\",\n}", "    \"c\": \"cplx\",\n}", M),
    ("io-meta-order", ["C17"], "minerals.py", "[self.phase, self.fabric, self.regime], dtype=np.uint8", "[self.fabric, self.phase, self.regime], dtype=np.uint8", M),
    ("io-postfix-template", ["C17"], "minerals.py", "f\"{key}_{postfix}\", \"w\", force_zip64=True", "f\"{postfix}_{key}\", \"w\", force_zip64=True", M),
    ("io-zip-write-mode", ["C17"], "minerals.py", "archive = ZipFile(filename, mode=\"a\", allowZip64=True)", "archive = ZipFile(filename, mode=\"w\", allowZip64=True)", M),
    ("io-float32", ["C17"], "minerals.py", "                \"fractions\": np.stack(self.fractions),", "                \"fractions\": np.stack(self.fractions).astype(np.float32),", M),
    ("io-check-after-write", ["C17"], "minerals.py", "        if len(self.fractions) != len(self.orientations):\n            raise ValueError(\n                \"Length of stored results must match.\"", "        _io.resolve_path(filename)\n        if len(self.fractions) != len(self.orientations):\n            raise ValueError(\n                \"Length of stored results must match.\"", M),
    ("io-config-builtin-input", ["C19"], "io.py", "not {type(_input['timestep'])}", "not {type(input['timestep'])}", M),
    ("io-config-indexerror", ["C19"], "io.py", "            return _core.MineralPhase(ϕ)\n        except ValueError:", "            return _core.MineralPhase(ϕ)\n        except IndexError:", M),
    ("io-config-output-detached", ["C19"], "io.py", "    _output = toml.setdefault(\"output\", {})", "    _output = toml.get(\"output\", {})", M),
    ("io-config-unguarded-option", ["C19"], "io.py", "    if level not in output_opts:\n        # By default, output is produced for all simulated mineral phases.\n        output_opts[level] = list(phase_assemblage)\n        return\n", "", M),
    ("mock-plain-attribute", ["C19"], "mock.py", "    gbm_mobility: int = 0\n", "    gbm_mobility = 0\n", M),
    ("core-default-wrong-type", ["C19"], "core.py", "    gbs_threshold: float = 0.3\n", "    gbs_threshold: float = 1\n", M),
    # ---------------- geometry / velocity
    ("velocity-corner-term", ["C18"], "velocity.py", "    grad_v[horizontal, vertical] = h**3", "    grad_v[horizontal, vertical] = h**2 * v", M),
    ("geometry-axis-table", ["C18"], "geometry.py", "        case (\"Z\", \"Y\"):\n            indices = (2, 1)", "        case (\"Z\", \"Y\"):\n            indices = (1, 2)", M),
    ("pathlines-jac-is-func", ["C18"], "pathlines.py", "        jac=_ivp_jac,", "        jac=_ivp_func,", M),
    ("pathlines-unreversed", ["C18"], "pathlines.py", "        return path.t[::-1], path.sol", "        return path.t, path.sol", M),
    ("utils-strain-increment", ["C18"], "utils.py", "            np.linalg.eigvalsh((velocity_gradient + velocity_gradient.transpose()) / 2)", "            np.linalg.eigvalsh((velocity_gradient + velocity_gradient.transpose()))", M),
    ("geometry-spherical-old", ["C20"], "geometry.py", "np.arccos(z / r))", "np.sign(y) * np.arccos(x / np.sqrt(x**2 + y**2)))", M),
    ("geometry-lambert-sign", ["C20"], "geometry.py", "prefactor = np.sqrt((1 - zvals) /", "prefactor = np.sqrt((1 + zvals) /", M),
    ("geometry-poles-axis", ["C20"], "geometry.py", "yvals = directions[:, axes_map[_ref_axes[1]]]", "yvals = directions[:, axes_map[_ref_axes[0]]]", M),
    ("stats-clip-before-normalise", ["C20"], "stats.py", "    totals /= totals.mean()\n    totals[totals < 0] = 0", "    totals[totals < 0] = 0\n    totals /= totals.mean()", M),
    # ---------------- rules added after the third seeded round
    ("io-skip-whitespace-lines", ["C16"], "io.py", "            if line == \"\\n\":  # Empty lines are skipped.", "            if not line.strip():  # Empty lines are skipped.", M),
    ("core-asdict-defaults", ["C19"], "core.py", "        return asdict(self)", "        return {k: v.default for k, v in self.__dataclass_fields__.items()}", M),
    ("io-output-default-anisotropy", ["C19"], "io.py", "[\"Voigt\", \"hexaxis\", \"moduli\", \"%decomp\"]", "[\"Voigt\", \"hexaxis\", \"moduli\"]", M),
    ("io-strain-final-default", ["C19"], "io.py", "_input.get(\"strain_final\", np.inf)", "_input.get(\"strain_final\", 0.0)", M),
    ("io-fraction-sum-unchecked", ["C19"], "io.py", "    if np.abs(np.sum(_params[\"phase_fractions\"]) - 1.0) > 1e-16:", "    if np.abs(np.sum(_params[\"phase_fractions\"]) - 1.0) > 1.0:", M),
    ("diag-sccs-wrong-column", ["C12"], "diagnostics.py", "eigv_vij[:, int(abs(index_vij))]", "eigv_vij[:, i]", M),
    ("diag-sccs-unsigned", ["C12"], "diagnostics.py", "eigv_dij[:, i] + index_vij * eigv_vij", "eigv_dij[:, i] + eigv_vij", M),
    ("stats-resample-unsorted-volumes", ["C15"], "stats.py", "        out_fractions[i, ...] = frac_ascending[count_less]", "        out_fractions[i, ...] = frac[count_less]", M),
    ("minerals-gbs-skipped-at-zero-mobility", ["C09"], "minerals.py", "            deformation_gradient, orientations, fractions = _utils.extract_vars(\n                solver.y, self.n_grains\n            )",
     "            if params[\"gbm_mobility\"] == 0:\n                return\n            deformation_gradient, orientations, fractions = _utils.extract_vars(\n                solver.y, self.n_grains\n            )", M),
    ("minerals-regime-read-once", ["C07"], "minerals.py", "            if get_regime is not None:\n                self.regime = get_regime(t, position)\n", "            if get_regime is not None and t == time_start:\n                self.regime = get_regime(t, position)\n", M),
    ("minerals-position-clipped", ["C06"], "minerals.py", "            position = get_position(t)", "            position = get_position(np.clip(t, time_start, time_end))", M),
    ("minerals-postfix-stringified", ["C17"], "minerals.py", "            if postfix is not None:\n                _log.info(\"saving Mineral to file %s (postfix: %s)\", filename, postfix)", "            if postfix is not None:\n                postfix = _io.stringify(postfix)\n                _log.info(\"saving Mineral to file %s (postfix: %s)\", filename, postfix)", M),
    ("minerals-voigt-skip-zero-mispaired", ["C10"], "minerals.py", "            for n in range(n_grains):\n                average_tensors[i] += _tensors.elastic_tensor_to_voigt(\n                    _tensors.rotate(\n                        phase_tensors[mineral.phase],\n                        mineral.orientations[i][n, ...].transpose(),\n                    )\n                    * mineral.fractions[i][n]",
     "            fractions = mineral.fractions[i]\n            orientations = mineral.orientations[i][fractions > 0]\n            for n in range(len(orientations)):\n                average_tensors[i] += _tensors.elastic_tensor_to_voigt(\n                    _tensors.rotate(\n                        phase_tensors[mineral.phase],\n                        orientations[n, ...].transpose(),\n                    )\n                    * fractions[n]", M),
    ("io-loglevel-default-dropped", ["C19"], "io.py", "    _output[\"log_level\"] = _output.get(\"log_level\", \"WARNING\")", "    if \"log_level\" in _output:\n        _output[\"log_level\"] = str(_output[\"log_level\"])", M),
    ("io-fabric-lowercase", ["C19"], "io.py", "_core.MineralFabric, \"olivine_\" + _params[\"initial_olivine_fabric\"]", "_core.MineralFabric, \"olivine_\" + _params[\"initial_olivine_fabric\"].lower()", M),
    ("io-coefficients-too-many-accepted", ["C19"], "io.py", "    if n_provided != n_required:", "    if n_provided < n_required - 5:", M),
    ("stats-density-normalised-by-sum", ["C20"], "stats.py", "    totals /= totals.mean()\n", "    totals /= totals.sum()\n", M),
    ("stats-density-clip-before-normalise", ["C20"], "stats.py", "    totals /= totals.mean()\n    totals[totals < 0] = 0\n", "    totals[totals < 0] = 0\n    totals /= totals.mean()\n", M),
    ("stats-density-first-datum-only", ["C20"], "stats.py", "        totals[i] = (density.sum() - 0.5) / scale", "        totals[i] = (density[0] * density.size - 0.5) / scale", M),
    ("geo-angles-unclipped-single-variant", ["C14"], "geometry.py", "    angles = np.empty((q1_array.shape[0], q1_array.shape[1] * q2_array.shape[1]))\n", "    if q1_array.shape[1] == 1 and q2_array.shape[1] == 1:\n        return 2 * np.rad2deg(np.arccos(np.abs(np.sum(q1_array[:, 0] * q2_array[:, 0], axis=1))))\n    angles = np.empty((q1_array.shape[0], q1_array.shape[1] * q2_array.shape[1]))\n", M),
    ("geo-angles-max-instead-of-min", ["C14"], "geometry.py", "    return np.array([np.min(a) for a in angles])", "    return np.array([np.max(a) for a in angles])", M),
    ("geo-angles-no-abs", ["C14"], "geometry.py", "                    np.abs(\n                        np.clip(", "                    (\n                        np.clip(", M),
    # ---------------- benign refactors (must stay silent)
    ("benign-rename-locals", ["C02", "C03"], "core.py", "    invariants = np.zeros(4)\n    for i in range(3):\n        for j in range(3):\n            # (010)[100]\n            invariants[0] +=",
     "    invariants = np.zeros(4)\n    for i in range(3):\n        for j in range(3):\n            # slip system (010)[100]\n            invariants[0] +=", B),
    ("benign-reorder-summands", ["C02", "C04"], "core.py", "                slip_rates[0] * orientation[0, i] * orientation[1, j]\n                + slip_rates[1] * orientation[0, i] * orientation[2, j]",
     "                slip_rates[1] * orientation[0, i] * orientation[2, j]\n                + slip_rates[0] * orientation[0, i] * orientation[1, j]", B),
    ("benign-einsum-invariant", ["C02", "C03"], "core.py", "            invariants[0] += strain_rate[i, j] * orientation[0, i] * orientation[1, j]\n", "            pass\n    invariants[0] = np.einsum(\"ij,i,j\", strain_rate, orientation[0], orientation[1])\n    for i in range(3):\n        for j in range(3):\n", B),
    ("benign-rename-helper", ["C02", "C03"], "core.py", "_get_deformation_rate", "_schmid_tensor", B),
    ("benign-ravel", ["C01", "C06"], "minerals.py", "                deformation_gradient.flatten(),\n                self.orientations[-1].flatten(),", "                deformation_gradient.ravel(),\n                self.orientations[-1].ravel(),", B),
    ("benign-npsum", ["C01", "C09"], "utils.py", "    fractions[mask] = gbs_threshold / n_grains\n    fractions /= fractions.sum()", "    fractions[mask] = gbs_threshold / n_grains\n    fractions /= np.sum(fractions)", B),
    ("benign-npclip", ["C01", "C09"], "utils.py", "    orientations = y[9 : n_grains * 9 + 9].reshape((n_grains, 3, 3)).clip(-1, 1)", "    orientations = np.clip(y[9 : n_grains * 9 + 9].reshape((n_grains, 3, 3)), -1, 1)", B),
    ("benign-logging", ["C01", "C06", "C08"], "minerals.py", "        perform_step(solver)\n        while solver.status == \"running\":", "        _log.debug(\"starting solver loop at t=%s\", time_start)\n        perform_step(solver)\n        while solver.status == \"running\":", B),
    ("benign-rotate-einsum", ["C11", "C10"], "tensors.py", "    rotated_tensor = np.zeros((3, 3, 3, 3))\n    for i in range(3):", "    return np.einsum(\"ia,jb,kc,ld,abcd->ijkl\", rotation, rotation, rotation, rotation, tensor)\n    rotated_tensor = np.zeros((3, 3, 3, 3))\n    for i in range(3):", B),
    ("benign-gbs-helper-split", ["C09", "C01"], "utils.py", "    mask = fractions < (gbs_threshold / n_grains)\n", "    threshold = gbs_threshold / n_grains\n    mask = fractions < threshold\n", B),
    ("benign-validate-variable", ["C16"], "io.py", "    if not _validate_scsv_schema(schema):\n        raise _err.SCSVError(\n            \"refusing to write invalid schema to stream.\"", "    if not _validate_scsv_schema(schema):\n        raise _err.SCSVError(\n            \"refusing to write an invalid schema to stream.\"", B),
    ("benign-config-comment", ["C19"], "io.py", "    # Make sure volume fractions sum to 1.", "    # Volume fractions must sum to one.", B),
    ("benign-pathline-rename", ["C18"], "pathlines.py", "def _ivp_jac(", "def _ivp_jacobian(", B),
    ("benign-outer-schmid", ["C02", "C04"], "core.py", "    deformation_rate = np.empty((3, 3))\n    for i in range(3):\n        for j in range(3):\n            deformation_rate[i, j] = 2 * (",
     "    deformation_rate = np.empty((3, 3))\n    return 2 * (slip_rates[0] * np.outer(orientation[0], orientation[1]) + slip_rates[1] * np.outer(orientation[0], orientation[2])\n                + slip_rates[2] * np.outer(orientation[2], orientation[1]) + slip_rates[3] * np.outer(orientation[2], orientation[0]))\n    for i in range(3):\n        for j in range(3):\n            deformation_rate[i, j] = 2 * (", B),
    ("benign-crss-if-chain", ["C02", "C07"], "core.py", "            case MineralFabric.olivine_A:\n                return np.array([1, 2, 3, np.inf])", "            case MineralFabric.olivine_A:\n                crss_a = [1, 2, 3, np.inf]\n                return np.array(crss_a)", B),
    ("benign-concatenate", ["C01", "C06", "C05"], "minerals.py", "            return np.hstack(\n                (\n                    deformation_gradient_diff.flatten(),\n                    orientations_diff.flatten() * strain_rate_max,\n                    fractions_diff * strain_rate_max,\n                )\n            )",
     "            return np.concatenate(\n                (\n                    deformation_gradient_diff.ravel(),\n                    strain_rate_max * orientations_diff.ravel(),\n                    strain_rate_max * fractions_diff,\n                )\n            )", B),
    ("benign-sym-part-helper", ["C05", "C06", "C04"], "minerals.py", "            strain_rate = (velocity_gradient + velocity_gradient.transpose()) / 2", "            strain_rate = 0.5 * (velocity_gradient + velocity_gradient.T)", B),
    ("benign-zeros-for-empty", ["C02", "C03"], "core.py", "        strain_energies = np.empty(n_grains)\n        orientations_diff = np.empty((n_grains, 3, 3))\n        for grain_index in range(n_grains):\n            orientation_change, strain_energy = _get_rotation_and_strain(\n                phase,\n                fabric,\n                orientations[grain_index],\n                strain_rate,\n                velocity_gradient,\n                stress_exponent,\n                deformation_exponent,\n                nucleation_efficiency,\n            )\n            orientations_diff[grain_index] = orientation_change\n",
     "        strain_energies = np.zeros(n_grains)\n        orientations_diff = np.zeros((n_grains, 3, 3))\n        for grain_index in range(n_grains):\n            orientation_change, strain_energy = _get_rotation_and_strain(\n                phase,\n                fabric,\n                orientations[grain_index],\n                strain_rate,\n                velocity_gradient,\n                stress_exponent,\n                deformation_exponent,\n                nucleation_efficiency,\n            )\n            orientations_diff[grain_index, :, :] = orientation_change\n", B),
    ("benign-voigt-enumerate", ["C10"], "minerals.py", "    for i in range(n_steps):\n        for mineral in minerals:\n            for n in range(n_grains):", "    for i in range(n_steps):\n        for mineral in list(minerals):\n            for n in range(n_grains):", B),
    ("benign-scatter-einsum", ["C13"], "stats.py", "    scatter[0, 0] = np.sum(orientations[:, row, 0] ** 2)", "    scatter[0, 0] = np.sum(orientations[:, row, 0] * orientations[:, row, 0])", B),
    ("benign-save-dict-order", ["C17"], "minerals.py", "                \"fractions\": np.stack(self.fractions),\n                \"orientations\": np.stack(self.orientations),", "                \"orientations\": np.stack(self.orientations),\n                \"fractions\": np.stack(self.fractions),", B),
    ("benign-resample-names", ["C15"], "stats.py", "        count_less = np.searchsorted(cumfrac, rng.random(n_samples))", "        uniform = rng.random(n_samples)\n        count_less = np.searchsorted(cumfrac, uniform)", B),
    ("benign-tospherical-hypot", ["C20"], "geometry.py", "    r = np.sqrt(x**2 + y**2 + z**2)", "    r = np.sqrt(x * x + y * y + z * z)", B),
    ("benign-corner-factor", ["C18"], "velocity.py", "    prefactor = 4 * plate_speed / (np.pi * (h**2 + v**2) ** 2)", "    r2 = h**2 + v**2\n    prefactor = 4 * plate_speed / (np.pi * r2 * r2)", B),
    ("benign-config-local", ["C19"], "io.py", "    n_provided = len(_params[\"disl_coefficients\"])", "    coeffs = _params[\"disl_coefficients\"]\n    n_provided = len(coeffs)", B),
    ("benign-gbs-where", ["C09", "C01"], "utils.py", "    fractions[mask] = gbs_threshold / n_grains\n", "    fractions[:] = np.where(mask, gbs_threshold / n_grains, fractions)\n", B),
    ("benign-read-validate-local", ["C16"], "io.py", "        if not _validate_scsv_schema(schema):\n            raise _err.SCSVError(\n                f\"unable to parse SCSV schema from '{file}'.\"", "        schema_ok = _validate_scsv_schema(schema)\n        if not schema_ok:\n            raise _err.SCSVError(\n                f\"unable to parse SCSV schema from '{file}'.\"", B),
    ("benign-save-cell-check-helper", ["C16"], "io.py", "                    try:\n                        _parse_scsv_cell(\n                            t, str(d), missingstr=schema[\"missing\"], fillval=f\n                        )\n                    except ValueError:\n                        raise _err.SCSVError(\n                            f\"invalid data for column '{names[i]}'.\"\n                            + f\" Cannot parse {d} as type '{t.__qualname__}'.\"\n                        ) from None\n",
     "                    _check_scsv_cell(t, d, schema[\"missing\"], f, names[i])\n", B),
    ("benign-mindex-comprehension-loop", ["C14"], "diagnostics.py", "    misorientations_theory = np.array(\n        [\n            _stats.misorientations_random(bin_edges[i], bin_edges[i + 1], system)\n            for i in range(len(misorientations_count))\n        ]\n    )",
     "    theory = []\n    for lo, hi in zip(bin_edges[:-1], bin_edges[1:]):\n        theory.append(_stats.misorientations_random(lo, hi, system))\n    misorientations_theory = np.array(theory)", B),
    ("benign-mindex-nbins-local", ["C14"], "diagnostics.py", "    return (θmax / (2 * len(misorientations_count))) * np.sum(\n        np.abs(misorientations_theory - misorientations_count)\n    )",
     "    nbins = len(misorientations_count)\n    total = np.sum(np.abs(misorientations_count - misorientations_theory))\n    return θmax / (2 * nbins) * total", B),
    ("benign-mindices-pool-loop", ["C14"], "diagnostics.py", "        else:\n            for i, out in enumerate(pool.imap(_run, orientation_stack)):\n                m_indices[i] = out\n    return m_indices", "        else:\n            m_indices[:] = list(pool.imap(_run, orientation_stack))\n    return m_indices", B),
    ("benign-angles-clip-local", ["C14"], "geometry.py", "                np.arccos(\n                    np.abs(\n                        np.clip(\n                            np.sum(q1_array[:, i] * q2_array[:, j], axis=1),\n                            -1.0,\n                            1.0,\n                        )\n                    )\n                )",
     "                np.arccos(\n                    np.abs(\n                        np.clip(\n                            (q1_array[:, i] * q2_array[:, j]).sum(axis=1),\n                            -1.0,\n                            1.0,\n                        )\n                    )\n                )", B),
    ("benign-density-axial-ifexp", ["C20"], "stats.py", "        if axial:\n            products = np.abs(products)\n", "        products = np.abs(products) if axial else products\n", B),
    ("benign-density-kernel-lookup-hoisted", ["C20"], "stats.py", "    weights = np.asarray(weights, dtype=np.float64)\n", "    weights = np.asarray(weights, dtype=np.float64)\n    kernel_func = SPHERICAL_COUNTING_KERNELS[kernel]\n", B),
    ("benign-density-weighted-sum", ["C20"], "stats.py", "        density *= weights\n        totals[i] = (density.sum() - 0.5) / scale", "        totals[i] = (np.sum(density * weights) - 0.5) / scale", B),
    ("benign-density-clip-maximum", ["C20"], "stats.py", "    totals[totals < 0] = 0\n", "    totals = np.maximum(totals, 0)\n", B),
    ("benign-density-mean-local", ["C20"], "stats.py", "    totals /= totals.mean()\n", "    mean_total = totals.mean()\n    totals = totals / mean_total\n", B),
    ("benign-kamb-radius-ifelse", ["C20"], "stats.py", "    if axial is True:\n        return 1 - r\n    return 1 - 2 * r", "    if axial is True:\n        radius = 1 - r\n    else:\n        radius = 1 - 2 * r\n    return radius", B),
    ("benign-output-options-inverted", ["C19"], "io.py", "    if level not in output_opts:\n        # By default, output is produced for all simulated mineral phases.\n        output_opts[level] = list(phase_assemblage)\n        return\n    try:",
     "    if level not in output_opts:\n        output_opts[level] = list(phase_assemblage)\n        return\n    requested = output_opts[level]\n    try:", B),
    ("benign-params-defaults-update", ["C19"], "io.py", "    for key, default in _core.DefaultParams().as_dict().items():\n        _params[key] = _params.get(key, default)", "    defaults = _core.DefaultParams().as_dict()\n    for key in defaults:\n        if key not in _params:\n            _params[key] = defaults[key]", B),
    ("benign-params-checks-swapped", ["C19"], "io.py", "    # Make sure all mineral phases are accounted for and valid.\n    if len(_params[\"phase_assemblage\"]) != len(_params[\"phase_fractions\"]):", "    n_phases = len(_params[\"phase_assemblage\"])\n    if n_phases != len(_params[\"phase_fractions\"]):", B),
    ("benign-fabric-handler-wider", ["C19"], "io.py", "    except (AttributeError, TypeError):\n        raise _err.ConfigError(\n            f\"invalid initial olivine fabric", "    except (AttributeError, TypeError, ValueError):\n        raise _err.ConfigError(\n            f\"invalid initial olivine fabric", B),
    ("benign-coefficients-names", ["C19"], "io.py", "    if n_provided != n_required:", "    if not (n_provided == n_required):", B),
    ("benign-output-loglevel-setdefault", ["C19"], "io.py", "    _output[\"log_level\"] = _output.get(\"log_level\", \"WARNING\")", "    _output.setdefault(\"log_level\", \"WARNING\")", B),
    ("benign-output-paths-if", ["C19"], "io.py", "    _output[\"paths\"] = _output.get(\"paths\", None)", "    if \"paths\" not in _output:\n        _output[\"paths\"] = None", B),
    ("benign-writer-missing-used", ["C16"], "io.py", "row.append(schema[\"missing\"])", "row.append(missing_marker)", B),
    ("benign-yaml-quoter-renamed", ["C16"], "io.py", "_yaml_scalar", "_quote_yaml", B),
    ("benign-save-except-tuple", ["C16"], "io.py", "    except ValueError:\n        path.unlink(missing_ok=True)", "    except (ValueError,):\n        path.unlink(missing_ok=True)", B),
    ("benign-params-order", ["C19"], "io.py", "    toml[\"parameters\"] = _parse_config_params(toml)\n    _params = toml[\"parameters\"]", "    _params = _parse_config_params(toml)\n    toml[\"parameters\"] = _params", B),
    ("benign-bingham-local", ["C13"], "diagnostics.py", "def bingham_average(", "def bingham_average(  # mean axis of an orientation distribution\n", B),
    ("benign-density-sigma-local", ["C20"], "stats.py", "    X_counters, Y_counters = _geo.lambert_equal_area(x_counters, y_counters, z_counters)", "    projected = _geo.lambert_equal_area(x_counters, y_counters, z_counters)\n    X_counters, Y_counters = projected", B),
    ("benign-mindex-bins-local", ["C14"], "diagnostics.py", "θmax = _stats._max_misorientation(system)", "θmax = _stats._max_misorientation(system)  # maximum misorientation angle of the system", B),
    ("benign-mineral-save-keys", ["C17"], "minerals.py", "                for key in data.keys():", "                for key in list(data):", B),
    ("benign-update-all-enumerate", ["C06", "C08"], "minerals.py", "    for i, mineral in enumerate(minerals):\n        # Deformation gradient is independent of mineral phase.\n", "    for mineral in minerals:\n", B),
    ("benign-crss-dict", ["C02", "C07"], "core.py", "            case MineralFabric.olivine_B:\n                return np.array([3, 2, 1, np.inf])", "            case MineralFabric.olivine_B:\n                return np.asarray([3.0, 2.0, 1.0, np.inf])", B),
    ("benign-extract-vars-names", ["C01", "C09"], "utils.py", "    fractions /= fractions.sum()\n    return deformation_gradient, orientations, fractions", "    total = fractions.sum()\n    fractions = fractions / total\n    return deformation_gradient, orientations, fractions", B),
    ("benign-is-inside-all", ["C18"], "pathlines.py", "    if np.any(np.array(point) < min_coords) or np.any(np.array(point) > max_coords):\n        return False\n    return True", "    p = np.array(point)\n    return bool(np.all(p >= min_coords) and np.all(p <= max_coords))", B),
    ("benign-ivp-func-else", ["C18"], "pathlines.py", "    if _is_inside(point, min_coords, max_coords):\n        return get_velocity(np.nan, point)\n    return np.zeros_like(point)", "    inside = _is_inside(point, min_coords, max_coords)\n    if not inside:\n        return np.zeros_like(point)\n    return get_velocity(np.nan, point)", B),
    ("benign-pathline-kwargs-loop", ["C18"], "pathlines.py", "        try:\n            kwargs.pop(key)\n        except KeyError:\n            continue\n        else:\n            _log.warning(\"ignoring illegal keyword argument: %s\", key)", "        if key in kwargs:\n            del kwargs[key]\n            _log.warning(\"ignoring illegal keyword argument: %s\", key)", B),
    ("benign-scatter-loop", ["C13"], "stats.py", "    scatter[1, 0] = np.sum(orientations[:, row, 0] * orientations[:, row, 1])\n    scatter[2, 0] = np.sum(orientations[:, row, 0] * orientations[:, row, 2])\n    scatter[2, 1] = np.sum(orientations[:, row, 1] * orientations[:, row, 2])",
     "    for a, b in ((1, 0), (2, 0), (2, 1)):\n        scatter[a, b] = np.sum(orientations[:, row, b] * orientations[:, row, a])", B),
    ("benign-header-comments-join", ["C16"], "io.py", "        for comment in comments:\n            stream.write(\"# \" + comment + os.linesep)", "        stream.write(\"\".join(\"# \" + comment + os.linesep for comment in comments))", B),
    ("benign-save-length-check-any", ["C16"], "io.py", "    n_rows = len(data[0])\n    for col in data[1:]:\n        if len(col) != n_rows:\n            raise _err.SCSVError(\n                \"refusing to write data columns of unequal length to SCSV file\"\n            )",
     "    if len({len(col) for col in data}) > 1:\n        raise _err.SCSVError(\n            \"refusing to write data columns of unequal length to SCSV file\"\n        )", B),
    ("benign-input-common-get", ["C19"], "io.py", "    try:\n        _input = toml[\"input\"]\n    except KeyError:\n        raise _err.ConfigError(f\"missing [input] section in '{path}'\") from None", "    if \"input\" not in toml:\n        raise _err.ConfigError(f\"missing [input] section in '{path}'\")\n    _input = toml[\"input\"]", B),
    ("benign-postpaths-loop", ["C19"], "io.py", "    input[\"paths\"] = [np.load(resolve_path(p, path.parent)) for p in input[\"paths\"]]", "    loaded = []\n    for p in input[\"paths\"]:\n        loaded.append(np.load(resolve_path(p, path.parent)))\n    input[\"paths\"] = loaded", B),
    ("benign-voigt-skip-zero", ["C10"], "minerals.py", "            for n in range(n_grains):\n                average_tensors[i] += _tensors.elastic_tensor_to_voigt(\n                    _tensors.rotate(\n                        phase_tensors[mineral.phase],\n                        mineral.orientations[i][n, ...].transpose(),\n                    )\n                    * mineral.fractions[i][n]",
     "            keep = mineral.fractions[i] > 0\n            fractions = mineral.fractions[i][keep]\n            orientations = mineral.orientations[i][keep]\n            for n in range(len(orientations)):\n                average_tensors[i] += _tensors.elastic_tensor_to_voigt(\n                    _tensors.rotate(\n                        phase_tensors[mineral.phase],\n                        orientations[n, ...].transpose(),\n                    )\n                    * fractions[n]", B),
    ("benign-rhs-local-scale", ["C05", "C04"], "minerals.py", "            strain_rate_max = np.abs(la.eigvalsh(strain_rate)).max()", "            eigenvalues = la.eigvalsh(strain_rate)\n            strain_rate_max = np.abs(eigenvalues).max()", B),
    ("benign-reader-comprehension", ["C16"], "io.py", "                tuple(\n                    map(\n                        ft.partial(\n                            _parse_scsv_cell, f, missingstr=missingstr, fillval=fill\n                        ),\n                        x,\n                    )\n                )\n",
     "                tuple(\n                    _parse_scsv_cell(f, cell, missingstr=missingstr, fillval=fill)\n                    for cell in x\n                )\n", B),
    ("benign-writer-missing-local", ["C16"], "io.py", "            writer.writerow(names)\n", "            writer.writerow(names)\n            missing = schema[\"missing\"]\n", B),
    ("benign-header-linesep-local", ["C16"], "io.py", "    stream.write(\"---\" + os.linesep)\n    if comments is not None:", "    nl = os.linesep\n    stream.write(f\"---{nl}\")\n    if comments is not None:", B),
    ("benign-output-explicit-default", ["C19"], "io.py", "    _output = toml.setdefault(\"output\", {})\n", "    if \"output\" not in toml:\n        toml[\"output\"] = {}\n    _output = toml[\"output\"]\n", B),
    ("benign-output-options-else", ["C19"], "io.py", "        output_opts[level] = list(phase_assemblage)\n        return\n    try:", "        output_opts[level] = [p for p in phase_assemblage]\n        return None\n    try:", B),
    ("benign-append-helper", ["C01", "C07", "C08"], "minerals.py", "        self.orientations.append(orientations)\n        self.fractions.append(fractions)\n        return deformation_gradient\n",
     "        self._store_snapshot(orientations, fractions)\n        return deformation_gradient\n\n    def _store_snapshot(self, orientations, fractions):\n        self.orientations.append(orientations)\n        self.fractions.append(fractions)\n", B),
    ("benign-density-counter-names", ["C20"], "stats.py", "    counters = np.column_stack([x_counters, y_counters, z_counters])", "    counters = np.stack([x_counters, y_counters, z_counters], axis=1)", B),
    ("benign-strain-final-local", ["C19"], "io.py", "    _input[\"strain_final\"] = _input.get(\"strain_final\", np.inf)\n    if not isinstance(_input[\"strain_final\"], float | int):", "    strain_final = _input.get(\"strain_final\", np.inf)\n    _input[\"strain_final\"] = strain_final\n    if not isinstance(strain_final, (float, int)):", B),
    ("benign-parse-phase-match", ["C19"], "io.py", "    elif isinstance(ϕ, _core.MineralPhase):\n        return ϕ\n", "    elif isinstance(ϕ, _core.MineralPhase):\n        phase = ϕ\n        return phase\n", B),
    ("benign-resample-compose", ["C15"], "stats.py", "        out_orientations[i, ...] = orient[sort_ascending][count_less]\n        out_fractions[i, ...] = frac_ascending[count_less]",
     "        selected = sort_ascending[count_less]\n        out_orientations[i, ...] = orient[selected]\n        out_fractions[i, ...] = frac[selected]", B),
    ("benign-asdict-getattr", ["C19"], "core.py", "        return asdict(self)", "        return {k: getattr(self, k) for k in self.__dataclass_fields__}", B),
    ("benign-marker-crlf", ["C16"], "io.py", "            if line == \"---\\n\":", "            if line == \"---\\n\" or line == \"---\\r\\n\":", B),
    ("benign-sccs-tiebreak", ["C12"], "diagnostics.py", "                if angle_eigvects < angle:", "                if angle_eigvects <= angle:", B),
    ("benign-lambert-kw", ["C20"], "stats.py", "_geo.lambert_equal_area(x_counters, y_counters, z_counters)", "_geo.lambert_equal_area(xvals=x_counters, yvals=y_counters, zvals=z_counters)", B),
]
# the rename above needs both the definition and the use
RENAME_ALSO = {"benign-pathline-rename": [("        jac=_ivp_jac,", "        jac=_ivp_jacobian,")],
               "benign-save-cell-check-helper": [("def save_scsv(file, schema, data, **kwargs):", "def _check_scsv_cell(t, d, missing, f, name):\n    try:\n        _parse_scsv_cell(t, str(d), missingstr=missing, fillval=f)\n    except ValueError:\n        raise _err.SCSVError(\n            f\"invalid data for column '{name}'.\"\n            + f\" Cannot parse {d} as type '{t.__qualname__}'.\"\n        ) from None\n\n\ndef save_scsv(file, schema, data, **kwargs):")],
               "benign-writer-missing-used": [("            writer.writerow(names)\n", "            writer.writerow(names)\n            missing_marker = schema[\"missing\"]\n")]}
REPLACE_ALL = {"benign-rename-helper", "benign-writer-missing-used", "benign-yaml-quoter-renamed"}


def run_case(case, repo):
    name, props, fname, old, new, expect = case
    d = tempfile.mkdtemp(prefix="pdxsa_st_")
    try:
        os.makedirs(os.path.join(d, "src"))
        shutil.copytree(os.path.join(repo, "src", "pydrex"), os.path.join(d, "src", "pydrex"))
        path = os.path.join(d, "src", "pydrex", fname)
        with open(path, encoding="utf-8") as f:
            s = f.read()
        if old not in s:
            return name, props, expect, "STALE", "anchor text not found"
        s = s.replace(old, new) if name in REPLACE_ALL else s.replace(old, new, 1)
        for o2, n2 in RENAME_ALSO.get(name, []):
            if o2 not in s:
                return name, props, expect, "STALE", "secondary anchor not found"
            s = s.replace(o2, n2, 1)
        with open(path, "w", encoding="utf-8") as f:
            f.write(s)
        results = []
        for p in props:
            env = dict(os.environ, PDXSA_EVIDENCE_DIR=os.path.join(d, "evidence"), PDXSA_JOBS="2")
            r = subprocess.run([sys.executable, "-m", "pdxsa", "check", p, "--repo", d], cwd=VERIF, env=env, capture_output=True, text=True, timeout=1800)
            results.append((p, r.returncode))
        if expect == "violation":
            ok = any(rc == 1 for _, rc in results)
            got = "reported" if ok else ("analysis-error" if any(rc == 2 for _, rc in results) else "MISSED")
        else:
            ok = all(rc == 0 for _, rc in results)
            got = "silent" if ok else "FALSE-ALARM" if any(rc == 1 for _, rc in results) else "analysis-error"
        return name, props, expect, got, " ".join(f"{p}={rc}" for p, rc in results)
    finally:
        shutil.rmtree(d, ignore_errors=True)


def run_for_property(prop, repo, jobs=8):
    sel = [c for c in CASES if prop in c[1]]
    env_backup = os.environ.get("PDXSA_NO_SELFTEST")
    os.environ["PDXSA_NO_SELFTEST"] = "1"
    try:
        with ThreadPoolExecutor(max_workers=jobs) as ex:
            res = list(ex.map(lambda c: run_case((c[0], [prop], c[2], c[3], c[4], c[5]), repo), sel))
    finally:
        if env_backup is None:
            os.environ.pop("PDXSA_NO_SELFTEST", None)
    return {"cases": len(res), "mutants_reported": sum(1 for r in res if r[3] == "reported"), "mutants": sum(1 for r in res if r[2] == "violation"),
            "benign_silent": sum(1 for r in res if r[3] == "silent"), "benign": sum(1 for r in res if r[2] == "pass"),
            "not_as_expected": [f"{r[0]}:{r[3]}" for r in res if r[3] not in ("reported", "silent")]}


def main(args):
    repo = args.repo
    sel = [c for c in CASES if not args.props or set(args.props.split(",")) & set(c[1])]
    with ThreadPoolExecutor(max_workers=max(1, args.jobs // 2)) as ex:
        res = list(ex.map(lambda c: run_case(c, repo), sel))
    bad = 0
    for name, props, expect, got, detail in res:
        flag = "ok " if got in ("reported", "silent") else "BAD"
        if flag == "BAD":
            bad += 1
        print(f"{flag} {name:36s} expect={expect:9s} got={got:15s} {detail}")
    summary = {"cases": len(res), "mutants": sum(1 for r in res if r[2] == "violation"), "benign": sum(1 for r in res if r[2] == "pass"),
               "mutants_reported": sum(1 for r in res if r[3] == "reported"), "benign_silent": sum(1 for r in res if r[3] == "silent"),
               "stale": sum(1 for r in res if r[3] == "STALE"), "bad": [r[0] for r in res if r[3] not in ("reported", "silent")]}
    print("SELFTEST " + json.dumps(summary))
    out = os.path.join(VERIF, "evidence", "selftest.json")
    if not os.environ.get("PDXSA_EVIDENCE_DIR"):
        with open(out, "w") as f:
            json.dump({"summary": summary, "results": [dict(name=r[0], props=r[1], expect=r[2], got=r[3], detail=r[4]) for r in res]}, f, indent=1)
    return 0 if bad == 0 else 1
