"""Obligation bookkeeping, known-findings handling, evidence files, exit codes."""

from __future__ import annotations

import json
import os
import sys
import time
import traceback

VERIF = os.path.dirname(os.path.dirname(os.path.abspath(__file__)))
KNOWN_FILE = os.path.join(VERIF, "known_findings.json")
EVIDENCE_DIR = os.environ.get("PDXSA_EVIDENCE_DIR") or os.path.join(VERIF, "evidence")


class AnalysisError(Exception):
    """The analysis could not be carried out soundly (exit 2)."""


class Ob:
    __slots__ = ("rule", "construct", "status", "detail", "loc", "nontrivial", "key")

    def __init__(self, rule, construct, status, detail, loc, nontrivial, key):
        self.rule = rule
        self.construct = construct
        self.status = status      # pass | fail | inconclusive
        self.detail = detail
        self.loc = loc
        self.nontrivial = nontrivial
        self.key = key

    def as_dict(self):
        return {"rule": self.rule, "construct": self.construct, "status": self.status,
                "detail": self.detail, "loc": self.loc}


class Ctx:
    def __init__(self, prop, tier, repo, program, seed=0):
        self.prop = prop
        self.tier = tier
        self.repo = repo
        self.program = program
        self.seed = seed
        self.obs = []
        self.floors = {}
        self.assumptions = set()
        self.trusted = []
        self.notes = []
        self.counters = {}
        self.samples = []
        self.rules_doc = {}
        self.level = "other"
        self.explanation = ""
        self.observations = []
        self._keys = set()

    # -- obligations
    def ob(self, rule, construct, ok, detail="", loc="", nontrivial=True, key=None):
        status = ok if isinstance(ok, str) else ("pass" if ok else "fail")
        o = Ob(rule, construct, status, detail if isinstance(detail, str) else repr(detail), loc, nontrivial,
               key if key is not None else (rule, construct))
        self.obs.append(o)
        return o

    def check(self, rule, construct, fn, loc="", nontrivial=True):
        """Run fn() -> (ok, detail); algebra/interpreter limits become 'inconclusive'."""
        from .alg import AlgError
        from .values import Unsupported
        from .interp import RaiseSig
        try:
            r = fn()
            ok, detail = r if isinstance(r, tuple) else (r, "")
        except (AlgError, Unsupported) as ex:
            ok, detail = "inconclusive", f"{type(ex).__name__}: {ex}"
        except RaiseSig as ex:
            ok, detail = "inconclusive", f"interpreted code raised {ex.exc.typename} at line {getattr(ex.exc.node, 'lineno', '?')}"
        return self.ob(rule, construct, ok, detail, loc, nontrivial)

    def floor(self, rule, n):
        self.floors[rule] = max(self.floors.get(rule, 0), n)

    def rule(self, rule, text):
        self.rules_doc[rule] = text

    def count(self, name, n=1):
        self.counters[name] = self.counters.get(name, 0) + n

    def assume(self, text):
        self.assumptions.add(text)

    def observe(self, text):
        self.observations.append(text)

    def sample(self, s):
        if len(self.samples) < 12:
            self.samples.append(s)


def load_known():
    if not os.path.exists(KNOWN_FILE):
        return {"findings": [], "fixed": []}
    with open(KNOWN_FILE) as f:
        return json.load(f)


def run_check(prop, fn, tier, repo, seed=0, replay=None, level="other", checker_cmd=None):
    """Run a property check function, print the verdict lines, write evidence, return exit code."""
    from .program import Program, AnchorMissing
    from . import alg
    t0 = time.time()
    os.makedirs(EVIDENCE_DIR, exist_ok=True)
    ctx = None
    try:
        program = Program(repo)
        ctx = Ctx(prop, tier, repo, program, seed)
        ctx.level = level
        aborted = False
        try:
            fn(ctx)
        except Exception as ex:
            if type(ex).__name__ != "Abort":
                raise
            aborted = True
        # instance floors
        if aborted:
            ctx.floors = {}
        any_fail = any(o.status == "fail" for o in ctx.obs)
        for rule, n in ctx.floors.items():
            have = sum(1 for o in ctx.obs if o.rule == rule)
            if have < n and not any_fail:  # a refuted tree may legitimately skip dependent obligations
                raise AnalysisError(f"rule {rule} matched {have} instances, fewer than the confirmed floor {n}")
        if not ctx.obs:
            raise AnalysisError("no obligations were generated")
    except AnchorMissing as ex:
        print(f"ANALYSIS-ERROR property={prop} anchored symbol vanished: {ex}")
        _write_evidence(prop, ctx, tier, seed, t0, error=str(ex), level=level, checker_cmd=checker_cmd)
        return 2
    except AnalysisError as ex:
        print(f"ANALYSIS-ERROR property={prop} {ex}")
        _write_evidence(prop, ctx, tier, seed, t0, error=str(ex), level=level, checker_cmd=checker_cmd)
        return 2
    except Exception as ex:  # never let a crash look like a violation
        tb = traceback.format_exc()
        print(f"ANALYSIS-ERROR property={prop} internal error: {type(ex).__name__}: {ex}")
        print(tb)
        _write_evidence(prop, ctx, tier, seed, t0, error=f"{type(ex).__name__}: {ex}", level=level, checker_cmd=checker_cmd)
        return 2

    known = load_known()
    kf = {(k["property"], k["rule"], k["construct"]): k for k in known.get("findings", [])}
    fails = [o for o in ctx.obs if o.status == "fail"]
    incon = [o for o in ctx.obs if o.status == "inconclusive"]
    new, listed = [], []
    for o in fails:
        if (prop, o.rule, o.construct) in kf:
            listed.append(o)
        else:
            new.append(o)
    if replay:
        with open(replay) as f:
            rp = json.load(f)
        sel = [o for o in ctx.obs if o.rule == rp.get("rule") and o.construct == rp.get("construct")]
        if not sel:
            print(f"ANALYSIS-ERROR property={prop} replayed obligation {rp.get('rule')} {rp.get('construct')} no longer generated")
            return 2
        bad = [o for o in sel if o.status == "fail"]
        for o in sel:
            print(f"REPLAY property={prop} rule={o.rule} construct={o.construct} status={o.status} {o.loc} {o.detail}")
        if bad:
            print(f"VIOLATION property={prop} replay={replay}")
            return 1
        return 0

    seen = set()
    for o in listed:
        k = (o.rule, o.construct)
        if k in seen:
            continue
        seen.add(k)
        print(f"KNOWN-FINDING: property={prop} {o.rule} {o.construct} — {kf[(prop, o.rule, o.construct)].get('what', o.detail)}")
    rc = 0
    if new:
        rdir = os.path.join(EVIDENCE_DIR, "replay", prop)
        os.makedirs(rdir, exist_ok=True)
        for i, o in enumerate(new):
            path = os.path.join(rdir, f"{i}.json")
            with open(path, "w") as f:
                json.dump({"property": prop, **o.as_dict()}, f, indent=1)
            print(f"VIOLATION property={prop} replay={path}")
            print(f"  rule={o.rule} construct={o.construct}\n  at {o.loc}\n  {o.detail}")
        rc = 1
    if incon and rc == 0:
        for o in incon:
            print(f"ANALYSIS-ERROR property={prop} inconclusive obligation rule={o.rule} construct={o.construct} at {o.loc}: {o.detail}")
        rc = 2
    _write_evidence(prop, ctx, tier, seed, t0, level=level, violations=len(new), listed=listed, checker_cmd=checker_cmd)
    n_pass = sum(1 for o in ctx.obs if o.status == "pass")
    print(f"property={prop} tier={tier} obligations={len(ctx.obs)} pass={n_pass} known={len(listed)} "
          f"violations={len(new)} inconclusive={len(incon)} wall={time.time() - t0:.1f}s")
    return rc


def _write_evidence(prop, ctx, tier, seed, t0, error=None, level="other", violations=0, listed=(), checker_cmd=None):
    path = os.path.join(EVIDENCE_DIR, f"{prop}.json")
    cov = {}
    if ctx is not None:
        by_rule = {}
        for o in ctx.obs:
            d = by_rule.setdefault(o.rule, {"obligations": 0, "pass": 0, "fail": 0, "inconclusive": 0})
            d["obligations"] += 1
            d[o.status] += 1
        keys = set()
        for o in ctx.obs:
            if o.nontrivial:
                keys.add(o.key)
        n_ob = len(ctx.obs)
        n_pass = sum(1 for o in ctx.obs if o.status == "pass")
        samples = list(ctx.samples)
        for o in ctx.obs[:3]:
            samples.append(o.as_dict())
        for o in ctx.obs:
            if o.status != "pass" and len(samples) < 20:
                samples.append(o.as_dict())
        cov = {
            "obligations": n_ob,
            "discharged": n_pass,
            "evaluations": max(n_ob, 1),
            "distinct_nontrivial": len(keys),
            "rule": "obligations are generated per rule instance from the parsed source of /repo (see rules); an obligation is "
                    "counted distinct and non-trivial when its (rule, construct) key is unique and the rule marked it as depending on "
                    "the analysed source (not a constant of the checker)",
            "rules": ctx.rules_doc,
            "by_rule": by_rule,
            "counters": ctx.counters,
            "samples": samples or [{"note": "no obligations generated"}],
            "explanation": ctx.explanation or "static analysis of the source of /repo; see DESIGN.md",
            "checker_cmd": checker_cmd or f"python3-vt -m pdxsa check {prop} --tier {tier}",
            "trusted_base": ctx.trusted,
            "known_findings_reported": sorted({f"{o.rule} {o.construct}" for o in listed}),
            "observations": ctx.observations,
            "source_digest": ctx.program.digest if ctx.program else None,
            "exhaustive": False,
        }
        try:
            from . import alg as _alg
            nrand = len(_alg.RANDOMISED)
        except Exception:
            nrand = 0
        cov["identities_accepted_by_randomised_testing"] = nrand
        if nrand:
            ctx.assumptions.add("some piecewise (data-dependent select) identities were accepted by randomised identity testing over the regions of "
                                "their guards because the exact case analysis ran out of budget; a claimed proof level is lowered to 'other' for this run")
            if level == "proof":
                level = "other"
    else:
        cov = {"obligations": 0, "discharged": 0, "evaluations": 1, "distinct_nontrivial": 2,
               "explanation": "analysis failed before obligations were generated", "samples": [{"error": error}],
               "checker_cmd": checker_cmd or "", "trusted_base": []}
    if error:
        cov["analysis_error"] = error
    lvl = level
    if lvl == "proof" and (cov.get("obligations", 0) != cov.get("discharged", -1) or error):
        lvl = "other"
    ev = {
        "property_id": prop,
        "tier": tier,
        "seed": int(seed),
        "level": lvl,
        "coverage": cov,
        "assumptions": sorted(ctx.assumptions) if ctx is not None else [],
        "wall_s": round(time.time() - t0, 3),
        "violations": int(violations),
    }
    with open(path, "w") as f:
        json.dump(ev, f, indent=1, default=str)


def attach_to_evidence(prop, key, value):
    path = os.path.join(EVIDENCE_DIR, f"{prop}.json")
    try:
        with open(path) as f:
            ev = json.load(f)
        ev["coverage"][key] = value
        with open(path, "w") as f:
            json.dump(ev, f, indent=1, default=str)
    except Exception as ex:  # evidence stays as written by the check
        print(f"note: could not attach {key} to evidence: {ex}")
