"""CLI: python3-vt -m pdxsa check <Cxx> [--tier quick|thorough] [--repo /repo] [--replay file]."""

import argparse
import importlib
import os
import sys


def _level(prop, mod):
    from .registry import CLAIMS
    return CLAIMS.get(prop, {}).get("level", getattr(mod, "LEVEL", "other"))


def main(argv=None):
    ap = argparse.ArgumentParser(prog="pdxsa")
    sub = ap.add_subparsers(dest="cmd", required=True)
    c = sub.add_parser("check")
    c.add_argument("prop")
    c.add_argument("--tier", default=os.environ.get("VERIF_TIER", "quick"), choices=["quick", "thorough"])
    c.add_argument("--repo", default=os.environ.get("PDXSA_REPO", "/repo"))
    c.add_argument("--replay", default=None)
    s = sub.add_parser("selftest")
    s.add_argument("--props", default="")
    s.add_argument("--jobs", type=int, default=16)
    s.add_argument("--repo", default="/repo")
    args = ap.parse_args(argv)
    if args.cmd == "check":
        from . import report
        prop = args.prop.upper()
        try:
            mod = importlib.import_module(f"pdxsa.checks.{prop.lower()}")
        except ModuleNotFoundError:
            print(f"ANALYSIS-ERROR property={prop} no checker implemented")
            return 2
        seed = int(os.environ.get("VERIF_SEED", "0") or 0)
        # watchdog: an analysis that does not finish is an analysis error (exit 2), never a hang
        import signal
        limit = int(os.environ.get("PDXSA_TIMEOUT", "1500" if args.tier == "quick" else "7200"))

        def _late(signum, frame):
            print(f"ANALYSIS-ERROR property={prop} the analysis did not finish within {limit} s", flush=True)
            os._exit(2)
        try:
            signal.signal(signal.SIGALRM, _late)
            signal.alarm(limit)
        except (ValueError, AttributeError):
            pass
        rc = report.run_check(prop, mod.run, args.tier, args.repo, seed=seed, replay=args.replay,
                              level=_level(prop, mod),
                              checker_cmd=f"python3-vt -m pdxsa check {prop} --tier {args.tier}")
        try:
            signal.alarm(0)
        except Exception:
            pass
        if args.tier == "thorough" and not args.replay and os.path.abspath(args.repo) == "/repo" and not os.environ.get("PDXSA_NO_SELFTEST"):
            # machinery self-test for this property (mutants must be reported, benign refactors must stay silent);
            # informational: it never changes the verdict about /repo
            from . import selftest
            summary = selftest.run_for_property(prop, args.repo)
            print("SELFTEST " + str(summary))
            report.attach_to_evidence(prop, "selftest", summary)
        return rc
    if args.cmd == "selftest":
        from . import selftest
        return selftest.main(args)
    return 2


if __name__ == "__main__":
    sys.exit(main())
