"""Models of builtins / NumPy / SciPy / stdlib functions over abstract values.

NumPy object arrays are the *container* of the abstract domain: slicing, broadcasting,
reshape, @, transpose … are NumPy's own shape semantics applied to cells that are E.
"""

from __future__ import annotations

import itertools

import numpy as np

from . import alg
from .alg import E, INF, Inf, lift, AlgError, ZERO, ONE
from .values import (MaskLoad, Unsupported, Opaque, UNINIT, Uninit, IntSym, EnumMember, FuncVal, BoundMethod, Native,
                     Partial, ClassVal, Record, ExcVal, ExtRef, ModuleRef, Guard, Mask, MaskedArray,
                     keyof, mkarr, cell, full, is_arr, cells, SymIdx, SymArr)

NAN = alg.sym("nan")

_EXT_ALIASES = {
    "scipy.linalg": "linalg", "numpy.linalg": "linalg",
}

IGNORED_MODULES = ("pydrex.logger", "logging", "tqdm")


def _shape(s):
    if isinstance(s, (tuple, list)):
        return tuple(int(x) for x in s)
    return (int(s),)


def vec(f, x, *rest):
    if isinstance(x, np.ndarray):
        out = np.empty(x.shape, dtype=object)
        for i in np.ndindex(*x.shape):
            out[i] = f(x[i], *rest)
        return out
    if isinstance(x, (list, tuple)):
        return vec(f, mkarr(list(x)), *rest)
    return f(cell(x), *rest)


def vec2(f, x, y):
    if isinstance(x, np.ndarray) or isinstance(y, np.ndarray):
        x = x if isinstance(x, np.ndarray) else full((), x)
        y = y if isinstance(y, np.ndarray) else full((), y)
        bx, by = np.broadcast_arrays(x, y)
        out = np.empty(bx.shape, dtype=object)
        for i in np.ndindex(*bx.shape):
            out[i] = f(bx[i], by[i])
        return out
    return f(cell(x), cell(y))


def _clip1(x, lo, hi):
    if isinstance(x, Opaque):
        return x
    if x.is_const():
        c = x.cval()
        if lo is not None and lo.is_const() and c < lo.cval():
            return lo
        if hi is not None and hi.is_const() and c > hi.cval():
            return hi
        if (lo is None or lo.is_const()) and (hi is None or hi.is_const()):
            return x
    return alg.Fn("clip", x, lo if lo is not None else "none", hi if hi is not None else "none")


def _sign1(x):
    if x.is_const():
        c = x.cval()
        return lift((c > 0) - (c < 0))
    return x * alg.Abs(x).inv()


class NumpyModel:
    def __init__(self, interp):
        self.I = interp
        self.dtype_of = {}      # id(dtype value handed out by `array.dtype`) -> (id(array), array)

    # ------------------------------------------------------------------ builtins
    def builtin(self, name, node):
        if name in _BUILTIN_NAMES:
            return ExtRef("builtins." + name)
        if name in alg_exc_names():
            return ExtRef("builtins." + name)
        raise Unsupported(f"unresolved name {name}", node)

    # ------------------------------------------------------------------ attributes
    def ext_attr(self, base, attr, node):
        path = base.path + "." + attr
        if path == "dataclasses.MISSING":
            from .interp import _MISSING
            return _MISSING
        if path in ("numpy.pi", "math.pi"):
            return alg.PI
        if path in ("numpy.e", "math.e"):
            return self.np_exp(ONE)
        if path == "math.tau":
            return 2 * alg.PI
        if path == "math.nan":
            return NAN
        if path in ("numpy.inf", "math.inf"):
            return INF
        if path in ("numpy.nan",):
            return NAN
        if path == "numpy.newaxis":
            return None
        if path in ("numpy.float64", "numpy.float32", "numpy.uint8", "numpy.int64"):
            return ExtRef(path)
        if path == "os.linesep":
            return "\n"
        if path == "sys.version_info":
            return (3, 12, 1)
        return ExtRef(path)

    def value_attr(self, base, attr, node):
        if isinstance(base, np.ndarray):
            if attr == "dtype":
                r_ = ExtRef("numpy.float64")
                self.dtype_of[id(r_)] = (id(base), base)      # remember whose dtype this is (kept alive)
                return r_
            if attr == "shape":
                return tuple(base.shape)
            if attr == "size":
                return int(base.size)
            if attr == "ndim":
                return base.ndim
            if attr == "T":
                return base.T
            if attr == "flat":
                return list(base.flat)
            return ("method", base, attr)
        if isinstance(base, (MaskedArray, SymArr, MaskLoad, Mask)):
            if isinstance(base, Mask) and attr == "size":
                return len(base)
            if isinstance(base, Mask) and attr == "shape":
                return (len(base),)
            if isinstance(base, MaskLoad) and attr in ("size", "shape"):
                raise Unsupported(f"{attr} of rows selected by a data-dependent mask (depends on the data)", node)
            return ("method", base, attr)
        if isinstance(base, (list, dict, str, tuple, set)):
            return ("method", base, attr)
        if isinstance(base, E):
            if attr in ("real",):
                return base
            return ("method", base, attr)
        if isinstance(base, (int, float)):
            return ("method", base, attr)
        if isinstance(base, type):
            if attr in ("__qualname__", "__name__"):
                return base.__name__
        if isinstance(base, Partial):
            if attr == "func":
                return base.func
            if attr == "keywords":
                return base.kwargs
            if attr == "args":
                return base.args
        raise Unsupported(f"attribute {attr} of {type(base).__name__}", node)

    # ------------------------------------------------------------------ method calls
    def call_method(self, base, name, args, kwargs, node):
        I = self.I
        if isinstance(base, Mask):
            if name == "astype":
                return mkarr([_select(c, alg.ONE, alg.ZERO) for c in base.conds])
            if name in ("sum",):
                return sum((_select(c, alg.ONE, alg.ZERO) for c in base.conds), alg.ZERO)
            if name in ("any", "all"):
                return self._anyall(list(base.conds), node, any if name == "any" else all)
            raise Unsupported(f"method {name} of a boolean mask", node)
        if isinstance(base, MaskLoad):
            if name == "sum" and not args and not kwargs and isinstance(base.base, np.ndarray) and base.base.ndim == 1:
                # sum over the selected rows == sum over all rows of select(mask_g, row_g, 0)
                return sum((_select(c, base.base[g], alg.ZERO) for g, c in enumerate(base.mask.conds)), alg.ZERO)
            if name in ("copy", "astype"):
                return MaskLoad(base.base.copy(), base.mask)
            raise Unsupported(f"method {name} of rows selected by a data-dependent mask", node)
        if isinstance(base, np.ndarray):
            return self.array_method(base, name, args, kwargs, node)
        if isinstance(base, SymArr):
            if name in ("cumsum", "copy", "sum", "astype", "flatten", "ravel"):
                if name in ("copy", "astype"):
                    c = SymArr(base.op, base.args)
                    c.mods = list(base.mods)
                    return c
                snap = SymArr(base.op, base.args)
                snap.mods = list(base.mods)
                return SymArr(name, (snap,))
            raise Unsupported(f"method {name} of a symbolically indexed array", node)
        if isinstance(base, MaskedArray):
            if name == "filled":
                fv = cell(args[0]) if args else cell(base.fill_value)
                out = np.empty(base.data.shape, dtype=object)
                for i in np.ndindex(*base.data.shape):
                    c = base.conds[i]
                    out[i] = _select(c, fv, base.data[i])
                return out
            raise Unsupported(f"masked array method {name}", node)
        if isinstance(base, list):
            if name == "append":
                I.emit("list-append", (id(base),), node)
                base.append(args[0])
                return None
            if name == "extend":
                I.emit("list-extend", (id(base),), node)
                base.extend(I.iterate(args[0], node))
                return None
            if name == "insert":
                I.emit("list-insert", (id(base),), node)
                base.insert(int(args[0]), args[1])
                return None
            if name == "pop":
                I.emit("list-pop", (id(base),), node)
                try:
                    return base.pop(*[int(a) for a in args])
                except IndexError:
                    raise _raise("IndexError", node)
            if name == "clear":
                I.emit("list-clear", (id(base),), node)
                base.clear()
                return None
            if name == "index":
                for i, x in enumerate(base):
                    if _eq(x, args[0]):
                        return i
                raise _raise("ValueError", node, "item is not in list")
            if name == "copy":
                return list(base)
            if name == "count":
                return sum(1 for x in base if _eq(x, args[0]))
            if name in ("sort", "reverse", "remove"):
                I.emit("list-" + name, (id(base),), node)
                if name == "reverse":
                    base.reverse()
                    return None
            raise Unsupported(f"list method {name}", node)
        if isinstance(base, tuple):
            if name == "index":
                for i, x in enumerate(base):
                    if _eq(x, args[0]):
                        return i
                raise _raise("ValueError", node, "tuple.index(x): x not in tuple")
            if name == "count":
                return sum(1 for x in base if _eq(x, args[0]))
            raise Unsupported(f"tuple method {name}", node)
        if isinstance(base, dict):
            if name in ("get", "pop", "setdefault") and args and isinstance(args[0], Opaque):
                return I.opaque(f"dictionary look-up with a key the analysis cannot evaluate ({args[0].reason})", node)
            if name == "get":
                k = _h(args[0])
                if k not in base:
                    from .interp import _key_match
                    cands = [kk for kk in base if isinstance(_key_match(kk, k), Guard)]
                    if cands:
                        # data-dependent hit or miss: the stored value when the data-dependent parts of the key coincide, else the default
                        from .values import Phi
                        m = _key_match(cands[-1], k)
                        dflt = args[1] if len(args) > 1 else kwargs.get("default")
                        return I.select_value(m, base[cands[-1]], dflt, None, node)
                return base.get(k, args[1] if len(args) > 1 else kwargs.get("default"))
            if name == "items":
                return [(k, v) for k, v in base.items()]
            if name == "keys":
                return list(base.keys())
            if name == "values":
                return list(base.values())
            if name == "pop":
                k = _h(args[0])
                I.emit("dict-pop", (id(base), k), node)
                if k in base:
                    return base.pop(k)
                if len(args) > 1:
                    return args[1]
                raise _raise("KeyError", node, k)
            if name == "update":
                I.emit("dict-update", (id(base),), node)
                base.update(args[0] if args else {})
                base.update(kwargs)
                return None
            if name == "setdefault":
                if _h(args[0]) not in base:
                    from .interp import _data_key
                    I.emit("dict-store", (id(base), keyof(args[0]), "data-keyed" if _data_key(args[0]) else "constant-keyed"), node)
                return base.setdefault(_h(args[0]), args[1] if len(args) > 1 else None)
            if name == "copy":
                return dict(base)
            raise Unsupported(f"dict method {name}", node)
        if isinstance(base, str):
            if name in ("upper", "lower", "strip", "lstrip", "rstrip", "startswith", "endswith", "split",
                        "isidentifier", "find", "replace", "join", "format", "rsplit", "isdecimal", "title"):
                try:
                    if name == "join":
                        return base.join([str(x) for x in I.iterate(args[0], node)])
                    return getattr(base, name)(*args, **kwargs)
                except TypeError as ex:
                    raise _raise("TypeError", node, str(ex))
            if hasattr(base, name) and not name.startswith("_") and all(isinstance(a, (str, int, bool, tuple, type(None))) for a in args):
                try:
                    r = getattr(base, name)(*args, **kwargs)   # str is immutable: every str method is pure
                    return list(r) if isinstance(r, tuple) and False else r
                except (TypeError, ValueError, IndexError, KeyError) as ex:
                    raise _raise(type(ex).__name__, node, str(ex))
            raise Unsupported(f"str method {name}", node)
        if isinstance(base, set):
            if name == "pop":
                return sorted(base)[0] if len(base) == 1 else sorted(base).pop()
            if name == "add":
                base.add(_h(args[0]))
                return None
        if isinstance(base, E):
            if name in ("item",):
                return base
            if name == "astype":
                return base
            if name == "clip":
                return self.np_clip(base, *args, **kwargs)
            if name == "max" or name == "min" or name == "sum":
                return base
        if isinstance(base, (int, float)):
            if name == "is_integer":
                return float(base).is_integer()
        if isinstance(base, (bool, int, float, str, tuple, list, dict)) and not hasattr(type(base), name):
            raise _raise("AttributeError", node, f"'{type(base).__name__}' object has no attribute '{name}'")
        raise Unsupported(f"method {name} of {type(base).__name__}", node)

    def array_method(self, a, name, args, kwargs, node):
        I = self.I
        if name == "sum":
            return self.np_sum(a, *args, **kwargs)
        if name == "transpose":
            if len(args) == 1 and isinstance(args[0], (list, tuple)):
                return a.transpose(tuple(int(x) for x in args[0]))
            return a.transpose(*[int(x) for x in args])
        if name == "reshape":
            shp = args[0] if len(args) == 1 and isinstance(args[0], (tuple, list)) else args
            return a.reshape(tuple(int(x) for x in shp))
        if name in ("flatten", "ravel"):
            order = kwargs.get("order", args[0] if args and isinstance(args[0], str) else "C")
            if order not in ("C", "F"):
                # 'K'/'A': the order of the result follows the MEMORY layout of the array, which the values do not determine
                I.emit("memory-order", (name, order, id(a)), node)
                order = "C"
            return a.flatten(order=order) if name == "flatten" else a.ravel(order=order)
        if name == "copy":
            return a.copy()
        if name == "squeeze":
            return a.squeeze()
        if name == "astype":
            tgt = args[0] if args else kwargs.get("dtype")
            tname = getattr(tgt, "path", None) or (tgt if isinstance(tgt, str) else getattr(tgt, "__name__", ""))
            if str(tname).split(".")[-1] in ("float32", "float16", "half", "single", "f4", "f2"):
                return self.np_float32(a.copy())
            if kwargs.get("copy", True) is False and str(tname).split(".")[-1] in ("float", "float64", "double", "float_", "d", "f8"):
                return a          # already float64 (the generic case): numpy hands back the very same array
            return a.copy()
        if name == "clip":
            return self.np_clip(a, *args, **kwargs)
        if name == "max":
            return self.np_max(a, *args, **kwargs)
        if name == "min":
            return self.np_min(a, *args, **kwargs)
        if name == "mean":
            return self.np_mean(a, *args, **kwargs)
        if name == "cumsum":
            return self.np_cumsum(a, *args, **kwargs)
        if name == "dot":
            return self.matmul(a, args[0], node)
        if name == "fill":
            I.emit("inplace", ("fill", id(a)), node)
            a.fill(cell(args[0]))
            return None
        if name == "all":
            return self.np_all(a)
        if name == "any":
            return self.np_any(a)
        if name == "tolist":
            return a.tolist()
        if name == "item":
            return a.item()
        if name == "argsort":
            return self.np_argsort(a)
        if name == "sort":
            I.emit("inplace", ("sort", id(a)), node)
            return I.opaque("ndarray.sort on symbolic data", node)
        if name == "setflags":
            return None          # write protection: no effect on values
        if name == "tobytes":
            return ("bytes", keyof(a))      # a hashable value that is equal exactly when shape and cells are equal
        if name == "astype" and False:
            pass
        f = getattr(self, "np_" + name, None)
        if f is not None and name not in ("where", "array", "asarray"):
            return f(a, *args, **kwargs)      # ndarray.method(...) == numpy.method(array, ...)
        raise Unsupported(f"ndarray method {name}", node)

    # ------------------------------------------------------------------ external calls
    def call_external(self, path, args, kwargs, node):
        I = self.I
        for ig in IGNORED_MODULES:
            if path == ig or path.startswith(ig + "."):
                return None
        root, _, last = path.rpartition(".")
        f = getattr(self, "x_" + path.replace(".", "_"), None)
        if f is not None:
            return f(node, *args, **kwargs)
        if root == "numpy" and args and isinstance(args[0], SymArr) and last in ("cumsum", "copy", "sum", "ravel", "flatten"):
            return self.call_method(args[0], last, list(args[1:]), kwargs, node)     # numpy.f(a, ...) == a.f(...)
        if root in ("numpy", "numpy.linalg", "scipy.linalg", "numpy.ma", "numpy.random", "scipy.special"):
            f = getattr(self, "np_" + last, None)
            if f is not None:
                op = [a for a in args if isinstance(a, Opaque)]
                if op:
                    return I.opaque(f"{last} of an opaque value ({op[0].reason})", node)
                return f(*args, **kwargs)
        m_ = _re_ufunc.match(path)
        if m_ and not kwargs:
            r_ = self._ufunc_method(m_.group(1), m_.group(2), args, node)
            if r_ is not _NOPE:
                return r_
        if root == "bisect" and last in ("bisect_left", "bisect_right", "bisect") and len(args) == 2 and not kwargs:
            seq = args[0]
            arr = seq if isinstance(seq, np.ndarray) else mkarr([cell(x) for x in seq]) if isinstance(seq, (list, tuple)) else None
            if arr is not None and arr.ndim == 1:
                return self.np_searchsorted(arr, args[1], side="left" if last == "bisect_left" else "right")
        if root == "math" and last in _MATH_AS_NUMPY and not kwargs:
            # the math module on scalars: same real functions as their NumPy namesakes
            f = getattr(self, "np_" + _MATH_AS_NUMPY[last], None)
            if f is not None and not any(isinstance(a, np.ndarray) and a.ndim > 0 for a in args):
                op = [a for a in args if isinstance(a, Opaque)]
                if op:
                    return I.opaque(f"{last} of an opaque value ({op[0].reason})", node)
                return f(*args)
        if root == "numpy" and last in _PURE_NUMPY:
            r_ = self._concrete_numpy(last, args, kwargs)
            if r_ is not _NOPE:
                return r_
        parts_ = path.split(".")
        if parts_[0] == "builtins" and len(parts_) == 3 and parts_[1] == "str" and args and isinstance(args[0], str) and hasattr(str, last):
            # unbound string method, str.isdecimal(c): pure, evaluated on the concrete string
            if all(isinstance(a, (str, int, tuple)) for a in args):
                return getattr(str, last)(*args, **kwargs)
        if root == "builtins":
            f = getattr(self, "b_" + last, None)
            if f is not None:
                return f(node, *args, **kwargs)
            if last in alg_exc_names():
                return ExcVal(last, args=tuple(args), node=node)
        if root == "re" and last in ("split", "sub", "match", "fullmatch", "search", "findall") and all(isinstance(a, (str, int)) for a in args):
            import re as _re
            r = getattr(_re, last)(*args, **kwargs)
            if last in ("match", "fullmatch", "search"):
                return None if r is None else Record(None, {"group0": r.group(0)}, label="re.Match")
            return r
        if root == "collections" and last == "namedtuple":
            tname, fields = args[0], list(I.iterate(args[1], node))
            cls = Record(None, {"_fields": tuple(fields), "__name__": tname}, label=f"namedtuple {tname}")

            def make(I_, seq):
                vals = list(I_.iterate(seq))
                if len(vals) != len(fields):
                    raise _raise("TypeError", node, f"Expected {len(fields)} arguments, got {len(vals)}")
                r = Record(None, dict(zip(fields, vals)), label=tname)
                r.attrs["_fields"] = tuple(fields)
                r.attrs["_class"] = cls
                return r
            cls.native_methods["_make"] = Native("_make", make)
            return cls
        if root == "functools" and last == "partial":
            return Partial(args[0], tuple(args[1:]), dict(kwargs))
        if root == "functools" and last == "wraps":
            return Native("wraps", lambda I_, f_: f_)
        if root == "dataclasses" and last == "field":
            return ("__field__", dict(kwargs))
        if root in ("os.path", "posixpath") and all(isinstance(a, str) for a in args) and not kwargs:
            import posixpath as _pp
            if last in ("abspath", "normpath", "realpath", "expanduser", "normcase"):
                return _pp.normpath(args[0]) if last != "expanduser" else args[0]      # the analysed paths are absolute already
            if last in ("basename", "dirname", "join", "splitext", "split", "isabs"):
                r_ = getattr(_pp, last)(*args)
                return list(r_) if False else r_
        if root == "dataclasses" and last == "fields":
            obj = args[0]
            cv = obj.cls if isinstance(obj, Record) else obj
            return tuple(I.field_record(f) for f in I.dataclass_fields(cv))
        if root == "dataclasses" and last == "asdict":
            rec = args[0]
            out = {}
            for n, ann, d, owner in I.dataclass_fields(rec.cls):
                out[n] = rec.attrs[n]
            return out
        if root == "itertools" and last == "combinations":
            return list(itertools.combinations(I.iterate(args[0], node), int(args[1])))
        if root == "itertools" and last == "batched":
            xs = I.iterate(args[0], node)
            k = int(args[1])
            return [tuple(xs[i:i + k]) for i in range(0, len(xs), k)]
        if root == "itertools" and last == "pairwise":
            xs = I.iterate(args[0], node)
            return list(zip(xs, xs[1:]))
        if path in ("builtins.object.__setattr__", "builtins.setattr") and len(args) == 3 and isinstance(args[1], str):
            obj, name_, val_ = args
            if isinstance(obj, Record):
                I.emit("setattr", (obj, name_, val_), node)
                obj.attrs[name_] = val_
                return None
            if hasattr(obj, "attrs") and isinstance(getattr(obj, "attrs"), dict):
                obj.attrs[name_] = val_
                return None
            raise Unsupported(f"setattr on {type(obj).__name__}", node)
        I.emit("extcall", (path, tuple(keyof(a) for a in args)), node)
        return I.opaque(f"external call {path}", node)

    def _concrete_numpy(self, name, args, kwargs):
        """A NumPy function that is not modelled, applied to arguments that are all CONSTANTS of the analysed program (integers, booleans,
        rationals, arrays of those): constant folding with NumPy itself.  Anything symbolic: not applicable."""
        from fractions import Fraction as _Fr

        def conc(v):
            if isinstance(v, (bool, np.bool_, int, str)) or v is None:
                return v
            if isinstance(v, float):
                return v
            if isinstance(v, IntSym):
                raise ValueError
            if isinstance(v, E):
                if not v.is_const():
                    raise ValueError
                c = v.cval()
                return int(c) if _Fr(c).denominator == 1 else float(c)
            if isinstance(v, np.ndarray):
                cells_ = [conc(x) for x in v.flat]
                return np.array(cells_).reshape(v.shape) if cells_ else np.zeros(v.shape)
            if isinstance(v, (list, tuple)):
                return type(v)(conc(x) for x in v)
            if isinstance(v, ExtRef) and v.path in ("builtins.bool", "builtins.int", "builtins.float", "numpy.float64", "numpy.int64", "numpy.bool_"):
                return {"builtins.bool": bool, "builtins.int": int, "builtins.float": float, "numpy.float64": np.float64, "numpy.int64": np.int64, "numpy.bool_": np.bool_}[v.path]
            if v in (bool, int, float):
                return v
            raise ValueError

        def back(r):
            if isinstance(r, np.ndarray):
                out = np.empty(r.shape, dtype=object)
                for i in np.ndindex(*r.shape):
                    x = r[i]
                    out[i] = bool(x) if isinstance(x, (bool, np.bool_)) else lift(int(x)) if isinstance(x, (int, np.integer)) else lift(float(x))
                return out
            if isinstance(r, tuple):
                return tuple(back(x) for x in r)
            if isinstance(r, (bool, np.bool_)):
                return bool(r)
            if isinstance(r, (int, np.integer)):
                return int(r)
            if isinstance(r, (float, np.floating)):
                return lift(float(r))
            raise ValueError
        try:
            a2 = [conc(a) for a in args]
            k2 = {k: conc(v) for k, v in kwargs.items()}
            return back(getattr(np, name)(*a2, **k2))
        except Exception:
            return _NOPE

    # --- builtins
    def b_range(self, node, *a):
        return range(*[int(x.cval()) if isinstance(x, E) else int(x) for x in a])

    def b_len(self, node, x):
        if isinstance(x, ClassVal) and x.kind in ("enum", "intenum"):
            return len(x.members)
        if isinstance(x, np.ndarray):
            if x.ndim == 0:
                raise _raise("TypeError", node, "len() of unsized object")
            return x.shape[0]
        if isinstance(x, (list, tuple, dict, str, set)):
            return len(x)
        if isinstance(x, Mask):
            return len(x)
        if isinstance(x, MaskLoad):
            raise Unsupported("len() of rows selected by a data-dependent mask (the length depends on the data)", node)
        if isinstance(x, Record) and x.cls is None:
            return len(x.attrs)
        if isinstance(x, Opaque):
            return x
        raise _raise("TypeError", node, f"object of type {type(x).__name__} has no len()")

    def b_enumerate(self, node, x, start=0):
        return [(i + int(start), v) for i, v in enumerate(self.I.iterate(x, node))]

    def b_zip(self, node, *xs, strict=False):
        ls = [self.I.iterate(x, node) for x in xs]
        if strict and len({len(l) for l in ls}) > 1:
            raise _raise("ValueError", node, "zip() arguments have different lengths")
        return list(zip(*ls))

    def b_iter(self, node, x, *a):
        from .values import GenList
        return GenList(self.I.iterate(x, node))

    def b_next(self, node, it, *default):
        from .values import GenList
        if isinstance(it, GenList):
            if it:
                return it.pop(0)
            if default:
                return default[0]
            raise _raise("StopIteration", node, "")
        if isinstance(it, list):
            raise _raise("TypeError", node, "'list' object is not an iterator")
        try:
            return next(it)
        except StopIteration:
            if default:
                return default[0]
            raise _raise("StopIteration", node, "")
        except TypeError:
            raise Unsupported("next() of a non-iterator abstract value", node)

    def b_map(self, node, f, *xs):
        ls = [self.I.iterate(x, node) for x in xs]
        return [self.I.call(f, a, {}, node) for a in zip(*ls)]

    def b_filter(self, node, f, xs):
        out = []
        for x in self.I.iterate(xs, node):
            t = self.I.truth(self.I.call(f, (x,), {}, node) if f is not None else x)
            if not isinstance(t, bool):
                raise Unsupported("filter() with a symbolic or unmodelled predicate", node)
            if t:
                out.append(x)
        return out

    def b_sorted(self, node, x, key=None, reverse=False):
        xs = self.I.iterate(x, node)
        try:
            if key is not None:
                ks = [self.I.call(key, (v,), {}, node) for v in xs]
                order = sorted(range(len(xs)), key=lambda i: _sortkey(ks[i]), reverse=bool(reverse))
                return [xs[i] for i in order]
            return sorted(xs, key=_sortkey, reverse=bool(reverse))
        except TypeError:
            raise Unsupported("sorted() of symbolic values", node)

    def b_reversed(self, node, x):
        return list(reversed(self.I.iterate(x, node)))

    def b_list(self, node, x=()):
        return list(self.I.iterate(x, node))

    def b_tuple(self, node, x=()):
        return tuple(self.I.iterate(x, node))

    def b_dict(self, node, *a, **kw):
        d = dict(a[0]) if a else {}
        d.update(kw)
        return d

    def b_set(self, node, x=()):
        return set(_h(v) for v in self.I.iterate(x, node))

    def b_frozenset(self, node, x=()):
        return frozenset(_h(v) for v in self.I.iterate(x, node))

    def b_str(self, node, x=""):
        from .interp import _fmt
        return _fmt(x)

    def b_repr(self, node, x):
        return repr(x)

    def b_int(self, node, x=0):
        if isinstance(x, str):
            try:
                return int(x)
            except ValueError:
                raise _raise("ValueError", node, f"invalid literal for int(): {x!r}")
        x = cell(x)
        if isinstance(x, E) and x.is_const():
            return int(x.cval())
        if isinstance(x, Opaque):
            return x
        o = self.I.opaque("int() of symbolic value", node)
        o.src = x
        return o

    def b_float(self, node, x=0):
        if isinstance(x, str):
            try:
                float(x)
            except ValueError:
                raise _raise("ValueError", node, "could not convert string to float")
            return lift(float(x)) if x.lower() not in ("nan", "inf", "-inf") else (NAN if x.lower() == "nan" else INF)
        return cell(x)

    def b_bool(self, node, x=False):
        return self.I.truth(x)

    def b_abs(self, node, x):
        return self.np_abs(x)

    def b_round(self, node, x, nd=None):
        x = cell(x)
        if isinstance(x, E) and x.is_const():
            return round(x.cval()) if nd is None else lift(round(x.cval(), int(nd)))
        return alg.Fn("round", x)

    def b_sum(self, node, xs, start=0):
        r = cell(start) if not isinstance(start, int) or start else 0
        for x in self.I.iterate(xs, node):
            r = self.I.binop(_ADD, r, x, node)
        return r

    def b_min(self, node, *xs, **kw):
        return self._minmax(node, xs, min)

    def b_max(self, node, *xs, **kw):
        return self._minmax(node, xs, max)

    def _minmax(self, node, xs, f):
        if len(xs) == 1:
            xs = self.I.iterate(xs[0], node)
        if any(isinstance(x, SymIdx) for x in xs):
            return SymIdx(f.__name__, tuple(xs))       # a data-dependent index bounded by something: still a data-dependent index
        try:
            return f(xs, key=_sortkey)
        except TypeError:
            return alg.Fn(f.__name__, tuple(cell(x) for x in xs))

    def b_isinstance(self, node, x, t):
        return self._isinst(x, t, node)

    def _isinst(self, x, t, node):
        if isinstance(t, tuple) and t and t[0] == "union":
            return any(self._isinst(x, u, node) for u in t[1:])
        if isinstance(t, tuple):
            return any(self._isinst(x, u, node) for u in t)
        if isinstance(t, ClassVal):
            if isinstance(x, Record) and x.cls is not None:
                return t in x.cls.mro()
            if isinstance(x, EnumMember):
                return t in x.cls.mro()
            return False
        name = t.path.split(".")[-1] if isinstance(t, ExtRef) else getattr(t, "__name__", None)
        if t is None:
            return x is None
        if name == "str":
            return isinstance(x, str)
        if name == "bool":
            return isinstance(x, bool)
        if name == "int":
            return (isinstance(x, (int, IntSym)) or (isinstance(x, EnumMember) and x.is_int)
                    or (isinstance(x, E) and x.is_int() and False))
        if name == "float":
            return isinstance(x, (E, alg.Inf)) or isinstance(x, float)
        if name in ("list", "tuple", "dict", "set"):
            return type(x).__name__ == name
        if name == "ndarray":
            return isinstance(x, np.ndarray)
        if name in ("StringIO", "TextIOWrapper"):
            return False
        raise Unsupported(f"isinstance against {t!r}", node)

    def b_callable(self, node, x):
        return isinstance(x, (FuncVal, Native, Partial, BoundMethod, ClassVal, ExtRef))

    def b_hasattr(self, node, x, name):
        try:
            self.I.getattr(x, name, node)
            return True
        except Exception:
            return False

    def b_getattr(self, node, x, name, *default):
        from .interp import RaiseSig
        try:
            return self.I.getattr(x, name, node)
        except RaiseSig as r:
            if default and r.exc.typename == "AttributeError":
                return default[0]
            raise
        except Unsupported:
            if isinstance(x, (ExtRef,)):
                return ExtRef(x.path + "." + name)
            raise

    def b_type(self, node, x):
        if isinstance(x, Record):
            return x.cls
        if isinstance(x, EnumMember):
            return x.cls
        if isinstance(x, E):
            return float
        if isinstance(x, IntSym):
            return int
        if isinstance(x, np.ndarray):
            return ExtRef("numpy.ndarray")
        return type(x)

    def b_hash(self, node, x):
        return 0

    def b_id(self, node, x):
        # identity of the abstract object stands for the identity of the concrete one: the interpreter creates a new abstract object
        # exactly where the program creates a new concrete one, and in-place mutation keeps both
        return id(x)

    def b_print(self, node, *a, **k):
        return None

    def b_any(self, node, xs):
        return self.np_any(mkarr(list(self.I.iterate(xs, node)))) if False else self._anyall(xs, node, any)

    def b_all(self, node, xs):
        return self._anyall(xs, node, all)

    def _anyall(self, xs, node, f):
        ts = [self.I.truth(x) for x in self.I.iterate(xs, node)]
        if all(isinstance(t, bool) for t in ts):
            return f(ts)
        gs = [t for t in ts if not isinstance(t, bool)]
        bs = [t for t in ts if isinstance(t, bool)]
        if f is all and not all(bs):
            return False
        if f is any and any(bs):
            return True
        return Guard("and" if f is all else "or", *gs)

    def b_open(self, node, *a, **k):
        self.I.emit("io", ("open", keyof(a), tuple(sorted((k_, keyof(v)) for k_, v in k.items()))), node)
        return Opaque("file object")

    def b_divmod(self, node, a, b):
        return divmod(int(a), int(b))

    def b_pow(self, node, a, b):
        return self.I.power(cell(a), cell(b), node)

    # --- numpy creation
    def np_array(self, x, dtype=None, **kw):
        if isinstance(x, np.ndarray):
            return x.copy()
        if isinstance(x, (list, tuple)):
            if x and all(isinstance(v, (bool, np.bool_)) for v in x):
                b_ = np.empty(len(x), dtype=object)      # a boolean array stays boolean (it may be used as a mask)
                for i_, v in enumerate(x):
                    b_[i_] = bool(v)
                return b_
            xs = [self.np_array(v) if isinstance(v, (list, tuple, np.ndarray)) else v for v in x]
            if xs and all(isinstance(v, np.ndarray) for v in xs):
                return np.stack(xs) if xs[0].ndim else mkarr([v.item() for v in xs])
            return mkarr(xs)
        return np.array(cell(x), dtype=object)

    def np_asarray(self, x, dtype=None, **kw):
        if isinstance(x, np.ndarray):
            return x
        if isinstance(x, (E, int, float, IntSym)):
            return cell(x)
        return self.np_array(x)

    np_asanyarray = np_asarray

    def np_atleast_1d(self, x):
        if isinstance(x, np.ndarray):
            return x if x.ndim else x.reshape(1)
        if isinstance(x, (list, tuple)):
            return self.np_array(x)
        return mkarr([cell(x)])

    def np_atleast_2d(self, x):
        a = self.np_atleast_1d(x)
        return a if a.ndim >= 2 else a.reshape(1, -1)

    def _note_dtype(self, dtype, like=None):
        """a new buffer whose element type is taken from another array: recorded, the checks decide whether that array is an argument"""
        src = self.dtype_of.get(id(dtype)) if dtype is not None else None
        if src is not None:
            self.I.emit("dtype-from", (src[0],))
        if like is not None and isinstance(like, np.ndarray) and dtype is None:
            ids, b = [id(like)], like
            while getattr(b, "base", None) is not None:      # a view (x[0], x[:, 1]) has the element type of the array it views
                b = b.base
                ids.append(id(b))
            self.I.emit("dtype-from", tuple(ids))

    def np_zeros(self, shape, dtype=None, order=None, **kw):
        self._note_dtype(dtype)
        return full(_shape(shape), 0)

    def np_ones(self, shape, dtype=None, order=None, **kw):
        self._note_dtype(dtype)
        return full(_shape(shape), 1)

    def np_empty(self, shape, dtype=None, order=None, **kw):
        self._note_dtype(dtype)
        a = np.empty(_shape(shape), dtype=object)
        a.fill(UNINIT)
        return a

    def np_full(self, shape, v, dtype=None):
        self._note_dtype(dtype)
        return full(_shape(shape), v)

    def np_zeros_like(self, a, dtype=None):
        self._note_dtype(dtype, like=a)
        return full(np.shape(a), 0)

    def np_empty_like(self, a, dtype=None):
        self._note_dtype(dtype, like=a)
        r_ = np.empty(np.shape(a), dtype=object)
        r_.fill(UNINIT)
        return r_

    def np_ones_like(self, a, dtype=None):
        self._note_dtype(dtype, like=a)
        return full(np.shape(a), 1)

    def np_eye(self, n, dtype=None):
        a = full((int(n), int(n)), 0)
        for i in range(int(n)):
            a[i, i] = ONE
        return a

    def np_diag(self, v):
        v = self.np_asarray(v)
        if v.ndim == 1:
            a = full((len(v), len(v)), 0)
            for i in range(len(v)):
                a[i, i] = v[i]
            return a
        return mkarr([v[i, i] for i in range(min(v.shape))])

    def np_repeat(self, a, n, axis=None):
        if not isinstance(a, np.ndarray):
            a = mkarr([cell(a)])
        return np.repeat(a, int(n), axis=axis if axis is None else int(axis))

    def np_tile(self, a, reps):
        return np.tile(self.np_asarray(a), reps)

    def np_hstack(self, xs):
        return np.hstack([self.np_atleast_1d(x) for x in xs])

    def np_concatenate(self, xs, axis=0):
        return np.concatenate([self.np_asarray(x) for x in xs], axis=int(axis))

    def np_stack(self, xs, axis=0):
        arrs = [self.np_asarray(x) for x in xs]
        if len({getattr(a, "shape", None) for a in arrs}) > 1 or not arrs:
            raise _raise("ValueError", None, "all input arrays must have the same shape")
        return np.stack(arrs, axis=int(axis))

    def np_column_stack(self, xs):
        return np.column_stack([self.np_asarray(x) for x in xs])

    def np_reshape(self, a, shape):
        return self.np_asarray(a).reshape(_shape(shape))

    def np_transpose(self, a, axes=None):
        return self.np_asarray(a).transpose(axes)

    def np_ravel(self, a, order="C", **kw):
        return self.call_method(self.np_asarray(a), "ravel", [], {"order": kw.get("order", order)}, None)

    def np_squeeze(self, a):
        return self.np_asarray(a).squeeze()

    def np_copy(self, a):
        return self.np_asarray(a).copy()

    def np_shape(self, a):
        return tuple(np.shape(a))

    def np_ndim(self, a):
        return np.ndim(a)

    def np_size(self, a):
        return int(np.size(a))

    def np_triu(self, a, k=0):
        out = a.copy()
        for i in np.ndindex(*a.shape):
            if i[-2] > i[-1] - int(k):
                out[i] = ZERO
        return out

    def np_tril(self, a, k=0):
        out = a.copy()
        for i in np.ndindex(*a.shape):
            if i[-2] < i[-1] - int(k):
                out[i] = ZERO
        return out

    def np_where(self, c, a=None, b=None):
        if a is None:
            raise Unsupported("np.where with one argument")
        shp = (len(c),) if isinstance(c, Mask) else np.shape(c)
        if isinstance(a, np.ndarray):
            shp = a.shape
        elif isinstance(b, np.ndarray):
            shp = b.shape
        a = a if isinstance(a, np.ndarray) else full(shp, a)
        b = b if isinstance(b, np.ndarray) else full(shp, b)
        if isinstance(c, Mask):
            out = np.empty(a.shape, dtype=object)
            for g, cond in enumerate(c.conds):
                if a.ndim == 1:
                    out[g] = _select(cond, a[g], b[g])
                else:
                    for i in np.ndindex(*a.shape[1:]):
                        out[(g,) + i] = _select(cond, a[(g,) + i], b[(g,) + i])
            return out
        out = np.empty(a.shape, dtype=object)
        for i in np.ndindex(*a.shape):
            ci = c[i]
            if isinstance(ci, (bool, np.bool_)):
                out[i] = a[i] if ci else b[i]
            elif isinstance(ci, Guard):
                out[i] = _select(ci, a[i], b[i])
            elif isinstance(ci, E):
                # numeric truthiness: c != 0
                if not ci.t:
                    out[i] = b[i]
                elif ci.is_const():
                    out[i] = a[i]
                elif a[i] == b[i]:
                    out[i] = a[i]
                elif ci == a[i] and not b[i].t:
                    out[i] = a[i]  # where(x, x, 0) == x for every x
                else:
                    out[i] = _select(Guard("cmp", "NotEq", ci, ZERO), a[i], b[i])
            else:
                raise Unsupported("np.where condition cell")
        return out

    # --- numpy elementwise
    def np_abs(self, x):
        if isinstance(x, MaskedArray):
            return MaskedArray(vec(alg.Abs, x.data), x.conds, x.fill_value)
        return vec(_abs1, x)

    np_absolute = np_abs
    np_fabs = np_abs

    def np_sqrt(self, x):
        if isinstance(x, MaskedArray):
            return MaskedArray(vec(alg.Sqrt, x.data), x.conds, x.fill_value)
        return vec(alg.Sqrt, x)

    def np_exp(self, x):
        return vec(alg.Exp, x)

    def np_sin(self, x):
        return vec(alg.Sin, x)

    def np_cos(self, x):
        return vec(alg.Cos, x)

    def np_tan(self, x):
        return vec(lambda u: alg.Sin(u) * alg.Cos(u).inv(), x)

    def np_arccos(self, x):
        return vec(alg.Arccos, x)

    def np_arcsin(self, x):
        return vec(lambda u: alg.Fn("arcsin", u), x)

    def np_cosh(self, x):
        return vec(lambda u: alg.Fn("cosh", u), x)

    def np_sinh(self, x):
        return vec(lambda u: alg.Fn("sinh", u), x)

    def np_tanh(self, x):
        return vec(lambda u: alg.Fn("tanh", u), x)

    def np_expm1(self, x):
        return vec(lambda u: alg.Exp(u) - 1, x)

    def np_log1p(self, x):
        return vec(lambda u: alg.Fn("log", 1 + u), x)

    def np_arctan(self, x):
        return vec(lambda u: alg.Fn("arctan", u), x)

    def np_arctan2(self, y, x):
        return vec2(alg.Arctan2, y, x)

    def np_log(self, x):
        return vec(lambda u: alg.Fn("log", u), x)

    def np_sign(self, x):
        return vec(_sign1, x)

    def _round_fn(self, name, x):
        import math as _m

        def one(u):
            u = cell(u)
            if isinstance(u, E) and u.is_const():
                return lift({"floor": _m.floor, "ceil": _m.ceil, "trunc": _m.trunc}[name](u.cval()))
            return alg.Fn(name, u)
        return vec(one, x)

    def _np_int(self, x=0):
        if isinstance(x, EnumMember):
            x = x.value
        if isinstance(x, (bool, np.bool_)):
            return int(x)
        if isinstance(x, (int, IntSym)):
            return x
        return self.b_int(None, x)

    np_int64 = np_int32 = np_int16 = np_int8 = np_intp = np_uint8 = np_uint64 = np_int_ = _np_int

    def _np_float(self, x=0):
        if isinstance(x, EnumMember):
            x = x.value
        return vec(lambda u: cell(u), x) if isinstance(x, np.ndarray) else cell(x)

    np_float64 = np_double = np_float_ = _np_float

    def np_float32(self, x=0):
        # a narrowing conversion is not the identity: kept as an uninterpreted rounding
        return vec(lambda u: alg.Fn("float32", cell(u)), x) if isinstance(x, np.ndarray) else alg.Fn("float32", cell(x))

    np_float16 = np_float32

    def np_ascontiguousarray(self, a, dtype=None, **kw):
        return self.np_asarray(a)

    def np_asfortranarray(self, a, dtype=None, **kw):
        return self.np_asarray(a)

    def np_floor(self, x):
        return self._round_fn("floor", x)

    def np_mod(self, a, b):
        return self.I.binop(_ast.Mod(), a if isinstance(a, np.ndarray) else cell(a), b if isinstance(b, np.ndarray) else cell(b), None, None)

    np_remainder = np_mod

    def np_floor_divide(self, a, b):
        return self.I.binop(_ast.FloorDiv(), a if isinstance(a, np.ndarray) else cell(a), b if isinstance(b, np.ndarray) else cell(b), None, None)

    def np_ceil(self, x):
        return self._round_fn("ceil", x)

    def np_trunc(self, x):
        return self._round_fn("trunc", x)

    def np_square(self, x):
        return vec(lambda u: u * u, x)

    def np_rad2deg(self, x):
        return vec(lambda u: u * 180 / alg.PI, x)

    np_degrees = np_rad2deg

    def np_deg2rad(self, x):
        return vec(lambda u: u * alg.PI / 180, x)

    np_radians = np_deg2rad

    def np_isnan(self, x):
        return vec(lambda u: True if u == NAN else (Guard("isnan", u) if not u.is_const() else False), x)

    def np_logical_and(self, a, b):
        if isinstance(a, Mask) and isinstance(b, Mask):
            return Mask([_gand(p, q) for p, q in zip(a.conds, b.conds)])
        return vec2(lambda p, q: _gand(p, q), a, b)

    def np_logical_or(self, a, b):
        if isinstance(a, Mask) and isinstance(b, Mask):
            return Mask([_gor(p, q) for p, q in zip(a.conds, b.conds)])
        return vec2(lambda p, q: _gor(p, q), a, b)

    def np_logical_not(self, a):
        if isinstance(a, Mask):
            return Mask([c.negate() for c in a.conds])
        raise Unsupported("logical_not")

    def np_clip(self, a, lo=None, hi=None, out=None, **kw):
        lo = kw.get("a_min", kw.get("min", lo))
        hi = kw.get("a_max", kw.get("max", hi))
        lo = None if lo is None else cell(lo)
        hi = None if hi is None else cell(hi)
        if isinstance(a, EnumMember) and a.is_int:
            a = a.value
        r = vec(_clip1, a, lo, hi)
        if out is not None:
            out[...] = r
            self.I.emit("inplace", ("clip-out", id(out)))
            return out
        return r

    def np_maximum(self, a, b):
        return vec2(lambda x, y: alg.Fn("max", (x, y)) if x != y else x, a, b)

    def np_minimum(self, a, b):
        return vec2(lambda x, y: alg.Fn("min", (x, y)) if x != y else x, a, b)

    # --- numpy reductions / linear algebra
    def np_sum(self, a, axis=None, **kw):
        if isinstance(a, (MaskLoad, Mask)) and axis is None:
            return self.call_method(a, "sum", (), {}, None)
        if isinstance(a, (list, tuple)):
            a = self.np_array(a)
        if not isinstance(a, np.ndarray):
            return cell(a)
        if axis is None:
            r = ZERO
            for x in a.flat:
                r = r + x
            return r
        return np.add.reduce(a, axis=int(axis))

    def np_mean(self, a, axis=None):
        if axis is not None:
            raise Unsupported("mean with axis")
        return self.np_sum(a) / a.size

    def np_cumsum(self, a, axis=None, **kw):
        a = self.np_asarray(a)
        if axis is not None and a.ndim > 1:
            axis = int(cell(axis).cval()) if not isinstance(axis, int) else axis
            out = np.empty(a.shape, dtype=object)
            moved_in, moved_out = np.moveaxis(a, axis, -1), np.moveaxis(out, axis, -1)
            for ix in np.ndindex(*moved_in.shape[:-1]):
                r = ZERO
                for j in range(moved_in.shape[-1]):
                    r = r + moved_in[ix + (j,)]
                    moved_out[ix + (j,)] = r
            return out
        out = np.empty(a.size, dtype=object)
        r = ZERO
        for i, x in enumerate(a.flat):
            r = r + x
            out[i] = r
        return out

    def np_trace(self, a):
        r = ZERO
        for i in range(min(a.shape[0], a.shape[1])):
            r = r + a[i, i]
        return r

    def np_dot(self, a, b):
        return self.matmul(self.np_asarray(a), self.np_asarray(b), None)

    def matmul(self, a, b, node):
        if isinstance(a, (list, tuple)):
            a = self.np_array(a)
        if isinstance(b, (list, tuple)):
            b = self.np_array(b)
        if not isinstance(a, np.ndarray) or not isinstance(b, np.ndarray):
            return a * b
        try:
            if a.ndim == 1 and b.ndim == 1:
                if a.shape != b.shape:
                    raise ValueError("shape mismatch")
                r = ZERO
                for x, y in zip(a, b):
                    r = r + x * y
                return r
            return np.dot(a, b) if (a.ndim <= 2 and b.ndim <= 2) else np.matmul(a, b)
        except ValueError as ex:
            from .interp import RaiseSig
            raise RaiseSig(ExcVal("ValueError", args=(str(ex),), node=node))

    def np_matmul(self, a, b, out=None, **kw):
        r = self.matmul(a, b, None)
        if out is not None and isinstance(out, np.ndarray):
            out[...] = r
            self.I.emit("inplace", ("out", id(out)))
            return out
        return r

    def np_cross(self, a, b):
        a, b = self.np_asarray(a), self.np_asarray(b)
        return mkarr([a[1] * b[2] - a[2] * b[1], a[2] * b[0] - a[0] * b[2], a[0] * b[1] - a[1] * b[0]])

    def np_outer(self, a, b):
        return np.outer(self.np_asarray(a), self.np_asarray(b))

    def np_tensordot(self, a, b, axes=2):
        a, b = self.np_asarray(a), self.np_asarray(b)
        if isinstance(axes, (tuple, list)):
            axes = tuple([int(x) for x in ax] if isinstance(ax, (tuple, list)) else int(ax) for ax in axes)
        else:
            axes = int(axes)
        return np.tensordot(a, b, axes=axes)

    def np_einsum(self, spec, *ops, optimize=None, **kw):
        ops = [self.np_asarray(o) for o in ops]
        ins, _, out = spec.replace(" ", "").partition("->")
        ins = ins.split(",")
        dims = {}
        for s, o in zip(ins, ops):
            for ch, d in zip(s, o.shape):
                dims[ch] = d
        if not _:
            out = "".join(sorted(ch for ch in dims if sum(s.count(ch) for s in ins) == 1))
        summed = [ch for ch in dims if ch not in out]
        res = np.empty(tuple(dims[ch] for ch in out), dtype=object)
        for oi in np.ndindex(*res.shape) if out else [()]:
            env = dict(zip(out, oi))
            tot = ZERO
            for si in itertools.product(*[range(dims[ch]) for ch in summed]):
                env.update(zip(summed, si))
                t = ONE
                for s, o in zip(ins, ops):
                    t = t * o[tuple(env[ch] for ch in s)]
                tot = tot + t
            if out:
                res[oi] = tot
            else:
                return tot
        return res

    def np_all(self, a, axis=None):
        if isinstance(a, (list, tuple)):
            ts = [self.I.truth(x) for x in a]
        elif isinstance(a, Mask):
            ts = list(a.conds)
        elif isinstance(a, tuple) and a and a[0] == "eqzero":
            ts = None
        elif isinstance(a, np.ndarray):
            ts = [self.I.truth(x) if not isinstance(x, Guard) else x for x in a.flat]
        elif isinstance(a, (bool, Guard)):
            return a
        else:
            ts = [self.I.truth(a)]
        ts = [(t.args[0] if isinstance(t, Guard) and t.kind == "const" else t) for t in ts]
        if all(isinstance(t, (bool, np.bool_)) for t in ts):
            return all(bool(t) for t in ts)
        if any(t is False for t in ts):
            return False
        gs = [t for t in ts if isinstance(t, Guard)]
        # all(v == 0) recognised as one fact about the vector (cells that are statically 0 drop out)
        if gs and all(g.kind == "cmp" and g.args[0] == "Eq" and isinstance(g.args[2], E) and not g.args[2].t for g in gs):
            return Guard("all", "eqzero", tuple(g.args[1] for g in gs))
        return Guard("and", *gs)

    def np_any(self, a, axis=None):
        if isinstance(a, Mask):
            ts = list(a.conds)
        elif isinstance(a, np.ndarray):
            ts = [self.I.truth(x) if not isinstance(x, Guard) else x for x in a.flat]
        elif isinstance(a, (list, tuple)):
            ts = [self.I.truth(x) for x in a]
        else:
            return self.I.truth(a)
        if any(t is True for t in ts):
            return True
        gs = [t for t in ts if isinstance(t, Guard)]
        if not gs:
            return False
        return Guard("or", *gs) if len(gs) > 1 else gs[0]

    def np_max(self, a, axis=None, **kw):
        a = self.np_asarray(a)
        if not isinstance(a, np.ndarray):
            return a
        if axis is not None:
            raise Unsupported("max with axis")
        cs = cells(a)
        if all(c.is_const() for c in cs):
            return lift(max(c.cval() for c in cs))
        if len(set(cs)) == 1:
            return cs[0]
        return alg.Fn("max", tuple(sorted(set(cs), key=lambda e: e.key())))

    np_amax = np_max

    def np_min(self, a, axis=None, **kw):
        a = self.np_asarray(a)
        if not isinstance(a, np.ndarray):
            return a
        cs = cells(a)
        if all(c.is_const() for c in cs):
            return lift(min(c.cval() for c in cs))
        if len(set(cs)) == 1:
            return cs[0]
        return alg.Fn("min", tuple(sorted(set(cs), key=lambda e: e.key())))

    np_amin = np_min

    def np_argsort(self, a, **kw):
        a = self.np_asarray(a)
        cs = cells(a)
        if all(c.is_const() for c in cs):
            order = sorted(range(len(cs)), key=lambda i: cs[i].cval())
            return mkarr(order).astype(object) if False else np.array(order, dtype=object)
        if self.I.perm_chooser is None and self.I.model is not None:
            r_ = self._model_argsort(a, kw)
            if r_ is not None:
                return r_
        if self.I.perm_chooser is None:
            return SymIdx("argsort", (a,))
        perm = self.I.perm_chooser(cs)
        self.I.facts.append(("perm", cs, tuple(perm)))
        return np.array(list(perm), dtype=object)

    def _ufunc_method(self, uf, method, args, node):
        """numpy.<ufunc>.outer / .accumulate / .reduce on one-dimensional data"""
        I = self.I
        arrs = [self.np_asarray(a) for a in args]
        if any(not isinstance(a, np.ndarray) or a.ndim != 1 for a in arrs):
            return _NOPE

        def op(x, y):
            if uf in _UFUNC_CMP:
                return I.compare1(_OPS[_UFUNC_CMP[uf]], x, y, node)
            if uf == "add":
                return x + y
            if uf == "subtract":
                return x - y
            if uf == "multiply":
                return x * y
            return self.np_maximum(x, y) if uf == "maximum" else self.np_minimum(x, y)
        if method == "outer" and len(arrs) == 2:
            a, b = arrs
            cellsv = [[op(x, y) for y in b] for x in a]
            flat = [c for row in cellsv for c in row]
            if uf in _UFUNC_CMP:
                if all(isinstance(c, (bool, np.bool_)) for c in flat):
                    return np.array([[bool(c) for c in row] for row in cellsv], dtype=bool).reshape(len(a), len(b))
                out = np.empty((len(a), len(b)), dtype=object)
                for i, row in enumerate(cellsv):
                    for j, c in enumerate(row):
                        out[i, j] = c if isinstance(c, Guard) else Guard("const", bool(c))
                return out
            return mkarr(cellsv) if len(a) and len(b) else np.empty((len(a), len(b)), dtype=object)
        if method in ("accumulate", "reduce") and len(arrs) == 1 and uf not in _UFUNC_CMP:
            a = arrs[0]
            if not len(a):
                return _NOPE
            acc, out = a[0], [a[0]]
            for x in a[1:]:
                acc = op(acc, x)
                out.append(acc)
            return mkarr(out) if method == "accumulate" else acc
        return _NOPE

    def np_take(self, a, idx, axis=None, **kw):
        a = self.np_asarray(a)
        if isinstance(idx, (SymIdx, SymArr)) or isinstance(a, (SymArr,)):
            raise Unsupported("take with a data-dependent index vector")
        scalar = not isinstance(idx, (np.ndarray, list, tuple))
        ii = np.asarray(idx, dtype=object)
        if not all(isinstance(i, (int, np.integer)) or (isinstance(i, E) and i.is_int()) for i in ii.flat):
            raise Unsupported("take with data-dependent indices")
        conc = np.empty(ii.shape, dtype=int)
        for k in np.ndindex(*ii.shape):
            conc[k] = int(ii[k]) if not isinstance(ii[k], E) else int(ii[k].cval())
        try:
            r = np.take(a, conc, axis=None if axis is None else int(axis))
        except IndexError as ex:
            raise _raise("IndexError", None, str(ex))
        return r[()] if scalar and r.ndim == 0 else r

    def _model_order(self, row):
        """stable ascending order of a row of symbolic cells at the model point; the order facts it rests on are logged as decisions"""
        vals = [self.I.model_val(c) for c in row]
        if any(v is None for v in vals):
            return None
        order = sorted(range(len(row)), key=lambda i: vals[i])
        for p_, q_ in zip(order, order[1:]):
            if lift(row[p_]) != lift(row[q_]):
                self.I.model_decisions.append(("LtE", lift(row[p_]), lift(row[q_]), True))
        return order

    def _model_argsort(self, a, kw, values=False):
        axis = kw.get("axis", -1)
        axis = int(cell(axis).cval()) if not isinstance(axis, int) else axis
        if a.ndim == 1:
            o = self._model_order(list(a))
            if o is None:
                return None
            return mkarr([a[i] for i in o]) if values else np.array(o, dtype=object)
        if a.ndim == 2 and axis in (-1, 1):
            rows = [self._model_order(list(r)) for r in a]
            if any(o is None for o in rows):
                return None
            if values:
                return mkarr([[r[i] for i in o] for r, o in zip(a, rows)])
            out = np.empty(a.shape, dtype=object)
            for i, o in enumerate(rows):
                for j, v in enumerate(o):
                    out[i, j] = v
            return out
        return None

    def np_sort(self, a, **kw):
        a = self.np_asarray(a)
        cs = cells(a)
        if a.ndim == 1 and all(c.is_const() for c in cs):
            return mkarr(sorted(cs, key=lambda c: c.cval()))
        if self.I.model is not None:
            r_ = self._model_argsort(a, kw, values=True)
            if r_ is not None:
                return r_
        return self.I.opaque("sort of symbolic data")

    def np_count_nonzero(self, a, axis=None, **kw):
        a = self.np_asarray(a)

        def nz(c):
            if isinstance(c, (bool, np.bool_)):
                return bool(c)
            r = self.I.compare1(_OPS["NotEq"], c, ZERO)
            if not isinstance(r, (bool, np.bool_)):
                raise Unsupported("count_nonzero of data not known to be zero or non-zero")
            return bool(r)
        if axis is None:
            return sum(1 for c in a.flat if nz(c))
        axis = int(cell(axis).cval()) if not isinstance(axis, int) else axis
        flags = np.empty(a.shape, dtype=int)
        for i in np.ndindex(*a.shape):
            flags[i] = 1 if nz(a[i]) else 0
        r = flags.sum(axis=axis)
        out = np.empty(r.shape, dtype=object)
        for i in np.ndindex(*r.shape):
            out[i] = int(r[i])
        return out

    def np_take_along_axis(self, a, idx, axis=None, **kw):
        a, idx = self.np_asarray(a), self.np_asarray(idx)
        if not all(isinstance(i, (int, np.integer)) or (isinstance(i, E) and i.is_int()) for i in idx.flat):
            raise Unsupported("take_along_axis with data-dependent indices")
        ii = np.empty(idx.shape, dtype=int)
        for k in np.ndindex(*idx.shape):
            ii[k] = int(idx[k]) if not isinstance(idx[k], E) else int(idx[k].cval())
        return np.take_along_axis(a, ii, axis=None if axis is None else int(axis))

    def np_norm(self, a, axis=None, **kw):
        a = self.np_asarray(a)
        if axis is None:
            return alg.Sqrt(self.np_sum(vec(lambda u: u * u, a)))
        sq = vec(lambda u: u * u, a)
        return vec(alg.Sqrt, np.add.reduce(sq, axis=int(axis)))

    def np_eigvalsh(self, m, **kw):
        m = self.np_asarray(m)
        n = m.shape[0]
        tri = tuple(m[i, j] for i in range(n) for j in range(i + 1))  # lower triangle (UPLO='L')
        return mkarr([alg.Fn("eigvalsh", tri, k) for k in range(n)])

    def np_eigh(self, m, **kw):
        m = self.np_asarray(m)
        n = m.shape[0]
        tri = tuple(m[i, j] for i in range(n) for j in range(i + 1))
        vals = mkarr([alg.Fn("eigvalsh", tri, k) for k in range(n)])
        vecs = mkarr([[alg.Fn("eigh.vec", tri, i, k) for k in range(n)] for i in range(n)])
        return (vals, vecs)

    def np_svdvals(self, m, **kw):
        """singular values in descending order: square roots of the eigenvalues of the smaller Gram matrix"""
        m = self.np_asarray(m)
        if m.ndim != 2:
            raise Unsupported("svdvals of a stack")
        n, k = m.shape
        Gm = (m @ m.T) if n <= k else (m.T @ m)
        q = Gm.shape[0]
        if q not in (1, 2, 3, 4, 6):
            raise Unsupported("svdvals of this size")
        tri = tuple(Gm[i, j] for i in range(q) for j in range(i + 1))
        return mkarr([alg.Sqrt(alg.Fn("eigvalsh", tri, q - 1 - i)) for i in range(q)])

    def np_resize(self, a, new_shape):
        a = self.np_asarray(a)
        shp = _shape(new_shape)
        flat = list(a.flat)
        total = int(np.prod(shp)) if shp else 1
        if not flat:
            return full(shp, 0)
        return mkarr([flat[i % len(flat)] for i in range(total)]).reshape(shp)      # numpy.resize repeats the data cyclically

    def np_svd(self, m, **kw):
        m = self.np_asarray(m)
        cs = cells(m)
        n = m.shape[0]
        U = mkarr([[alg.Fn("svd.U", cs, i, j) for j in range(n)] for i in range(n)])
        S = mkarr([alg.Fn("svd.S", cs, i) for i in range(n)])
        Vh = mkarr([[alg.Fn("svd.Vh", cs, i, j) for j in range(n)] for i in range(n)])
        return (U, S, Vh)

    def np_inv(self, m):
        m = self.np_asarray(m)
        cs = cells(m)
        n = m.shape[0]
        return mkarr([[alg.Fn("inv", cs, i, j) for j in range(n)] for i in range(n)])

    def np_det(self, m):
        return alg.Fn("det", cells(self.np_asarray(m)))

    def _tri_indices(self, n, k=0, m=None, upper=True):
        n = int(n)
        m = n if m is None else int(m)
        k = int(cell(k).cval()) if not isinstance(k, int) else k
        src = np.triu_indices(n, k, m) if upper else np.tril_indices(n, k, m)
        return tuple(mkarr([lift(int(v)) for v in part]) for part in src)

    def np_triu_indices(self, n, k=0, m=None):
        return self._tri_indices(n, k, m, True)

    def np_tril_indices(self, n, k=0, m=None):
        return self._tri_indices(n, k, m, False)

    def np_arange(self, *a, **kw):
        vals = []
        for x in a:
            x = cell(x) if not isinstance(x, (int, IntSym)) else x
            if isinstance(x, E) and x.is_int():
                x = int(x.cval())
            if not isinstance(x, (int, IntSym)):
                return self.I.opaque("arange with non-integer / symbolic bounds")
            vals.append(int(x))
        return mkarr([lift(v) for v in range(*vals)]) if vals else self.I.opaque("arange()")

    def np_linspace(self, a, b, num=50, **kw):
        return self.I.opaque("linspace")

    def np_histogram(self, *a, **k):
        return self.I.opaque("histogram")

    def np_searchsorted(self, arr, vals, *pos, **k):
        if pos:
            k = dict(k, side=pos[0])
        if self.I.model is not None and isinstance(arr, np.ndarray) and arr.ndim == 1 and not isinstance(vals, (SymArr, SymIdx)):
            r_ = self._model_searchsorted(arr, vals, k)
            if r_ is not None:
                return r_
        snap = SymArr(arr.op, arr.args) if isinstance(arr, SymArr) else arr
        if isinstance(arr, SymArr):
            snap.mods = list(arr.mods)
        return SymIdx("searchsorted", (snap, vals, tuple(sorted(k.items()))))

    def _model_searchsorted(self, arr, vals, k):
        side = k.get("side", "left")
        if k.get("sorter") is not None or side not in ("left", "right"):
            return None
        av = [self.I.model_val(c) for c in arr]
        if any(v is None for v in av):
            return None
        scalar = not isinstance(vals, np.ndarray)
        vs = [vals] if scalar else list(vals.flat)
        out = []
        import bisect
        for v in vs:
            x = self.I.model_val(v)
            if x is None:
                return None
            j = bisect.bisect_left(av, x) if side == "left" else bisect.bisect_right(av, x)
            # what the position says about the searched value: arr[j-1] < v <= arr[j] (side left)
            self.I.model_decisions.append(("searchsorted", lift(cell(v)), tuple(lift(c) for c in arr), j))
            # arr[j-1] < v <= arr[j]: bounds on the variate v is affine in
            if j > 0:
                self.I.variate_bound(lift(arr[j - 1]), lift(cell(v)), True)
            if j < len(av):
                self.I.variate_bound(lift(cell(v)), lift(arr[j]), True)
            out.append(j)
        if scalar:
            return out[0]
        r = np.empty(vals.shape, dtype=object)
        for i, j in zip(np.ndindex(*vals.shape), out):
            r[i] = j
        return r

    def np_comb(self, n, k, **kw):
        import math
        return math.comb(int(n), int(k))

    def np_masked_where(self, cond, a, **kw):
        a = self.np_asarray(a)
        conds = np.empty(a.shape, dtype=object)
        if isinstance(cond, Mask):
            for i, c in enumerate(cond.conds):
                conds[i] = c
        else:
            for i in np.ndindex(*a.shape):
                conds[i] = cond[i]
        return MaskedArray(a, conds)

    def np_default_rng(self, seed=None, **kw):
        seed = kw.get("seed", seed)
        self.I.emit("rng", ("default_rng", keyof(seed)))
        rng = Record(None, {"seed": seed, "calls": 0}, label="Generator")

        short_seed = repr(seed)[:24]

        def draw(name):
            def f(I_, *a, **k2):
                rng.attrs["calls"] += 1
                I_.emit("rng-draw", (name, keyof(seed), rng.attrs["calls"], keyof(a), tuple(sorted((k_, keyof(v_)) for k_, v_ in k2.items()))))
                if I_.model is not None and name == "random":
                    # model-point mode: the variates are symbols of their own, positive and below one, with numeric stand-ins by position
                    size = a[0] if a else k2.get("size")
                    buf = k2.get("out")
                    if buf is not None and isinstance(buf, np.ndarray) and size is None:
                        size = tuple(buf.shape)
                    shape = () if size is None else (tuple(int(cell(x).cval()) if not isinstance(x, int) else x for x in size) if isinstance(size, (tuple, list)) else (int(cell(size).cval()) if not isinstance(size, int) else size,))
                    call = rng.attrs["calls"]
                    out = np.empty(shape, dtype=object)
                    for flat, ix in enumerate(np.ndindex(*shape)):
                        ue = alg.psym(f"u<{short_seed}>{call}[{flat}]")
                        (at,) = alg.atoms_of(ue)
                        I_.model_uatoms[at] = (call, flat)
                        I_.model[at] = I_.model_u.get((call, flat), 0.4142)
                        out[ix] = ue
                    if buf is not None and isinstance(buf, np.ndarray):
                        buf[...] = out
                        return buf
                    return out if shape else out[()]
                return SymArr("rng." + name, (keyof(seed), rng.attrs["calls"], a, tuple(sorted((k_, keyof(v_)) for k_, v_ in k2.items()))))
            return Native("rng." + name, f)
        for nm in ("random", "integers", "uniform", "normal", "choice", "permutation", "shuffle"):
            rng.native_methods[nm] = draw(nm)
        return rng

    def np_isclose(self, a, b, rtol=1e-05, atol=1e-08, **kw):
        rt, at = cell(rtol), cell(atol)
        equal_nan = bool(kw.get("equal_nan", False))

        def one(x, y):
            if x == NAN or y == NAN:
                return equal_nan and x == NAN and y == NAN     # IEEE: NaN is close to nothing, unless equal_nan and both are NaN
            return self.I.compare1(_OPS["LtE"], alg.Abs(x - y), at + rt * alg.Abs(y))
        return vec2(one, a, b)

    def np_allclose(self, a, b, rtol=1e-05, atol=1e-08, **kw):
        r = self.np_isclose(a, b, rtol, atol)
        if isinstance(r, np.ndarray):
            ts = list(r.flat)
        else:
            ts = [r]
        if all(isinstance(t, (bool, np.bool_)) for t in ts):
            return all(bool(t) for t in ts)
        if any(t is False for t in ts):
            return False
        gs = [t for t in ts if isinstance(t, Guard)]
        return Guard("and", *gs) if len(gs) > 1 else gs[0]

    def np_array_equal(self, a, b, equal_nan=False):
        a_, b_ = (np.asarray(a, dtype=object) if not isinstance(a, np.ndarray) else a), (np.asarray(b, dtype=object) if not isinstance(b, np.ndarray) else b)
        if a_.shape != b_.shape:
            return False
        ts = [self.I.compare1(_OPS["Eq"], cell(x), cell(y)) for x, y in zip(a_.flat, b_.flat)]
        if all(isinstance(t, (bool, np.bool_)) for t in ts):
            return all(bool(t) for t in ts)
        if any(t is False for t in ts):
            return False
        gs = [t for t in ts if isinstance(t, Guard)]
        return Guard("and", *gs) if len(gs) > 1 else gs[0]

    def np_finfo(self, dtype=None):
        # float64 machine parameters as exact constants
        from fractions import Fraction as Fr
        return Record(None, {"eps": lift(Fr(1, 2 ** 52)), "tiny": lift(Fr(1, 2 ** 1022)), "max": INF, "resolution": lift(Fr(1, 10 ** 15)),
                             "smallest_normal": lift(Fr(1, 2 ** 1022))}, label="finfo")

    def np_delete(self, *a, **k):
        return self.I.opaque("np.delete")

    def np_insert(self, *a, **k):
        return self.I.opaque("np.insert")

    # --- masks
    def compare_arrays(self, name, a, b, node):
        if isinstance(a, np.ndarray) and a.dtype != object or isinstance(b, np.ndarray) and b.dtype != object:
            raise Unsupported("comparison of non-object arrays", node)
        arr, other, flipped = (a, b, False) if isinstance(a, np.ndarray) else (b, a, True)
        if flipped:
            name = {"Lt": "Gt", "Gt": "Lt", "LtE": "GtE", "GtE": "LtE"}.get(name, name)
        if isinstance(other, np.ndarray):
            if other.shape != arr.shape:
                raise Unsupported("array comparison with broadcasting", node)
            res = [self.I.compare1(_OPS[name], x, y, node) for x, y in zip(arr.flat, other.flat)]
        else:
            res = [self.I.compare1(_OPS[name], x, other, node) for x in arr.flat]
        if all(isinstance(r, (bool, np.bool_)) for r in res):
            return np.array([bool(r) for r in res], dtype=bool).reshape(arr.shape)
        conds = [r if isinstance(r, Guard) else Guard("const", bool(r)) for r in res]
        if arr.ndim == 1:
            return Mask(conds)
        out = np.empty(arr.shape, dtype=object)
        for i, c in zip(np.ndindex(*arr.shape), conds):
            out[i] = c
        return out

    def masked_store(self, base, idx, v, node):
        m = idx[0] if isinstance(idx, tuple) else idx
        rest = idx[1:] if isinstance(idx, tuple) else ()
        if any(not (isinstance(r, slice) and r == slice(None, None, None)) and r is not Ellipsis for r in rest):
            raise Unsupported("masked store with non-trivial trailing index", node)
        if len(m) != base.shape[0]:
            raise Unsupported("mask length mismatch", node)
        src_is_paired = isinstance(v, MaskLoad)
        for g, c in enumerate(m.conds):
            if src_is_paired:
                if v.mask is not m and keyof(v.mask) != keyof(m):
                    raise Unsupported("masked store from a load under a different mask", node)
                src = v.base[g]
            elif isinstance(v, np.ndarray):
                raise Unsupported("masked store of a dense array (order depends on data)", node)
            else:
                src = cell(v)
            if base.ndim == 1:
                base[g] = _select(c, src, base[g])
            else:
                for i in np.ndindex(*base.shape[1:]):
                    s = src[i] if isinstance(src, np.ndarray) else src
                    base[(g,) + i] = _select(c, s, base[(g,) + i])

    def masked_load(self, base, idx, node):
        m = idx[0] if isinstance(idx, tuple) else idx
        if len(m) != base.shape[0]:
            raise Unsupported("mask length mismatch", node)
        if all(isinstance(c, (bool, np.bool_)) for c in m.conds):
            sel = base[np.array([bool(c) for c in m.conds], dtype=bool)]
            rest = idx[1:] if isinstance(idx, tuple) else ()
            return sel[(slice(None),) + tuple(rest)] if rest else sel
        return MaskLoad(base, m)

    def masked_binop(self, name, a, b, node):
        ma = a if isinstance(a, MaskedArray) else None
        mb = b if isinstance(b, MaskedArray) else None
        da = ma.data if ma else a
        db = mb.data if mb else b
        conds = (ma or mb).conds
        if ma and mb:
            conds = np.empty(ma.conds.shape, dtype=object)
            for i in np.ndindex(*conds.shape):
                conds[i] = _gor(ma.conds[i], mb.conds[i])
        # masked cells never contribute: replace them by a harmless 1 before the operation
        def safe(d, mk):
            if mk is None or not isinstance(d, np.ndarray):
                return d
            return d
        op = {"Add": _ADD, "Sub": _SUB, "Mult": _MUL, "Div": _DIV, "Pow": _POW}[name]
        if name == "Pow":
            r = self.I.power(da, cell(db) if not isinstance(db, np.ndarray) else db, node)
        else:
            # division by a masked denominator is never evaluated by numpy.ma -> do it cellwise
            da_ = da if isinstance(da, np.ndarray) else full(conds.shape, da)
            db_ = db if isinstance(db, np.ndarray) else full(conds.shape, db)
            r = np.empty(conds.shape, dtype=object)
            for i in np.ndindex(*conds.shape):
                try:
                    r[i] = self.I.binop(op, da_[i], db_[i], None)
                except Exception:
                    r[i] = NAN
        return MaskedArray(r, conds, (ma or mb).fill_value)

    # --- specific externals
    def x_numpy_random_default_rng(self, node, seed=None, **kw):
        return self.np_default_rng(seed, **kw)

    def x_scipy_spatial_transform_Rotation_random(self, node, *a, **kw):
        self.I.emit("rng", ("Rotation.random", keyof(a), tuple(sorted((k, keyof(v)) for k, v in kw.items()))), node)
        return Opaque("Rotation")


_NOPE = object()
# pure NumPy functions that may be folded on constant arguments when no model exists
import re as _re_mod
_re_ufunc = _re_mod.compile(r"^numpy\.(less|less_equal|greater|greater_equal|equal|not_equal|add|subtract|multiply|maximum|minimum)\.(outer|accumulate|reduce)$")
_UFUNC_CMP = {"less": "Lt", "less_equal": "LtE", "greater": "Gt", "greater_equal": "GtE", "equal": "Eq", "not_equal": "NotEq"}
_MATH_AS_NUMPY = {"cos": "cos", "sin": "sin", "tan": "tan", "acos": "arccos", "asin": "arcsin", "atan2": "arctan2", "cosh": "cosh", "sinh": "sinh",
                  "tanh": "tanh", "sqrt": "sqrt", "exp": "exp", "expm1": "expm1", "log": "log", "fabs": "abs", "floor": "floor", "ceil": "ceil",
                  "isnan": "isnan", "hypot": "hypot", "pow": "power", "isclose": "isclose", "isfinite": "isfinite", "isinf": "isinf",
                  "degrees": "rad2deg", "radians": "deg2rad", "trunc": "trunc", "atan": "arctan", "log10": "log10", "copysign": "copysign"}
_PURE_NUMPY = {"flatnonzero", "nonzero", "fromiter", "cumsum", "cumprod", "diff", "unique", "bincount", "count_nonzero", "argwhere", "roll", "flip", "tile",
               "repeat", "searchsorted", "digitize", "logical_xor", "mod", "remainder", "floor_divide", "isin", "in1d", "setdiff1d", "union1d", "intersect1d",
               "argmax", "argmin", "argsort", "sort", "indices", "take", "delete", "insert", "array_split", "split", "ediff1d", "triu", "tril", "identity",
               "linspace", "prod", "any", "all", "amax", "amin", "ptp", "where", "ravel_multi_index", "unravel_index", "ix_", "meshgrid", "atleast_1d", "atleast_2d"}


_BUILTIN_NAMES = {
    "range", "len", "enumerate", "zip", "map", "filter", "sorted", "reversed", "list", "tuple", "dict", "set",
    "str", "repr", "int", "float", "bool", "abs", "round", "sum", "min", "max", "isinstance", "callable",
    "hasattr", "getattr", "type", "hash", "print", "any", "all", "open", "divmod", "pow", "complex", "input",
    "object", "super", "id", "iter", "next", "frozenset", "bytes", "format", "vars", "setattr",
}


def alg_exc_names():
    from .interp import BUILTIN_EXC_BASES
    return BUILTIN_EXC_BASES


import ast as _ast

_ADD, _SUB, _MUL, _DIV, _POW = _ast.Add(), _ast.Sub(), _ast.Mult(), _ast.Div(), _ast.Pow()
_OPS = {"Eq": _ast.Eq(), "NotEq": _ast.NotEq(), "Lt": _ast.Lt(), "LtE": _ast.LtE(), "Gt": _ast.Gt(), "GtE": _ast.GtE()}


def _abs1(x):
    if isinstance(x, Opaque):
        return x
    return alg.Abs(x)


def _raise(name, node, *args):
    from .interp import RaiseSig
    return RaiseSig(ExcVal(name, args=tuple(args), node=node))


def _eq(a, b):
    from .interp import _pyeq
    return _pyeq(a, b) is True


def _h(v):
    from .interp import _hashable
    return _hashable(v)


class _LazyKey:
    """Sort key evaluated only when the comparison actually reaches this tuple position."""

    __slots__ = ("v",)

    def __init__(self, v):
        self.v = v

    def __eq__(self, o):
        try:
            return _sortkey(self.v) == _sortkey(o.v)
        except TypeError:
            return self.v is o.v

    def __lt__(self, o):
        return _sortkey(self.v) < _sortkey(o.v)


def _sortkey(v):
    if isinstance(v, EnumMember):
        return v.value
    if isinstance(v, E):
        if v.is_const():
            return v.cval()
        raise TypeError("symbolic sort key")
    if isinstance(v, IntSym):
        return v.value
    if isinstance(v, tuple):
        return tuple(_LazyKey(x) for x in v)
    if isinstance(v, (np.ndarray, Opaque)):
        raise TypeError("unsortable")
    return v


def _select(c, a, b):
    if isinstance(c, Guard) and c.kind == "const":
        c = c.args[0]
    if isinstance(c, (bool, np.bool_)):
        return a if c else b
    a, b = cell(a), cell(b)
    if isinstance(a, E) and isinstance(b, E):
        if a == b:
            return a
        return alg.Fn("select", c.astuple(), a, b)
    from .values import inf_select
    r = inf_select(c, a, b)
    if r is not None:
        return r
    return Opaque("select of non-E")


def _gand(p, q):
    if isinstance(p, (bool, np.bool_)) and isinstance(q, (bool, np.bool_)):
        return bool(p) and bool(q)
    if p is False or q is False:
        return False
    if p is True:
        return q
    if q is True:
        return p
    return Guard("and", p, q)


def _gor(p, q):
    if isinstance(p, (bool, np.bool_)) and isinstance(q, (bool, np.bool_)):
        return bool(p) or bool(q)
    if p is True or q is True:
        return True
    if p is False:
        return q
    if q is False:
        return p
    return Guard("or", p, q)
