"""Which properties are claimed, at what level, with which technique (source of MANIFEST.json)."""

CLAIMS = {
    "C11": {
        "level": "proof",
        "text": "Every clause claimed is a polynomial identity over generic symbols, extracted from the source of pydrex.tensors by "
                "abstract interpretation and discharged by exact normalisation: all 81+36 index tuples, symmetries, contractions, "
                "inverse pairs, isometry, the tensor transformation law, projector algebra, I2 and the polar-factor formulas. "
                "An identity over generic symbols holds for every numeric input at once, which no finite test sample gives.",
        "note": "Trusted: Python/NumPy reference semantics for the interpreted subset (numba compiles the same semantics; rounding and "
                "fastmath are out of scope), the reference formulas in pdxsa/checks/c11.py, library facts about svd/inv/det. Group-action "
                "and norm-preservation of rotate follow from the verified transformation law for orthogonal R (theorem, not re-checked).",
        "technique": "algebraic abstract interpretation of the AST + normal-form identity checking",
    },
}

NOT_APPLICABLE = {}
