"""Which properties are claimed, at what level, with which technique (source of MANIFEST.json)."""

CLAIMS = {
    "C02": {
        "level": "proof",
        "text": "Whole-function abstract interpretation of pydrex.core.derivatives (through its resolved callees) for all six fabrics, both "
                "dislocation-type regimes and every slip-activity ordering yields exact rational-function normal forms of (dA, df) over "
                "generic symbols; each is shown identical to an independently written reference of the published D-Rex equations by "
                "normalisation (let-DAG unfolding, denominator clearing). Identities over generic symbols cover every orientation, velocity "
                "gradient, volume vector and parameter value at once; the CRSS table and slip-system order are checked as tables. "
                "Floating-point accuracy and JIT-vs-interpreted agreement are NOT decided (compiler/rounding).",
        "note": "Trusted: the reference transcription in pdxsa/checks/drex.py (provenance: Kaminski & Ribe 2001, Kaminski et al. 2004, Fraters & "
                "Billen 2021; cross-read against tools/drex_forward_simpleshear.f90), NumPy/Numba reference semantics over the reals, "
                "uniformity of vectorised primitives in the grain count (N=2 quick, N=1..3 thorough). Exact ties in slip activity are excluded "
                "as in the property.",
        "technique": "algebraic abstract interpretation of the AST + normal-form identity against an independent reference model",
    },
    "C03": {
        "level": "other",
        "text": "On the same extraction as C02: skew spin (one S per grain, S+S^T=0), zero net volume change under sum f = 1, dead grains, "
                "degree-one homogeneity in M* and phi with no other occurrence, mean-field factorisation (growth sign), and a division-guard "
                "rule over every division site on the interpreted path (constant / positive parameter / dominated by a zero-excluding guard; "
                "ordering-selected denominators need the all-keys-zero state excluded). All are decided as identities or structural facts for "
                "every fabric x regime x ordering. Overflow for extreme parameters and 1e5-grain resource limits are NOT decided.",
        "note": "Trusted: NumPy/Numba semantics over the reals; Numba's python error model for scalar division; parameter ranges n>0. The "
                "olivine_C division by zero found by this rule was repaired (fix: commit e51a375).",
        "technique": "algebraic abstract interpretation + form analysis of normal forms; path-fact (guard) analysis of division sites",
    },
    "C04": {
        "level": "proof",
        "text": "Invariance under ALL proper rotations is reduced to three Lie-derivative identities per output (generators of so(3), chain "
                "rule through the let-DAG of the extracted rates): D_k(df)=0, D_k(dA)=dA·J_k^T, discharged exactly after a numeric "
                "forward-mode screen; lattice two-folds by re-extraction with sign-flipped rows for grain subsets. Every fabric, both "
                "dislocation regimes, every ordering. Integrated textures 'within solver tolerance' are NOT decided.",
        "note": "Trusted: chain rules of the symbolic differentiator, connectedness of SO(3) and analyticity away from guard sets, NumPy/Numba "
                "semantics over the reals. The frame-invariance of the driver's non-dimensionalisation is checked with the driver properties.",
        "technique": "algebraic abstract interpretation + symbolic Lie derivative / substitution identities on normal forms",
    },
    "C01": {
        "level": "other",
        "text": "Structural necessary conditions decided from one abstract interpretation of Mineral.update_orientations with a havoc-ing "
                "solver stub (stands for any number of solver steps): one append per history list after the last may-raise step, by the "
                "method itself; no mutation on failing runs; no in-place write reaches a stored snapshot (NumPy aliasing is reproduced by "
                "the abstract arrays); stored orientations are clip(.,-1,1) cells, stored fractions clip(.,0,.)/sum with sum == 1 identically; "
                "shapes and state-vector layout agree across y_start / RHS / write-back / extract_vars; seeded, uniform default snapshot; a "
                "package-wide who-may-write table for Mineral history. Finiteness and orthonormality drift within ODE tolerance are NOT decided.",
        "note": "Trusted: the LSODA stub (constructor args recorded, step() calls fun then replaces y, status protocol), NumPy view/copy "
                "semantics, uniformity in the grain count (N=2,3 quick; 1..4 thorough).",
        "technique": "abstract interpretation with stub models + effect-trace analysis + who-may-write AST rule + CFG dominance",
    },
    "C05": {
        "level": "other",
        "text": "Homogeneity (dimension) analysis of the extracted right-hand side: all derivatives arguments have degree 0 in the velocity "
                "gradient, all three rate blocks degree exactly 1, first_step scales with the time span, rtol constant, atol free of time/rate. "
                "This is the structural reason the texture depends on the strain path only; the numerical agreement itself is NOT decided.",
        "note": "Trusted: homogeneity facts of eigvalsh/max/abs/SVD factors, LSODA stub. Only dislocation-type regimes (the property's quantifier).",
        "technique": "abstract interpretation + homogeneity-degree analysis of normal forms",
    },
    "C06": {
        "level": "other",
        "text": "The F block of the ODE right-hand side is shown identical to L(t,x(t))·F(y) (operand order, same t, row-major, unscaled) and "
                "the returned value identical to the solver's final y[:9]; start/end times and y_start[:9] are the caller's; deep dependence "
                "sets exclude texture, parameters and mineral fields; update_all feeds a common F and returns the last result. The quantitative "
                "ODE error bound and its consequences are NOT decided.",
        "note": "Trusted: LSODA stub, symbolic callables for L(t,x) and x(t).",
        "technique": "abstract interpretation with stub models + normal-form identity + dependence sets",
    },
    "C07": {
        "level": "other",
        "text": "Exhaustive dispatch classification of all eight regimes plus out-of-range ordinals by interpreting each arm (null arms must be "
                "identically zero), full (phase, fabric) validation table of get_crss, M*=0 => df==0 on the extracted form, raising updates "
                "leave history untouched (three unsupported regimes, solver failure at each step, regime callback), and every division in "
                "eval_rhs has a guarded denominator. That the ODE solution is constant under zero rates is NOT decided (solver).",
        "note": "Trusted: interpreted NumPy/Numba semantics, LSODA stub. Two defects found by these rules were repaired (cfab219, 29bc5b5).",
        "technique": "abstract interpretation per enum member (exhaustiveness table) + effect trace + division-guard path facts",
    },
    "C08": {
        "level": "other",
        "text": "For all four assemblage orders and both phases the volume factor wired into the rate kernel is the mineral's own phase "
                "fraction and no foreign fraction reaches any argument; argument tuples are invariant under simultaneous permutation; every "
                "function executed on the update path is scanned for writes to module/class state, and no RNG/clock source is reached. "
                "Bit-identity of repeated runs (LSODA/Numba determinism) is NOT decided.",
        "note": "Trusted: LSODA stub; the effect scan covers the functions executed by the abstract runs listed in the evidence.",
        "technique": "abstract interpretation with stub models + dependence sets + AST effect scan of executed functions",
    },
    "C09": {
        "level": "other",
        "text": "apply_gbs is shown identical to the reference select-form (strict threshold, same threshold for mask and floor, frozen grains "
                "take the reference orientation, renormalisation) for symbolic chi and n; perform_step's call-site wiring (clipped/normalised "
                "state, params threshold, snapshot at update start, grain count) and the write-back/read-back layout are decided from the driver "
                "interpretation. The lower bound chi/(n(1+chi)) over arbitrary histories is NOT decided.",
        "note": "Trusted: cellwise model of boolean-mask load/store, LSODA stub.",
        "technique": "algebraic abstract interpretation with mask/select join + stub-driver wiring analysis",
    },
    "C10": {
        "level": "other",
        "text": "voigt_averages is interpreted on abstract minerals with symbolic stiffnesses for all four assemblage orders; all 36 cells per "
                "snapshot are shown identical to the independently written volume-weighted sum of rotated single-crystal tensors; symmetry, "
                "order-independence (mineral list; simultaneous permutation of assemblage and fractions), the aligned-grain case and rejection "
                "of inconsistent inputs are decided the same way. Texture-independent moduli and co-rotation follow from the tensor law (C11).",
        "note": "Trusted: reference tensor law/Voigt map in the checker, NumPy semantics, uniformity in grain count (N=1 per mineral, two snapshots). "
                "The wrong-phase stiffness lookup found by this check was repaired (fix: commit in /repo).",
        "technique": "algebraic abstract interpretation with abstract records + normal-form identity against a reference",
    },
    "C11": {
        "level": "proof",
        "text": "Every clause claimed is a polynomial identity over generic symbols, extracted from the source of pydrex.tensors by "
                "abstract interpretation and discharged by exact normalisation: all 81+36 index tuples, symmetries, contractions, "
                "inverse pairs, isometry, the tensor transformation law, projector algebra, I2 and the polar-factor formulas. "
                "An identity over generic symbols holds for every numeric input at once, which no finite test sample gives.",
        "note": "Trusted: Python/NumPy reference semantics for the interpreted subset (numba compiles the same semantics; rounding and "
                "fastmath are out of scope), the reference formulas in pdxsa/checks/c11.py, library facts about svd/inv/det. Group-action "
                "and norm-preservation of rotate follow from the verified transformation law for orthogonal R (theorem, not re-checked).",
        "technique": "algebraic abstract interpretation of the AST + normal-form identity checking",
    },
    "C12": {
        "level": "other",
        "text": "elasticity_components interpreted on a generic symmetric matrix with the data-dependent eigenvector pairing havoc'ed into an "
                "arbitrary frame: K and G as linear forms, isotropic vector fixed by all projectors, percent anisotropy formula, and — for every "
                "frame — the nested selection over the three cyclic column permutations (rotation by the transposed candidate, telescoping class "
                "vectors of the rotated vector, strictly-decreasing-distance selection, axis = last column of the selected frame). "
                "Frame-independence of the percentages and co-rotation of the axis depend on eigenvector pairing numerics and are NOT decided.",
        "note": "Trusted: C11 for the reused components (rotate, Voigt maps, projectors); havoc of the SCCS block is a sound over-approximation.",
        "technique": "algebraic abstract interpretation with havoc of data-dependent numerics + select-join normal forms",
    },
    "C13": {
        "level": "other",
        "text": "Identities with the eigen-solver as an uninterpreted atom whose argument is the triangle it reads: the solver is applied to "
                "sum_g a a^T of the row matching the axis letter (a,b,c -> 0,1,2 in both functions, others raise); the scatter matrix is even, "
                "permutation-symmetric and covariant S(A Q^T) = Q S Q^T for a generic Q; P,G,R formulas and P+G+R == 1 in the ascending "
                "eigenvalue atoms; Bingham mean = normalised top eigenvector column; coaxial index formula; finite strain from F F^T. The [0,1] "
                "ranges and eigenvector co-rotation up to sign are NOT decided (PSD/eigen-solver numerics).",
        "note": "Trusted: eigh/eigvalsh ascending order and lower-triangle default; NumPy semantics of the interpreted subset.",
        "technique": "algebraic abstract interpretation with library atoms + normal-form identities",
    },
    "C14": {
        "level": "other",
        "text": "Hamilton product identity (4 bilinear forms), Grimmer tables and exhaustive dispatch over the six lattice systems, uniform "
                "group action rule (all operators are rotation quaternions applied through quat_product), the index formula on adjacent bin "
                "edges with histogram range (0, theta_max)/density, exact interval coverage of the theoretical density's branches per lattice "
                "system by constant folding, and order preservation of the batched variant. Numeric range, the ~0/~1 limits, quadrature error "
                "and group closure are NOT decided.",
        "note": "Trusted: Grimmer (1979) Table 1 as transcribed; pool.imap order preservation. Nine known findings (quat_product cross term, "
                "4x4 reflection operators, rhombohedral/tetragonal/hexagonal interval tables) are pinned by the repository's own M-index tests "
                "and therefore recorded in known_findings.json rather than repaired.",
        "technique": "algebraic identity + enum exhaustiveness tables + AST who-applies rule + constant-folded interval coverage + order-preservation rule",
    },
    "C15": {
        "level": "other",
        "text": "resample_orientations is interpreted region by region of the volume simplex (all strict orders, exact zeros in every position, "
                "equal volumes, a dominant grain; 1-4 grains, 1-3 snapshots): volumes and uniform variates stay symbolic, numeric stand-ins "
                "for the region only decide the data-dependent sorts, searches and comparisons, and each decision on a variate is logged as "
                "a bound. Per output slot: the stored (orientation, volume) is one input pair of the same snapshot on every variate interval; "
                "the intervals tile [0, 1) and the total length selecting grain g equals its volume as a polynomial identity on the simplex "
                "(so zero-volume grains are drawn on a null set only) - independent of how the function sorts or searches. One generator "
                "seeded from the seed argument, one default-option variate per slot; shapes and the n_samples default; nine malformed shape "
                "combinations raise ValueError before the generator exists. NOT decided: generator quality, rounding of cumulative sums, "
                "regions other than the listed order types.",
        "note": "Trusted: NumPy sort/searchsorted/fancy-indexing/Generator.random contracts. The chained-comparison shape test "
                "that accepted (N,M,1,1)/(N,M,1,3) stacks was repaired (fix: commit in /repo).",
        "technique": "abstract interpretation in model-point mode (symbolic values, region stand-ins decide data-dependent control; decisions logged "
                     "as interval bounds) + polynomial identity of selection measure on the simplex + effect trace",
    },
    "C16": {
        "level": "other",
        "text": "CFG-dominance, handler and table rules over pydrex.io: schema validation dominates every header write and every parse; the "
                "column-length check dominates opening the file; ValueError from cell parsing / strict zip is converted to the SCSV error and "
                "the partial file removed; writer and reader share one cell parser, keys, defaults, type table and frame markers; the missing "
                "marker is substituted only under equality with the typed fill; schema values reach the YAML header only validated or quoted. "
                "Value-level losslessness of repr/csv/YAML typing (library semantics) and 1e4-row scale are NOT decided.",
        "note": "Trusted: CFG construction incl. exception edges; yaml.safe_dump quoting. The unquoted/hand-quoted emission sites found by the "
                "taint rule were repaired (fix: commit in /repo).",
        "technique": "CFG dominance + exception-handler/raiser agreement + writer/reader table agreement + taint rule for YAML emission",
    },
    "C17": {
        "level": "other",
        "text": "save/load/from_file interpreted over a perfect key-value store model of the NPZ archive: keys written == keys read (incl. "
                "postfix templates, several postfixes in one archive, reverse load order), meta order, cell-for-cell return of every snapshot, "
                "n_grains recovery, load/from_file agreement, append mode and one member per key, uint8 range of all ordinals, no lossy "
                "conversion on the path, ValueError before any I/O for corrupt state and non-NPZ names. Bit-exactness of np.save/np.load is NOT decided.",
        "note": "Trusted: perfect-store model of numpy.savez/zipfile/numpy.load; NumPy stack/list semantics.",
        "technique": "abstract interpretation with a store stub (writer/reader key agreement) + effect trace + AST conversion scan",
    },
    "C18": {
        "level": "other",
        "text": "Static necessary conditions, decided on every run from the source: for all three flow factories and all six ordered axis "
                "pairs the gradient callable equals the exact symbolic Jacobian of the paired velocity callable (162 cells) and is trace-free; "
                "the axis-letter table is exhaustive and rejects repeats; strain_increment equals |dt|·max|eig(sym L)|; get_pathline wires "
                "start point/time, direction, RHS vs Jacobian, inside-gating, terminal event and returned timestamps correctly; the event "
                "function must be pure. The behaviour along integrated pathlines (accuracy, staying in the box, strain slack) is NOT decided.",
        "note": "Trusted: NumPy semantics of the interpreted subset, chain rules of the symbolic differentiator, solve_ivp's callback contract. "
                "Known findings (simple_shear gradient = 2×Jacobian, cell_2d row exchange, stateful event) are listed in known_findings.json.",
        "technique": "abstract interpretation + exact symbolic differentiation of extracted normal forms; stubbed-solver wiring analysis; AST effect scan",
    },
    "C19": {
        "level": "other",
        "text": "DefaultParams is a frozen dataclass with hashable, correctly typed defaults whose as_dict (interpreted on a fully overridden "
                "record) agrees with attribute access and round-trips; every subclass re-binds base fields only as typed dataclass fields in a "
                "frozen dataclass (otherwise the override is dead). parse_config is interpreted with the file layer stubbed over every subset of "
                "the optional keys of [output], [input] and [parameters] in all three input modes (each parses, omitted keys take the documented "
                "defaults, phases/fabric are enumeration members) and over a table of single-fault configurations (each raises ConfigError); "
                "_parse_phase is interpreted per kind of TOML value. AST rules: operations accept the kind of the default they may hold, handlers "
                "catch what the guarded conversions raise, no builtin is used as data, defaults are applied on every path. What the CLI does with "
                "the configuration is NOT decided.",
        "note": "Trusted: the API raiser table in pdxsa/checks/c19.py; dataclass semantics; the documented defaults transcribed from the "
                "configuration reference. Six defects found by these rules were repaired (fix: commits 4ef0bda, 1653a54, bef1ec9, 47cf3aa, b5cd9cd). "
                "The earlier CFG key-definedness and post-condition rules were removed after they raised false alarms on behaviour-preserving "
                "refactors; the interpreted configuration table decides the same clauses exactly.",
        "technique": "dataclass/enum table checks + abstract interpretation of parse_config over the finite table of optional-key subsets and "
                     "single-fault configurations + kind analysis + handler/raiser agreement + scope resolution",
    },
    "C20": {
        "level": "other",
        "text": "Identities on generic symbols for to_cartesian/to_spherical (incl. the exact round trip), poles for all six reference-axes "
                "strings, and the Lambert law X^2+Y^2 = 1-|z| with preserved azimuth and masked centre; CFG-dominance/table rules for the "
                "point_density pipeline (validation before lookup, kernel signatures, axial abs, normalise-before-clip, counter provenance). "
                "Numerical ranges of density estimates and kernel mathematics are NOT decided.",
        "note": "Trusted: NumPy/numpy.ma semantics as modelled, trigonometric rewrite rules of the algebra. The to_spherical defect was repaired "
                "(fix: commit in /repo, recorded as fixed in known_findings.json).",
        "technique": "algebraic abstract interpretation + normal-form identities; CFG dominance and table agreement for the density pipeline",
    },
}

NOT_APPLICABLE = {}


# Rules added after the fourth round of independently seeded changes (DESIGN.md section 9.2).
_ADDENDA = {
    "C01": " Also: on every exit of the ODE right-hand side the orientation block is c*(kernel rate) + A*S with S skew (first-order orthonormality).",
    "C04": " Also: the driver's strain-rate scale is a rotation invariant, and every data-dependent branch condition evaluated inside the ODE "
           "right-hand side compares rotation invariants (frame-invariant boundaries between the pieces of a piecewise right-hand side).",
    "C10": " Also: call-history independence (same stiffness record with new contents, new record, same minerals with new snapshots); several "
           "aligned grains with general volumes; every early-exit path of the average and its helpers is held to the reference on its region.",
    "C11": " Also: every data-dependent early-exit path of each function is followed once and held to the generic result on its region "
           "(rotation: the four diagonal sign matrices); a second call with exchanged values returns the exchanged result (no stale memo).",
    "C13": " P, G, R also for one and two grains. No function on the path writes into the default value of one of its parameters (mutable "
           "defaults are shared objects). The Bingham mean axis and the finite-strain long axis are decided as eigen-equations (S v = lambda_max v, |v| = 1; library "
           "eigen/singular decompositions evaluated exactly at witness points, identity accepted by counted randomised testing), so any way of "
           "computing them and either sign is accepted. Also: early-exit paths of the eigenvalue computation are followed (a closed-form solver is compared with the eigenvalues of the "
           "scatter matrix at witness points); call-history independence.",
    "C15": " Also: two calls with the same seed and inputs in one process select with the same draws; with volumes summing to just under one "
           "(a rounded cumulative sum) and a variate above that sum every slot still holds an input pair.",
    "C08": " Also: a parameter record declared with the phases in either order pairs each phase with the fraction it was declared with; a listed "
           "phase with volume fraction exactly 0 still reaches the rate kernel.",
    "C01": " Also: a mineral whose phase is not in the assemblage of the call is refused with nothing stored or updated like any other (never a "
           "normal return that stores no snapshot); function-form memory-order flattening.",
    "C06": " Also: the dF/dt block equals L.F on every data-dependent early return of the right-hand side.",
    "C07": " Also: minerals holding invalid phase or fabric ordinals raise in update_orientations and store nothing.",
    "C11": " Also: the rotation law on the proper signed permutation matrices (rotations with exact zeros); no result buffer takes its element "
           "type from an argument.",
    "C17": " Also: a later snapshot of another size is rejected before any I/O event.",
    "C14": " Also: a caller-supplied pool is still running after the batched call and serves a second stack (pool typestate).",
    "C16": " Also: cells that differ from the missing marker by letter case, a prefix/suffix or doubling are data for the cell parser.",
    "C18": " Also: the terminal event keeps no running values in state that outlives the call (globals, attributes of module-level objects).",
    "C19": " Also: a record holds exactly the values it was declared with (enumeration members in non-declaration order included); lone "
           "phase / fraction lists are configuration errors; no function on the parsing path writes into the default value of a parameter.",
    "C02": " Also: cells that may be infinite (a masked store of inf) are followed as selections, so a CRSS table shared between grains and "
           "modified per grain is compared with the reference on the boundary worlds of its guards.",
    "C03": " Also: skew / conserve / dead are re-decided on the path through every data-dependent early exit of the rate computation (forced for "
           "the first grain only and for every grain).",
    "C20": " Also: no counting kernel applies exp/cosh/sinh to an argument that can exceed the float64 overflow threshold on the domain; "
           "early-exit paths and call-history independence of the conversion functions.",
}
for _k, _v in _ADDENDA.items():
    CLAIMS[_k]["text"] += _v
_TECH = {
    "C11": "; forced early-exit path interpretation; second-call (history) comparison",
    "C13": "; forced early-exit path interpretation; second-call (history) comparison",
    "C20": "; sign analysis of exponential arguments; forced early-exit path interpretation",
    "C04": "; Lie derivative of branch conditions",
    "C03": "; forced early-exit path interpretation",
    "C10": "; forced early-exit path interpretation; second-call (history) comparison",
}
for _k, _v in _TECH.items():
    CLAIMS[_k]["technique"] += _v
