"""Which properties are claimed, at what level, with which technique (source of MANIFEST.json)."""

CLAIMS = {
    "C11": {
        "level": "proof",
        "text": "Every clause claimed is a polynomial identity over generic symbols, extracted from the source of pydrex.tensors by "
                "abstract interpretation and discharged by exact normalisation: all 81+36 index tuples, symmetries, contractions, "
                "inverse pairs, isometry, the tensor transformation law, projector algebra, I2 and the polar-factor formulas. "
                "An identity over generic symbols holds for every numeric input at once, which no finite test sample gives.",
        "note": "Trusted: Python/NumPy reference semantics for the interpreted subset (numba compiles the same semantics; rounding and "
                "fastmath are out of scope), the reference formulas in pdxsa/checks/c11.py, library facts about svd/inv/det. Group-action "
                "and norm-preservation of rotate follow from the verified transformation law for orthogonal R (theorem, not re-checked).",
        "technique": "algebraic abstract interpretation of the AST + normal-form identity checking",
    },
    "C18": {
        "level": "other",
        "text": "Static necessary conditions, decided on every run from the source: for all three flow factories and all six ordered axis "
                "pairs the gradient callable equals the exact symbolic Jacobian of the paired velocity callable (162 cells) and is trace-free; "
                "the axis-letter table is exhaustive and rejects repeats; strain_increment equals |dt|·max|eig(sym L)|; get_pathline wires "
                "start point/time, direction, RHS vs Jacobian, inside-gating, terminal event and returned timestamps correctly; the event "
                "function must be pure. The behaviour along integrated pathlines (accuracy, staying in the box, strain slack) is NOT decided.",
        "note": "Trusted: NumPy semantics of the interpreted subset, chain rules of the symbolic differentiator, solve_ivp's callback contract. "
                "Known findings (simple_shear gradient = 2×Jacobian, cell_2d row exchange, stateful event) are listed in known_findings.json.",
        "technique": "abstract interpretation + exact symbolic differentiation of extracted normal forms; stubbed-solver wiring analysis; AST effect scan",
    },
    "C20": {
        "level": "other",
        "text": "Identities on generic symbols for to_cartesian/to_spherical (incl. the exact round trip), poles for all six reference-axes "
                "strings, and the Lambert law X^2+Y^2 = 1-|z| with preserved azimuth and masked centre; CFG-dominance/table rules for the "
                "point_density pipeline (validation before lookup, kernel signatures, axial abs, normalise-before-clip, counter provenance). "
                "Numerical ranges of density estimates and kernel mathematics are NOT decided.",
        "note": "Trusted: NumPy/numpy.ma semantics as modelled, trigonometric rewrite rules of the algebra. The to_spherical defect was repaired "
                "(fix: commit in /repo, recorded as fixed in known_findings.json).",
        "technique": "algebraic abstract interpretation + normal-form identities; CFG dominance and table agreement for the density pipeline",
    },
}

NOT_APPLICABLE = {}
