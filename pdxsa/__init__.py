"""pdxsa — static analysis of PyDRex (seismic-anisotropy/PyDRex) for properties C01..C20.

Everything here works on the *source text* of /repo (parsed with ``ast``); the
package never imports ``pydrex`` and never runs any of its functions.
"""

__all__ = ["alg", "interp", "resolver", "flow", "report"]
