"""Abstract values of the interpreter other than scalars (E) and numpy object arrays."""

from __future__ import annotations

import numpy as np

from .alg import E, INF, Inf, lift, AlgError, Atom, ZERO


class Unsupported(Exception):
    """A construct outside the supported subset was met on an evaluated path."""

    def __init__(self, msg, node=None):
        super().__init__(msg)
        self.node = node


class Opaque:
    """Result of something the interpreter does not model.  Propagates; fatal only if an
    obligation depends on it."""

    __slots__ = ("reason", "src")

    def __init__(self, reason, src=None):
        self.reason = reason
        self.src = src        # the symbolic value an opaque integer was converted from (int() of a data-dependent value)

    def __repr__(self):
        return f"Opaque({self.reason})"

    # an unmodelled value absorbs arithmetic (cell by cell inside arrays): the result is just as unknown
    def _absorb(self, *a):
        return self
    __add__ = __radd__ = __sub__ = __rsub__ = __mul__ = __rmul__ = __truediv__ = __rtruediv__ = __pow__ = __rpow__ = _absorb
    __neg__ = __pos__ = __abs__ = _absorb

    def key(self):
        return ("opaque", self.reason)


class Uninit:
    """Poison for np.empty cells."""

    _inst = None

    def __new__(cls):
        if cls._inst is None:
            cls._inst = object.__new__(cls)
        return cls._inst

    def __repr__(self):
        return "<uninit>"

    def key(self):
        return ("uninit",)

    def _bad(self, *a):
        raise AlgError("uninitialised array cell used in arithmetic")

    __add__ = __radd__ = __sub__ = __rsub__ = __mul__ = __rmul__ = _bad
    __truediv__ = __rtruediv__ = __pow__ = __neg__ = _bad


UNINIT = Uninit()


class IntSym:
    """An integer that is concrete for shapes/indices (``value``) and symbolic in real
    arithmetic (``expr``) — used for n_grains."""

    __slots__ = ("value", "expr")

    def __init__(self, value, expr):
        self.value = int(value)
        self.expr = lift(expr)

    def __index__(self):
        return self.value

    def __int__(self):
        return self.value

    def __repr__(self):
        return f"IntSym({self.value}~{self.expr!r})"

    def key(self):
        return ("intsym", self.value, self.expr.key())

    def _bin(self, o, f):
        if isinstance(o, IntSym):
            return IntSym(f(self.value, o.value), f(self.expr, o.expr))
        if isinstance(o, bool):
            o = int(o)
        if isinstance(o, int):
            return IntSym(f(self.value, o), f(self.expr, o))
        return NotImplemented

    def __add__(self, o):
        r = self._bin(o, lambda a, b: a + b)
        return self.expr + o if r is NotImplemented else r

    __radd__ = __add__

    def __sub__(self, o):
        r = self._bin(o, lambda a, b: a - b)
        return self.expr - o if r is NotImplemented else r

    def __rsub__(self, o):
        if isinstance(o, int):
            return IntSym(o - self.value, o - self.expr)
        return o - self.expr

    def __mul__(self, o):
        r = self._bin(o, lambda a, b: a * b)
        return self.expr * o if r is NotImplemented else r

    __rmul__ = __mul__

    def __truediv__(self, o):
        return self.expr / (o.expr if isinstance(o, IntSym) else o)

    def __rtruediv__(self, o):
        return lift(o) / self.expr if not isinstance(o, np.ndarray) else o / self.expr

    def __eq__(self, o):
        if isinstance(o, IntSym):
            return self.value == o.value
        if isinstance(o, int):
            return self.value == o
        return NotImplemented

    def __hash__(self):
        return hash(self.value)

    def __lt__(self, o):
        return self.value < int(o)

    def __gt__(self, o):
        return self.value > int(o)

    def __le__(self, o):
        return self.value <= int(o)

    def __ge__(self, o):
        return self.value >= int(o)


class EnumMember:
    """Member of a repository Enum/IntEnum class (value evaluated from the class body)."""

    __slots__ = ("cls", "name", "value", "is_int")

    def __init__(self, cls, name, value, is_int):
        self.cls = cls
        self.name = name
        self.value = value
        self.is_int = is_int

    def __repr__(self):
        return f"{self.cls.name}.{self.name}"

    def key(self):
        return ("enum", self.cls.qualname, self.name)

    def __hash__(self):
        return hash(self.value) if self.is_int else hash((self.cls.qualname, self.name))

    def __eq__(self, o):
        if isinstance(o, EnumMember):
            if self.is_int and o.is_int:
                return self.value == o.value
            return self.cls is o.cls and self.name == o.name
        if self.is_int and isinstance(o, int):
            return self.value == o
        if self.is_int and isinstance(o, IntSym):
            return self.value == o.value
        return False

    def __ne__(self, o):
        return not self.__eq__(o)

    def __index__(self):
        if self.is_int:
            return self.value
        raise TypeError("non-integer enum used as index")

    def __int__(self):
        return self.__index__()

    def __lt__(self, o):
        return self.value < (o.value if isinstance(o, EnumMember) else o)


class FuncVal:
    __slots__ = ("module", "node", "closure", "name", "qualname", "cls", "decorators", "attrs")

    def __init__(self, module, node, closure=None, cls=None, qualname=None):
        self.attrs = {}            # function attributes (f.terminal = True): they live as long as the function object does
        self.module = module
        self.node = node
        self.closure = closure
        self.name = node.name if hasattr(node, "name") else "<lambda>"
        self.cls = cls
        self.qualname = qualname or (module.name + "." + self.name)
        self.decorators = getattr(node, "decorator_list", [])

    def __repr__(self):
        return f"<func {self.qualname}>"

    def key(self):
        return ("func", self.qualname, id(self.closure) if self.closure is not None else 0)


class BoundMethod:
    __slots__ = ("obj", "func")

    def __init__(self, obj, func):
        self.obj = obj
        self.func = func

    def __repr__(self):
        return f"<bound {self.func!r}>"

    def key(self):
        return ("bound", id(self.obj), self.func.key())


class Native:
    """A checker-supplied callable (stub model)."""

    __slots__ = ("name", "fn")

    def __init__(self, name, fn):
        self.name = name
        self.fn = fn

    def __repr__(self):
        return f"<native {self.name}>"

    def key(self):
        return ("native", self.name)


class Partial:
    __slots__ = ("func", "args", "kwargs")

    def __init__(self, func, args, kwargs):
        self.func = func
        self.args = args
        self.kwargs = kwargs

    def __repr__(self):
        return f"<partial {self.func!r} {self.kwargs}>"

    def key(self):
        return ("partial", keyof(self.func), tuple(keyof(a) for a in self.args),
                tuple(sorted((k, keyof(v)) for k, v in self.kwargs.items())))


class ClassVal:
    __slots__ = ("module", "node", "name", "qualname", "bases", "members", "kind", "methods",
                 "fields", "class_attrs", "dataclass_kw")

    def __init__(self, module, node):
        self.module = module
        self.node = node
        self.name = node.name
        self.qualname = module.name + "." + node.name
        self.bases = []
        self.members = {}     # enum members
        self.kind = "class"   # class | enum | intenum | dataclass | exception
        self.methods = {}
        self.fields = []      # dataclass fields: (name, annotation node, default node or None)
        self.class_attrs = {}
        self.dataclass_kw = {}

    def __repr__(self):
        return f"<class {self.qualname}>"

    def key(self):
        return ("class", self.qualname)

    def mro(self):
        out = [self]
        for b in self.bases:
            if isinstance(b, ClassVal):
                for c in b.mro():
                    if c not in out:
                        out.append(c)
        return out

    def find_method(self, name):
        for c in self.mro():
            if name in c.methods:
                return c.methods[name]
        return None

    def ext_base_names(self):
        out = []
        for c in self.mro():
            for b in c.bases:
                if isinstance(b, ExtRef):
                    out.append(b.path)
        return out


class Record:
    """Instance of a repository class (or a stub object) with attribute dictionary."""

    __slots__ = ("cls", "attrs", "label", "native_methods", "attrs_files")

    def __init__(self, cls, attrs=None, label=None):
        self.attrs_files = None
        self.cls = cls
        self.attrs = attrs if attrs is not None else {}
        self.label = label
        self.native_methods = {}

    def __repr__(self):
        return f"<record {self.cls.name if self.cls else self.label}>"

    def key(self):
        return ("record", id(self))


class ExcVal:
    """A raised exception value."""

    __slots__ = ("typename", "cls", "args", "node")

    def __init__(self, typename, cls=None, args=(), node=None):
        self.typename = typename
        self.cls = cls
        self.args = args
        self.node = node

    def __repr__(self):
        return f"<exc {self.typename}>"


class ExtRef:
    """Reference to something outside the repository (numpy.linalg.svd, builtins.len …)."""

    __slots__ = ("path",)

    def __init__(self, path):
        self.path = path

    def __repr__(self):
        return f"<ext {self.path}>"

    def key(self):
        return ("ext", self.path)

    def __eq__(self, o):
        return isinstance(o, ExtRef) and o.path == self.path

    def __hash__(self):
        return hash(self.path)


class ModuleRef:
    __slots__ = ("module",)

    def __init__(self, module):
        self.module = module

    def __repr__(self):
        return f"<module {self.module.name}>"

    def key(self):
        return ("module", self.module.name)


class Guard:
    """Symbolic boolean. kind in cmp/and/or/not/all/any/opaque."""

    __slots__ = ("kind", "args")

    def __init__(self, kind, *args):
        self.kind = kind
        self.args = args

    def key(self):
        return ("guard", self.kind) + tuple(keyof(a) for a in self.args)

    def __repr__(self):
        return f"G[{self.kind} {' '.join(map(repr, self.args))}]"

    def negate(self):
        if self.kind == "not":
            return self.args[0]
        return Guard("not", self)

    def astuple(self):
        """Structural form usable as an atom argument (E leaves stay E, so let atoms inside can be unfolded)."""
        def conv(a):
            if isinstance(a, Guard):
                return a.astuple()
            if isinstance(a, (tuple, list)):
                return tuple(conv(x) for x in a)
            if isinstance(a, (E, str, int, bool)) or a is None:
                return a
            return keyof(a)
        return ("G", self.kind) + tuple(conv(a) for a in self.args)


def inf_select(c, a, b):
    """select(c, a, b) where a branch is +inf: the infinite branch becomes the atom fn:inf, an ordinary symbol for the algebra that evaluates
    to a huge finite number at witness points (x / inf vanishes), so identities through it are decided by evaluation only.  None when
    neither branch is infinite."""
    from .alg import Inf, Fn, E as _E
    if isinstance(a, Inf) and isinstance(b, _E):
        return Fn("select", c.astuple(), Fn("inf"), b)
    if isinstance(b, Inf) and isinstance(a, _E):
        return Fn("select", c.astuple(), a, Fn("inf"))
    return None


class GenList(list):
    """The (eagerly computed) items of a generator expression / iter(...): a list that is also an iterator (next() consumes it)."""


class Phi:
    """Join of a value with None under a symbolic condition (`x = None; if c: x = v`): cond true -> a, false -> b.
    Only identity tests against None look inside it; a branch on such a test refines the variable to the matching side."""

    __slots__ = ("cond", "a", "b")

    def __init__(self, cond, a, b):
        self.cond, self.a, self.b = cond, a, b

    def key(self):
        return ("phi", self.cond.key(), keyof(self.a), keyof(self.b))

    def __repr__(self):
        return f"Phi({self.cond!r}, {type(self.a).__name__}, {type(self.b).__name__})"


class Mask:
    """Boolean mask over axis 0 of an array, one condition per element."""

    __slots__ = ("conds",)

    def __init__(self, conds):
        self.conds = list(conds)

    def key(self):
        return ("mask",) + tuple(c.key() for c in self.conds)

    def __len__(self):
        return len(self.conds)

    def __repr__(self):
        return f"Mask({self.conds})"


class MaskLoad:
    """base[mask] for a data-dependent mask: the selected rows in order; its length depends on the data."""

    __slots__ = ("base", "mask")

    def __init__(self, base, mask):
        self.base = base
        self.mask = mask

    def key(self):
        return ("maskload", keyof(self.base), self.mask.key())

    def __repr__(self):
        return f"<rows of {getattr(self.base, 'shape', '?')} array selected by a data-dependent mask>"


class MaskedArray:
    """np.ma masked array model: data array + Mask-like per-cell conditions (flat)."""

    __slots__ = ("data", "conds", "fill_value")

    def __init__(self, data, conds, fill_value=None):
        self.data = data
        self.conds = conds  # object array of Guard/bool, same shape as data
        self.fill_value = fill_value

    def key(self):
        return ("marr", keyof(self.data))


class SymIdx:
    """A data-dependent integer index vector (argsort / searchsorted result) kept symbolic."""

    __slots__ = ("op", "args")

    def __init__(self, op, args):
        self.op = op
        self.args = args

    def key(self):
        return ("symidx", self.op, keyof(self.args))

    def __repr__(self):
        return f"<{self.op} index>"


class SymArr:
    """An array whose cells are selected by symbolic indices or produced by an uninterpreted array op."""

    __slots__ = ("op", "args", "mods")

    def __init__(self, op, args):
        self.op = op
        self.args = args
        self.mods = []   # in-place item stores applied after construction: (index, value)

    def key(self):
        return ("symarr", self.op, keyof(self.args), keyof(self.mods))

    def __repr__(self):
        return f"<{self.op} array>"


def is_arr(v):
    return isinstance(v, np.ndarray)


def keyof(v):
    """Canonical hashable key of an abstract value (used for memoisation and atom arguments)."""
    if isinstance(v, E):
        return v.key()
    if isinstance(v, np.ndarray):
        return ("arr", v.shape) + tuple(keyof(x) for x in v.flat)
    if isinstance(v, (tuple, list)):
        return (type(v).__name__,) + tuple(keyof(x) for x in v)
    if isinstance(v, dict):
        return ("dict",) + tuple((keyof(k), keyof(x)) for k, x in v.items())
    if isinstance(v, (int, str, bool, float)) or v is None:
        return v
    if hasattr(v, "key"):
        return v.key()
    return ("py", repr(v))


def cells(v):
    """Tuple of E cells of an array (flattened) for use as an atom argument."""
    return tuple(x if isinstance(x, E) else lift(x) for x in v.flat)


def mkarr(nested):
    """Object array from nested lists / scalars, cells lifted to E (INF/UNINIT kept)."""
    if isinstance(nested, np.ndarray):
        return nested
    shape = []
    x = nested
    while isinstance(x, (list, tuple)):
        shape.append(len(x))
        if not x:
            break
        x = x[0]
    a = np.empty(tuple(shape), dtype=object)

    def fill(idx, v):
        if len(idx) == len(shape):
            a[idx] = cell(v)
        else:
            if isinstance(v, np.ndarray):
                v = list(v)
            if len(v) != shape[len(idx)]:
                raise Unsupported("ragged array literal")
            for i, w in enumerate(v):
                fill(idx + (i,), w)

    if shape:
        fill((), nested)
        return a
    return cell(nested)


def cell(v):
    if isinstance(v, (E, Inf, Uninit, Opaque)):
        return v
    if isinstance(v, IntSym):
        return v.expr
    if isinstance(v, EnumMember):
        return lift(v.value)
    if isinstance(v, np.ndarray) and v.ndim == 0:
        return cell(v.item())
    return lift(v)


def full(shape, v):
    a = np.empty(shape, dtype=object)
    a.fill(cell(v))
    return a


def symarr(name, shape, positive=False):
    from .alg import sym, psym

    a = np.empty(shape, dtype=object)
    mk = psym if positive else sym
    for idx in np.ndindex(*shape):
        a[idx] = mk(f"{name}[{','.join(map(str, idx))}]")
    return a
