"""Index-space inference: a small type system for array axes and for the integers that index them.

Every eigen-decomposition call site creates its own index space (the rank of an eigenvalue in ascending order means something only within
that decomposition).  Array axes and integer-valued expressions (loop counters, argmax results, index arrays) carry the space they range
over; indexing, element-wise arithmetic, matrix products and stores generate unification constraints.  Two DIFFERENT eigen index spaces that
must be equal is a report: eigenvectors of two decompositions were paired by rank instead of by a data-dependent search.

Flow-insensitive, intraprocedural, conservative: whatever is not understood is unconstrained (no report)."""

from __future__ import annotations

import ast


class Space:
    __slots__ = ("parent", "name", "origin")

    def __init__(self, name=None, origin=None):
        self.parent = self
        self.name = name          # named spaces are rigid: 'xyz', 'eig@<line>'
        self.origin = origin

    def find(self):
        s = self
        while s.parent is not s:
            s.parent = s.parent.parent
            s = s.parent
        return s


class AV:
    """abstract value: axes = list of Space (None = unknown rank), val = Space of the integers it holds (None = not an index)"""
    __slots__ = ("axes", "val", "items")

    def __init__(self, axes=None, val=None, items=None):
        self.axes = axes
        self.val = val
        self.items = items      # for tuples returned by calls


class Inference:
    def __init__(self, fn, resolve_dotted):
        self.fn = fn
        self.dotted = resolve_dotted       # ast expr -> dotted name with import aliases expanded (or None)
        self.conflicts = []
        self.env = {}
        self.eig_sites = []
        self.xyz = Space("xyz")

    # ---------------------------------------------------------------- unification
    def unify(self, a, b, node, why):
        if a is None or b is None:
            return
        ra, rb = a.find(), b.find()
        if ra is rb:
            return
        if ra.name and rb.name:
            if ra.name != rb.name and ra.name.startswith("eig@") and rb.name.startswith("eig@"):
                self.conflicts.append((getattr(node, "lineno", 0), why, ra.name, rb.name))
            return
        if ra.name:
            rb.parent = ra
        else:
            ra.parent = rb

    def join(self, x, y, node):
        if x is None:
            return y
        if y is None:
            return x
        if x.axes is not None and y.axes is not None and len(x.axes) == len(y.axes):
            for p, q in zip(x.axes, y.axes):
                self.unify(p, q, node, "two values of one variable")
        if x.val is not None and y.val is not None:
            self.unify(x.val, y.val, node, "two values of one index variable")
        return AV(x.axes if x.axes is not None else y.axes, x.val or y.val, x.items or y.items)

    def bind(self, name, v, node):
        self.env[name] = self.join(self.env.get(name), v, node) if name in self.env else v

    # ---------------------------------------------------------------- expressions
    def ev(self, n):
        m = getattr(self, "e_" + type(n).__name__, None)
        try:
            return m(n) if m else None
        except RecursionError:
            return None

    def e_Name(self, n):
        return self.env.get(n.id)

    def e_Constant(self, n):
        if isinstance(n.value, (int, float)) and not isinstance(n.value, bool):
            return AV([], None)
        return None

    def e_Tuple(self, n):
        return AV(None, None, items=[self.ev(e) for e in n.elts])

    def e_List(self, n):
        vs = [self.ev(e) for e in n.elts]
        val = None
        for v in vs:
            if v is not None and v.val is not None:
                if val is None:
                    val = v.val
                else:
                    self.unify(val, v.val, n, "elements of one index list")
        return AV([Space()], val)

    def e_ListComp(self, n):
        saved = dict(self.env)
        for g in n.generators:
            self.loop_target(g.target, g.iter, n)
        el = self.ev(n.elt)
        self.env = saved
        return AV([Space()], el.val if el is not None else None)

    def e_IfExp(self, n):
        return self.join(self.ev(n.body), self.ev(n.orelse), n)

    def e_UnaryOp(self, n):
        return self.ev(n.operand)

    def e_BinOp(self, n):
        a, b = self.ev(n.left), self.ev(n.right)
        if isinstance(n.op, ast.MatMult):
            if a is None or b is None or a.axes is None or b.axes is None or not a.axes or not b.axes:
                return None
            self.unify(a.axes[-1], b.axes[0] if len(b.axes) > 1 else b.axes[-1], n, "contracted axes of a matrix product")
            return AV(a.axes[:-1] + (b.axes[1:] if len(b.axes) > 1 else []), None)
        return self.elementwise([a, b], n)

    def elementwise(self, vs, node):
        vs = [v for v in vs if v is not None]
        if not vs:
            return None
        axes = None
        val = None
        for v in vs:
            if v.axes is not None:
                if axes is None:
                    axes = list(v.axes)
                else:
                    la_, lb_ = len(axes), len(v.axes)
                    if lb_ > la_:
                        axes, other = list(v.axes), axes
                    else:
                        other = v.axes
                    for k in range(1, min(la_, lb_) + 1):
                        self.unify(axes[-k], other[-k], node, "axes combined element by element")
            if v.val is not None:
                val = v.val if val is None else val      # index arithmetic with plain numbers keeps the space of the index
        return AV(axes, val)

    def e_Compare(self, n):
        return self.elementwise([self.ev(n.left)] + [self.ev(c) for c in n.comparators], n)

    def e_Attribute(self, n):
        if n.attr == "T":
            v = self.ev(n.value)
            return AV(list(reversed(v.axes)), v.val) if v is not None and v.axes is not None else v
        return None

    def e_Subscript(self, n):
        base = self.ev(n.value)
        if base is None:
            return None
        if base.items is not None:
            if isinstance(n.slice, ast.Constant) and isinstance(n.slice.value, int) and -len(base.items) <= n.slice.value < len(base.items):
                return base.items[n.slice.value]
            return None
        return self.index(base, n.slice, n)

    def index(self, base, sl, node, store=None):
        if base.axes is None:
            return AV(None, base.val)
        parts = list(sl.elts) if isinstance(sl, ast.Tuple) else [sl]
        if any(isinstance(p, ast.Constant) and p.value is Ellipsis for p in parts):
            return AV(None, base.val)
        out, arr_axes = [], None
        pos = 0
        for p in parts:
            if pos >= len(base.axes):
                return AV(None, base.val)
            ax = base.axes[pos]
            if isinstance(p, ast.Slice):
                out.append(ax)
            else:
                v = self.ev(p)
                if v is not None:
                    if v.val is None and v.axes is not None and not (isinstance(p, ast.Constant)):
                        v.val = Space()       # becomes an index here
                    if v.val is not None:
                        self.unify(v.val, ax, node, "an integer used as an index along an axis")
                    if v.axes:
                        if arr_axes is None:
                            arr_axes = list(v.axes)
                            out.append(("ARR",))
                        else:
                            for k in range(1, min(len(arr_axes), len(v.axes)) + 1):
                                self.unify(arr_axes[-k], v.axes[-k], node, "index arrays paired position by position")
            pos += 1
        out += base.axes[pos:]
        axes = []
        for o in out:
            if o == ("ARR",):
                axes += arr_axes
            else:
                axes.append(o)
        return AV(axes, base.val)

    def e_Call(self, n):
        d = self.dotted(n.func) or ""
        last = d.split(".")[-1]
        args = [self.ev(a) for a in n.args]
        if isinstance(n.func, ast.Attribute) and n.func.attr in ("transpose",) and not n.args:
            v = self.ev(n.func.value)
            return AV(list(reversed(v.axes)), v.val) if v is not None and v.axes is not None else v
        if isinstance(n.func, ast.Attribute) and n.func.attr in ("copy", "astype", "conj", "real"):
            return self.ev(n.func.value)
        if last in ("eigh", "eig") and ("linalg" in d or d.startswith("scipy") or d.startswith("numpy")):
            s = Space(f"eig@{n.lineno}", origin=ast.unparse(n.args[0]) if n.args else "?")
            self.eig_sites.append((n.lineno, s.origin))
            return AV(None, None, items=[AV([s], None), AV([self.xyz, s], None)])
        if last in ("abs", "absolute", "sign", "fabs", "negative", "square", "sqrt", "asarray", "array", "copy", "int", "float", "round", "rint", "clip"):
            return args[0] if args else None
        if last == "where" and len(args) == 3:
            return self.elementwise(args, n)
        if last in ("argmax", "argmin", "nanargmax", "nanargmin"):
            a = args[0] if args else None
            axis = None
            for kw in n.keywords:
                if kw.arg == "axis" and isinstance(kw.value, ast.Constant):
                    axis = kw.value.value
            if len(n.args) > 1 and isinstance(n.args[1], ast.Constant):
                axis = n.args[1].value
            if a is None or a.axes is None or axis is None or not isinstance(axis, int) or not (-len(a.axes) <= axis < len(a.axes)):
                return None
            rest = list(a.axes)
            removed = rest.pop(axis)
            return AV(rest, removed)
        if last == "arange":
            s = Space()
            return AV([s], s)
        if last == "dot" and len(args) == 2 and all(a is not None and a.axes is not None and len(a.axes) == 1 for a in args):
            self.unify(args[0].axes[0], args[1].axes[0], n, "contracted axes of a dot product")
            return AV([], None)
        if last in ("empty", "zeros", "ones", "full") and n.args and isinstance(n.args[0], ast.Tuple):
            return AV([Space() for _ in n.args[0].elts], None)
        if last in ("norm", "trace", "sum", "max", "min", "len"):
            return AV([], None) if not n.keywords else None
        return None

    # ---------------------------------------------------------------- statements
    def loop_target(self, target, it, node):
        if isinstance(target, ast.Name):
            d = self.dotted(it.func) if isinstance(it, ast.Call) else None
            if d and d.split(".")[-1] == "range":
                self.env[target.id] = AV([], Space())        # a fresh counter per loop
            else:
                self.env[target.id] = None

    def assign(self, t, v, node):
        if isinstance(t, ast.Name):
            self.bind(t.id, v, node)
        elif isinstance(t, (ast.Tuple, ast.List)):
            for k, e in enumerate(t.elts):
                self.assign(e, v.items[k] if v is not None and v.items is not None and k < len(v.items) else None, node)
        elif isinstance(t, ast.Subscript):
            base = self.ev(t.value)
            if base is not None and base.items is None:
                sub = self.index(base, t.slice, node)
                if sub is not None and v is not None and sub.axes is not None and v.axes is not None:
                    for k in range(1, min(len(sub.axes), len(v.axes)) + 1):
                        self.unify(sub.axes[-k], v.axes[-k], node, "axes of a stored value and of the place it is stored in")

    def run(self):
        for _ in range(2):            # two passes: uses before (textual) definitions inside loops
            self.block(self.fn.body)
        seen, out = set(), []
        for c in self.conflicts:
            if c not in seen:
                seen.add(c)
                out.append(c)
        self.conflicts = out
        return out

    def block(self, body):
        for st in body:
            if isinstance(st, ast.Assign):
                v = self.ev(st.value)
                for t in st.targets:
                    self.assign(t, v, st)
            elif isinstance(st, ast.AugAssign):
                v = self.elementwise([self.ev(st.target) if not isinstance(st.target, ast.Name) else self.env.get(st.target.id), self.ev(st.value)], st)
                if isinstance(st.target, ast.Name):
                    self.bind(st.target.id, v, st)
            elif isinstance(st, ast.AnnAssign) and st.value is not None:
                self.assign(st.target, self.ev(st.value), st)
            elif isinstance(st, ast.For):
                self.loop_target(st.target, st.iter, st)
                self.block(st.body)
                self.block(st.orelse)
            elif isinstance(st, (ast.If, ast.While)):
                self.ev(st.test)
                self.block(st.body)
                self.block(st.orelse)
            elif isinstance(st, ast.With):
                self.block(st.body)
            elif isinstance(st, ast.Try):
                self.block(st.body)
                for h in st.handlers:
                    self.block(h.body)
                self.block(st.orelse)
                self.block(st.finalbody)
            elif isinstance(st, ast.Expr):
                self.ev(st.value)
            elif isinstance(st, ast.Return) and st.value is not None:
                self.ev(st.value)
